"""C07: signatures, call shapes, the name/value token tables, building real functions with `exec`,
and rendering scenarios for the Lean driver `drv_bind`.

A signature is a tuple of parameters `(name, kind, has_default)`, kind in po|pk|vp|ko|vk
(POSITIONAL_ONLY, POSITIONAL_OR_KEYWORD, VAR_POSITIONAL, KEYWORD_ONLY, VAR_KEYWORD).
A call is `(args, kw)`: a tuple of int tokens and a tuple of `(name, int token)` pairs (ordered).
"""
from __future__ import annotations

import itertools

RESERVED = ["event_data", "machine", "event", "model", "transition", "state", "source", "target"]
USER_NAMES = ["a", "b", "c", "d", "x", "y", "k", "args", "kwargs", "kw", "rest", "n0", "n1", "n2", "n3", "n4"]
UNKNOWN = ["u1", "u2", "u3"]
NAME_ID = {n: i for i, n in enumerate(RESERVED)}
NAME_ID.update({n: 10 + i for i, n in enumerate(USER_NAMES)})
NAME_ID.update({n: 40 + i for i, n in enumerate(UNKNOWN)})
ID_NAME = {v: k for k, v in NAME_ID.items()}

KINDS = ("po", "pk", "vp", "ko", "vk")
_RANK = {k: i for i, k in enumerate(KINDS)}


class Default:
    """the default value of every generated parameter"""

    def __repr__(self):
        return "<dflt>"


DFLT = Default()


# ----------------------------------------------------------------------------- signatures

def kind_sequences(n):
    """all kind sequences of length n in Python's order po* pk* vp? ko* vk?"""
    out = []
    for seq in itertools.product(KINDS, repeat=n):
        ok = all(_RANK[a] <= _RANK[b] for a, b in zip(seq, seq[1:]))
        ok = ok and seq.count("vp") <= 1 and seq.count("vk") <= 1
        if ok:
            out.append(seq)
    return out


def default_choices(seq):
    """all legal default assignments: among po+pk a non-default may not follow a default; ko free"""
    pos = [i for i, k in enumerate(seq) if k in ("po", "pk")]
    kos = [i for i, k in enumerate(seq) if k == "ko"]
    for first_default in range(len(pos) + 1):
        for ko_mask in itertools.product((False, True), repeat=len(kos)):
            d = [False] * len(seq)
            for j, i in enumerate(pos):
                d[i] = j >= first_default
            for j, i in enumerate(kos):
                d[i] = ko_mask[j]
            yield tuple(d)


def signatures_upto(n, names=("n0", "n1", "n2", "n3", "n4")):
    for m in range(n + 1):
        for seq in kind_sequences(m):
            for d in default_choices(seq):
                yield tuple((names[i], seq[i], d[i]) for i in range(m))


def valid_sig(sig):
    ks = [k for _, k, _ in sig]
    if any(_RANK[a] > _RANK[b] for a, b in zip(ks, ks[1:])) or ks.count("vp") > 1 or ks.count("vk") > 1:
        return False
    if len({n for n, _, _ in sig}) != len(sig):
        return False
    seen_default = False
    for _, k, d in sig:
        if k in ("po", "pk"):
            if seen_default and not d:
                return False
            seen_default = seen_default or d
    return True


def random_sig(rng, max_params=5, name_pool=None, p_reserved=0.0):
    """a random legal signature; names from the user pool and (with p_reserved) the reserved names"""
    while True:
        n = rng.randint(0, max_params)
        seq = sorted((rng.choice(KINDS) for _ in range(n)), key=_RANK.get)
        if seq.count("vp") > 1 or seq.count("vk") > 1:
            continue
        ds = list(default_choices(tuple(seq)))
        d = rng.choice(ds)
        pool = list(name_pool or USER_NAMES[:11])
        names = []
        for _ in range(n):
            if rng.random() < p_reserved:
                c = rng.choice(RESERVED)
            else:
                c = rng.choice(pool)
            while c in names:
                c = rng.choice(pool + RESERVED)
            names.append(c)
        return tuple((names[i], seq[i], d[i]) for i in range(n))


def sig_text(sig, first=None):
    """the parameter list of a `def`"""
    parts = [first] if first else []
    kinds = [k for _, k, _ in sig]
    for i, (n, k, d) in enumerate(sig):
        if k == "ko" and "vp" not in kinds and (i == 0 or kinds[i - 1] != "ko"):
            parts.append("*")
        if k == "vp":
            parts.append("*" + n)
        elif k == "vk":
            parts.append("**" + n)
        else:
            parts.append(n + ("=_D" if d else ""))
        if k == "po" and (i + 1 == len(sig) or kinds[i + 1] != "po"):
            parts.append("/")
    if first and "/" in parts:
        # `self` precedes positional-only parameters: it is positional-only as well, fine
        pass
    return ", ".join(parts)


_FN_CACHE = {}


def record_expr(sig):
    return "(" + "".join(f"({n!r}, {n}), " for n, _, _ in sig) + ")"


def make_function(sig, name="f", is_async=False):
    """a real function `name(<sig>)` returning `(('p', p), …)`; every such function shares
    `__name__`/`__qualname__` on purpose (the binding must not depend on names)"""
    key = (sig, name, is_async)
    f = _FN_CACHE.get(key)
    if f is None:
        src = f"{'async ' if is_async else ''}def {name}({sig_text(sig)}):\n    return {record_expr(sig)}\n"
        ns = {"_D": DFLT}
        exec(src, ns)  # noqa: S102
        f = ns[name]
        f._c07_src = src
        if len(_FN_CACHE) > 200000:
            _FN_CACHE.clear()
        _FN_CACHE[key] = f
    return f


# ----------------------------------------------------------------------------- calls

def arg_tokens(n):
    return tuple(100 + i for i in range(n))


def kw_token(name):
    return 200 + NAME_ID[name]


def call_shapes(sig, max_args, max_kw, unknown=("u1",)):
    """0..max_args positionals x subsets (<= max_kw) of the parameter names + unknown names"""
    cand = [n for n, _, _ in sig] + list(unknown)
    for na in range(max_args + 1):
        for r in range(max_kw + 1):
            for sub in itertools.combinations(cand, r):
                yield arg_tokens(na), tuple((n, kw_token(n)) for n in sub)


def random_call(rng, sig, max_args=4, extra_names=()):
    na = rng.randint(0, max_args)
    cand = [n for n, _, _ in sig] + list(UNKNOWN[:2]) + list(extra_names)
    cand = list(dict.fromkeys(cand))
    rng.shuffle(cand)
    r = rng.randint(0, min(4, len(cand)))
    return arg_tokens(na), tuple((n, kw_token(n)) for n in cand[:r])


# ----------------------------------------------------------------------------- driver rendering

def param_tok(p):
    n, k, d = p
    return f"{NAME_ID[n]}:{k}:{1 if d else 0}"


def sig_line(sig):
    return "sig " + " ".join(param_tok(p) for p in sig)


def kw_line(kw, head="kw"):
    return head + " " + " ".join(f"{NAME_ID[n]}={v}" for n, v in kw)


def bind_scn(name, sig, args, kw, fixed=True):
    return [f"scn bind {name}", f"fixed {1 if fixed else 0}", sig_line(sig),
            "args " + " ".join(map(str, args)), kw_line(kw), "end"]


# ----------------------------------------------------------------------------- canonical frames

def canon_value(v, sc):
    """value found in a parameter -> canonical text; `sc` maps a scalar to its token"""
    if v is DFLT:
        return "dflt"
    if isinstance(v, tuple):
        return "tuple:" + ",".join(str(sc(x)) for x in v)
    if isinstance(v, dict):
        items = sorted(v.items(), key=lambda e: NAME_ID.get(e[0], 999))
        return "dict:" + ",".join(f"{NAME_ID.get(k, k)}:{sc(x)}" for k, x in items)
    return f"one:{sc(v)}"


def canon_frame(rec, sc=lambda x: x):
    """`(('p', value), …)` -> 'ok 12=one:100 …' with names as ids, dict entries sorted by key id"""
    return ("ok " + " ".join(f"{NAME_ID[n]}={canon_value(v, sc)}" for n, v in rec)).rstrip()


def canon_model_frame(s):
    """driver text -> same canonical form (dict entries sorted by key id)"""
    if not s.startswith("ok"):
        return s
    out = []
    for t in s.split(" ")[1:]:
        if not t:
            continue
        n, v = t.split("=", 1)
        if v.startswith("dict:"):
            items = [e.split(":") for e in v[5:].split(",") if e]
            items.sort(key=lambda e: int(e[0]))
            v = "dict:" + ",".join(f"{k}:{x}" for k, x in items)
        out.append(f"{n}={v}")
    return ("ok " + " ".join(out)).rstrip()


def pretty_call(sig, args, kw):
    return f"def f({sig_text(sig)}); call f(*{list(args)}, **{dict(kw)})"
