"""C10: build the real classes for a scenario, drive them through the public API, observe.

After the constructor and after every operation the observer records
  f   getattr(<the object the user holds>, field, None)
  v   sm.current_state_value
  s   sm.current_state.id (as state index)  |  !invalidstate  |  X<ExcType>
  sv  sm.current_state.value
  a   sm.<state>.is_active for every declared state (1 / 0 / ! InvalidStateValue / X other)
  id  sm.model is user_model
"""
from __future__ import annotations

import warnings
import weakref

from store_gen import EVENTS, VALS, SScn, key_of

MODULE = "c10_store_mod"


def _django():
    try:
        from django.conf import settings
        if not settings.configured:
            settings.configure(INSTALLED_APPS=[])
            import django
            django.setup()
    except ImportError:
        pass


def real(v, sm):
    """a `StateObj` placeholder -> the State object of the machine's class"""
    from store_gen import StateObj
    if isinstance(v, StateObj):
        return getattr(type(sm), f"s{v.idx if v.idx < len(type(sm).states) else 0}")
    return v


def later_subclasses(cls, s: SScn):
    """After the class exists, somebody writes subclasses of it that declare one more state each — with the values
    this history will try to write although the machine does not map them. (The class statements fail: the new
    state is unreachable. Failed or not, they are no business of `cls`: its instances must go on rejecting those
    values.)"""
    from statemachine import State
    from store_gen import StateObj
    keys = []
    for k in [s.start] + [op[1] for op in s.ops if op[0] in ("wv", "raw")]:
        if k is not None and k not in s.values and k not in keys and not isinstance(VALS[k], StateObj):
            keys.append(k)
    for j, k in enumerate(keys[:3]):
        try:
            with warnings.catch_warnings():
                warnings.simplefilter("ignore")
                type(cls)(f"Later{j}", (cls,), {"__module__": MODULE, f"extra{j}": State(value=VALS[k])})
        except Exception:  # noqa: BLE001
            pass


def build_class(s: SScn):
    from statemachine import State, StateMachine
    states = []
    for i, k in enumerate(s.values):
        kw = dict(value=VALS[k], initial=(i == s.initial), final=(i in s.finals))
        if s.names[i] is not None:
            kw["name"] = s.names[i]
        states.append(State(**kw))
    ns = {"__module__": MODULE}
    for i, st in enumerate(states):
        ns[f"s{i}"] = st
    for (a, e, b) in s.trans:
        states[a].to(states[b], event=EVENTS[e])
    with warnings.catch_warnings():
        warnings.simplefilter("ignore")
        return type(StateMachine)("M", (StateMachine,), ns)


class Handle:
    """the object the user holds + how the user reads / writes / deletes the field on it"""

    def __init__(self, obj, keep=None):
        self.obj = obj
        self.keep = keep          # strong reference for proxies; backing stores


def make_model(s: SScn):
    """-> the object to pass as `model` (None for shape 'none'); for 'mixin' the instance that owns the machine"""
    f = s.field_name
    v0 = None if s.cell0 is None else VALS[s.cell0]
    shape = s.shape
    if shape == "none":
        return None, None
    if shape == "default":
        from statemachine.model import Model
        m = Model()
        if f != "state" or v0 is not None:
            setattr(m, f, v0)
        return m, None
    if shape == "plain":
        m = type("Plain", (), {})()
        setattr(m, f, v0)
        return m, None
    if shape == "noattr":
        return type("NoAttr", (), {})(), None
    if shape == "property":
        backing = {"row": v0}
        prop = property(lambda self: backing["row"], lambda self, v: backing.__setitem__("row", v))
        return type("Persistent", (), {f: prop})(), backing
    if shape == "classdefault":
        return type("ClassDefault", (), {f: v0})(), None
    if shape == "len0":
        m = type("Len0", (), {"__len__": lambda self: 0})()
        setattr(m, f, v0)
        return m, None
    if shape == "boolfalse":
        m = type("BoolFalse", (), {"__bool__": lambda self: False})()
        setattr(m, f, v0)
        return m, None
    if shape == "listsub":
        m = type("ListModel", (list,), {})()
        setattr(m, f, v0)
        return m, None
    if shape == "dictsub":
        m = type("DictModel", (dict,), {})()
        setattr(m, f, v0)
        return m, None
    if shape == "slots":
        m = type("Slotted", (), {"__slots__": (f,)})()
        if v0 is not None:
            setattr(m, f, v0)
        return m, None
    if shape == "proxy":
        target = type("Plain", (), {})()
        setattr(target, f, v0)
        return weakref.proxy(target), target
    if shape == "getattr":
        store = {f: v0}

        def _ga(self, n):
            try:
                return store[n]
            except KeyError:
                raise AttributeError(n) from None

        m = type("Dyn", (), {"__getattr__": _ga, "__setattr__": lambda self, n, v: store.__setitem__(n, v)})()
        return m, store
    if shape in ("mixin", "mixinlen0"):
        _django()
        from statemachine.mixins import MachineMixin
        ns = {"state_field_name": f, "state_machine_name": f"{MODULE}.M", f: v0}
        if shape == "mixinlen0":
            ns["__len__"] = lambda self: 0
        cls = type("MixinModel", (MachineMixin,), ns)
        return cls, None          # instantiated by the runner (instantiation constructs the machine)
    raise ValueError(shape)


def exc_s(e, s: SScn):
    from statemachine.exceptions import InvalidStateValue, TransitionNotAllowed
    if isinstance(e, TransitionNotAllowed):
        ev = str(e.event)
        evi = EVENTS.index(ev) if ev in EVENTS else f"?{ev}"
        sid = getattr(e.state, "id", "?")
        return f"notallowed:{evi}:{sid[1:] if sid[:1] == 's' and sid[1:].isdigit() else sid}"
    if isinstance(e, InvalidStateValue):
        return "invalidstate"
    return f"other:{type(e).__name__}"


def observe(sm, user, s: SScn, supplied: bool):
    from statemachine.exceptions import InvalidStateValue
    o = {}
    o["f"] = key_of(getattr(user, s.field_name, None))
    try:
        o["v"] = key_of(sm.current_state_value)
    except Exception as e:  # noqa: BLE001
        o["v"] = "X" + type(e).__name__
    try:
        cs = sm.current_state
        sid = cs.id
        o["s"] = sid[1:] if sid[:1] == "s" and sid[1:].isdigit() else "?" + sid
        o["sv"] = key_of(cs.value)
    except InvalidStateValue:
        o["s"] = "!invalidstate"
        o["sv"] = None
    except Exception as e:  # noqa: BLE001
        o["s"] = "X" + type(e).__name__
        o["sv"] = None
    a = ""
    for i in range(len(s.values)):
        try:
            r = getattr(sm, f"s{i}").is_active
            a += "1" if r is True else "0" if r is False else "?"
        except InvalidStateValue:
            a += "!"
        except Exception:  # noqa: BLE001
            a += "X"
    o["a"] = a
    if supplied:
        o["id"] = 1 if sm.model is user else 0
    else:
        from statemachine.model import Model
        o["id"] = 1 if type(sm.model) is Model else 0
    return o


def run_impl(s: SScn):
    """-> list of observation dicts: [{'op': 'C', 'res': …, f, v, s, sv, a, id}, {'op': i, …} …]"""
    cls = build_class(s)
    if sum(map(ord, s.name)) % 2:
        later_subclasses(cls, s)
    user, keep = make_model(s)
    out = []
    kw = {}
    if s.field_name != "state":
        kw["state_field"] = s.field_name
    if s.start is not None:
        kw["start_value"] = VALS[s.start]
    if s.allow:
        kw["allow_event_without_transition"] = True
    supplied = s.shape != "none"
    sm = None
    with warnings.catch_warnings():
        warnings.simplefilter("ignore")
        try:
            if s.shape in ("mixin", "mixinlen0"):
                user = user()                 # MachineMixin.__init__ builds the machine over `self`
                sm = user.statemachine
            elif supplied:
                sm = cls(user, **kw)
            else:
                sm = cls(**kw)
                user = sm.model               # the only object the user can hold
        except Exception as e:  # noqa: BLE001
            f = None if isinstance(user, type) or user is None else key_of(getattr(user, s.field_name, None))
            out.append({"op": "C", "res": "err:" + exc_s(e, s), "f": f})
            for i in range(len(s.ops)):
                out.append({"op": i, "res": "skipped"})
            return out
        out.append({"op": "C", "res": "ok", **observe(sm, user, s, supplied)})

        def perform(i, op):
            if op[0] == "send":
                sm.send(EVENTS[op[1]])
            elif op[0] == "wv":
                v = None if op[1] is None else real(VALS[op[1]], sm)
                unmapped = v is not None and not any(type(x) is type(v) and x == v for x in type(sm).states_map)
                if unmapped and i % 2 == 0:
                    from statemachine import State
                    sm.current_state = State(value=v)
                else:
                    sm.current_state_value = v
            elif op[0] == "ws":
                sm.current_state = getattr(sm, f"s{op[1]}")
            elif op[0] == "raw":
                setattr(user, s.field_name, None if op[1] is None else real(VALS[op[1]], sm))
            elif op[0] == "del":
                try:
                    delattr(user, s.field_name)
                except AttributeError:
                    pass

        # one macrostep: the operations that follow a `send` are performed from inside the `after` callback of the
        # transition it runs (a listener attached for the purpose); a send among them is queued behind it
        class Inside:
            todo = None
            ran = False
            last_send = None

            def after_transition(self_l):
                if Inside.todo is None:
                    return
                todo, Inside.todo = Inside.todo, None
                Inside.ran = True
                i0, rest = todo
                out.append({"op": i0, "res": "ok", **observe(sm, user, s, supplied)})
                for j, opj in rest:
                    if opj[0] == "send":
                        Inside.last_send = j
                        r = sm.send(EVENTS[opj[1]])     # run-to-completion: only queued
                        if r is not None:
                            out.append({"op": j, "res": f"err:nested send returned {r!r}"})
                        continue
                    try:
                        perform(j, opj)
                        res = "ok"
                    except Exception as e:  # noqa: BLE001
                        res = "err:" + exc_s(e, s)
                    out.append({"op": j, "res": res, **observe(sm, user, s, supplied)})

        bundles = {}
        for b0, bk in getattr(s, "bundles", []):      # (kept legal whatever a shrinker did to the operation list)
            if b0 < len(s.ops) and s.ops[b0][0] == "send" and not any(b0 <= x + kk and x <= b0 for x, kk in bundles.items()):
                k = 0
                while b0 + k + 1 < len(s.ops) and k < bk:
                    k += 1
                    if s.ops[b0 + k][0] == "send":
                        break
                if k:
                    bundles[b0] = k
        if bundles:
            sm.add_listener(Inside())
        skip = set()
        for i, op in enumerate(s.ops):
            if i in skip:
                continue
            if i in bundles and op[0] == "send":
                rest = [(j, s.ops[j]) for j in range(i + 1, i + 1 + bundles[i])]
                Inside.todo, Inside.ran, Inside.last_send = (i, rest), False, None
                try:
                    sm.send(EVENTS[op[1]])
                    res = "ok"
                except Exception as e:  # noqa: BLE001
                    res = "err:" + exc_s(e, s)
                Inside.todo = None
                if Inside.ran:
                    skip |= {j for j, _ in rest}
                    if Inside.last_send is not None:      # the outcome of the macrostep after the callback = the queued event's
                        out.append({"op": Inside.last_send, "res": res, **observe(sm, user, s, supplied)})
                    elif res != "ok":
                        out.append({"op": i, "res": res + " (after the callback returned)"})
                    continue
                out.append({"op": i, "res": res, **observe(sm, user, s, supplied)})
                continue
            try:
                if op[0] == "send":
                    sm.send(EVENTS[op[1]])
                elif op[0] == "wv":
                    v = None if op[1] is None else real(VALS[op[1]], sm)
                    unmapped = v is not None and not any(type(x) is type(v) and x == v for x in type(sm).states_map)
                    if unmapped and i % 2 == 0:
                        # the same checked write through the other setter: a State object of *another* machine
                        from statemachine import State
                        sm.current_state = State(value=v)
                    else:
                        sm.current_state_value = v
                elif op[0] == "ws":
                    sm.current_state = getattr(sm, f"s{op[1]}")
                elif op[0] == "raw":
                    setattr(user, s.field_name, None if op[1] is None else real(VALS[op[1]], sm))
                elif op[0] == "del":
                    try:
                        delattr(user, s.field_name)
                    except AttributeError:
                        pass
                res = "ok"
            except Exception as e:  # noqa: BLE001
                res = "err:" + exc_s(e, s)
            out.append({"op": i, "res": res, **observe(sm, user, s, supplied)})
    return out


def lines_of(s: SScn, obs):
    """render like the Lean driver prints"""
    tk = s.tokens()

    def t(k):
        if k is None:
            return "-"
        return str(tk[k]) if k in tk else k

    L = []
    for o in obs:
        if o["res"] == "skipped":
            L.append(f"O {o['op']} skipped")
        elif o["op"] == "C" and o["res"] != "ok":
            L.append(f"C {o['res']} f={t(o['f'])}")
        else:
            head = "C" if o["op"] == "C" else f"O {o['op']}"
            L.append(f"{head} {o['res']} f={t(o['f'])} v={t(o['v'])} s={o['s']} a={o['a']} id={o['id']}")
    return L
