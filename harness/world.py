"""Worlds: several machine classes and instances living in one process (C16, C17).

A world is a list of *families* (one machine class each, possibly a subclass of an earlier family,
possibly sharing class and callback names with the others) and a list of *members* (instances, each
with its own model, listeners, options, behaviour table and operation list). The operations of all
members are merged into one sequence; a member's operation may also be executed from inside a
callback of another member (cross-machine nesting). Every member's observation must equal what the
same member produces alone (and what the Lean model says, `C16_frame`).
"""
from __future__ import annotations

import asyncio
import copy
import dataclasses
import json
import warnings
from dataclasses import dataclass, field

import eng
import gen


@dataclass
class Family:
    scn: eng.Scn                      # machine definition + callbacks (ops/acts unused here)
    base: int | None = None           # index of the family this one subclasses
    extra_cbs: list = field(default_factory=list)   # ids of the callbacks the subclass adds
    cls_name: str = "M"


@dataclass
class Member:
    fam: int
    scn: eng.Scn                      # the family's definition with this instance's ops/acts/options


@dataclass
class World:
    families: list = field(default_factory=list)
    members: list = field(default_factory=list)
    order: list = field(default_factory=list)       # member index per executed operation
    cross: list = field(default_factory=list)       # (host member, cb id, tid, guest member)
    loop: bool = False
    clones: list = field(default_factory=list)      # (source member, destination member, 'deepcopy'|'pickle', op index);
                                                    # `order` holds -(k+1) where clone k is taken



def _delegates(listeners):
    """ids of the objects the listeners delegate to: instance attributes that are bound methods of another object
    (listener kind `shared`) — a copy must call its *own* copy of that object"""
    out = set()
    for x in listeners:
        for v in getattr(x, "__dict__", {}).values():
            me = getattr(v, "__self__", None)
            if me is not None and not isinstance(me, type):
                out.add(id(me))
    return out

def world_to_json(w: World) -> str:
    return json.dumps(dataclasses.asdict(w), sort_keys=True)


def world_from_json(txt: str) -> World:
    from engcorr import scn_from_json
    d = json.loads(txt)
    w = World(order=d["order"], cross=[tuple(x) for x in d["cross"]], loop=d["loop"],
              clones=[tuple(x) for x in d.get("clones", [])])
    for f in d["families"]:
        w.families.append(Family(scn=scn_from_json(json.dumps(f["scn"])), base=f["base"],
                                 extra_cbs=f["extra_cbs"], cls_name=f["cls_name"]))
    for m in d["members"]:
        w.members.append(Member(fam=m["fam"], scn=scn_from_json(json.dumps(m["scn"]))))
    return w


# ----------------------------------------------------------------------------- building classes

def build_family(w: World, fi: int, built: dict, switches: dict):
    """Define the class of family `fi` (and, first, of its base). Returns (cls, model_cls, listener classes)."""
    if fi in built:
        return built[fi]
    fam = w.families[fi]
    if fam.base is None:
        sw = eng.RtSwitch()
        sw.cur = eng.Runtime(fam.scn)       # a sink until a member is active
        cls, model_cls, listeners = eng.build(fam.scn, sw, cls_name=fam.cls_name, picklable=bool(w.clones))
        built[fi] = (cls, model_cls, dict(cls._verif_listener_factories))
        switches[fi] = sw
        return built[fi]
    bcls, bmodel, blst = build_family(w, fam.base, built, switches)
    sw = switches[fam.base]
    switches[fi] = sw
    ns = {}
    model_ns, listener_ns = {}, {}
    for c in fam.scn.cbs:
        if c.id not in fam.extra_cbs:
            continue
        fn = eng.make_fn(sw, c, with_self=True)
        if c.provider == "machine":
            ns[c.name] = fn
        elif c.provider == "model":
            model_ns[c.name] = fn
        else:
            listener_ns.setdefault(c.provider, {})[c.name] = fn
    with warnings.catch_warnings():
        warnings.simplefilter("ignore")
        cls = type(bcls)(fam.cls_name, (bcls,), ns)
    model_cls = type("Mdl", (bmodel,), model_ns)
    lst = dict(blst)
    for p in sorted(set(listener_ns)):
        lst[p] = type("Lst_" + p, (blst[p],) if isinstance(blst.get(p), type) else (), listener_ns.get(p, {}))
    built[fi] = (cls, model_cls, lst)
    return built[fi]


# ----------------------------------------------------------------------------- running

def run_world(w: World, only=None):
    """Execute the world (or only the members in `only`) against the real library.
    Returns {member index: observation lines}."""
    built, switches = {}, {}
    sessions = {}
    nextop = {}
    del SPY_LOG[:]
    active = []         # stack of member indices whose operation is in progress
    members = list(range(len(w.members))) if only is None else list(only)

    clone_dsts = {c[1] for c in w.clones}

    def session(mi):
        if mi in sessions:
            return sessions[mi]
        m = w.members[mi]
        if mi in clone_dsts:      # not cloned (yet): nothing to run
            s = eng.Session.__new__(eng.Session)
            s.scn, s.rt, s.ok, s.dead, s.cur_tid = m.scn, eng.Runtime(m.scn), False, True, "-"
            return s
        rt = eng.Runtime(m.scn)
        try:
            with warnings.catch_warnings():
                warnings.simplefilter("ignore")
                cls, model_cls, lcls = build_family(w, m.fam, built, switches)
        except Exception as e:
            rt.lines.append(f"DEFERR {type(e).__name__}")
            s = eng.Session.__new__(eng.Session)
            s.scn, s.rt, s.ok, s.dead, s.cur_tid = m.scn, rt, False, True, "-"
            sessions[mi] = s
            return s
        listeners = {p: c() for p, c in lcls.items()}
        sessions[mi] = eng.Session(m.scn, rt=rt, built=(cls, model_cls, listeners))
        nextop[mi] = 0
        return sessions[mi]

    def enter(mi):
        active.append(mi)
        switches[w.members[mi].fam].cur = sessions[mi].rt

    def leave():
        active.pop()
        if active:
            mj = active[-1]
            switches[w.members[mj].fam].cur = sessions[mj].rt

    cross = {}
    if only is None:
        for (host, cb, tid, guest) in w.cross:
            cross.setdefault((host, cb, tid), []).append(guest)

    def install_hook(mi):
        s = sessions[mi]

        def hook(cb, tid):
            for g in cross.pop((mi, cb, tid), []):
                if g in active:
                    continue    # would re-enter a machine that is in the middle of its own operation (a nested send)
                run_next(g, nested=True)
        s.rt.cross_hook = hook

    def run_next(mi, nested=False):
        s = session(mi)
        if not s.ok:
            return None
        if mi not in nextop:
            nextop[mi] = 0
        i = nextop[mi]
        if i >= len(s.scn.ops):
            return None
        nextop[mi] = i + 1
        if getattr(s.rt, "cross_hook", None) is None:
            install_hook(mi)
        if w.clones and s.rt.owner_ids is None and getattr(s.rt, "sm", None) is not None and i > 0:
            s.rt.owner_ids = {id(s.rt.sm), id(s.rt.model)} | {id(x) for x in s.listeners.values()} | {
                id(x.__dict__["_inner"]) for x in s.listeners.values() if "_inner" in getattr(x, "__dict__", {})} | \
                _delegates(s.listeners.values())
        s.foreign_from = None
        if nested and active:
            host = sessions[active[-1]]
            s.foreign_from = getattr(host.rt, "sm", None)
        enter(mi)
        try:
            if w.loop and not nested:
                return s.step(i, s.scn.ops[i])      # coroutine, awaited by the caller
            s.step_sync(i, s.scn.ops[i])
        finally:
            if not (w.loop and not nested):
                leave()
        return None

    def do_clone(ci):
        """deepcopy / pickle round trip of the source member's machine: the destination member
        continues from there with its own runtime"""
        src, dst, mech, kk = w.clones[ci]
        if src not in members or dst not in members:
            return
        s = session(src)
        d = eng.Session.__new__(eng.Session)
        m = w.members[dst]
        rt = eng.Runtime(m.scn)
        d.scn, d.rt, d.ok, d.dead, d.cur_tid = m.scn, rt, True, False, "-"
        d.cls, d.listeners = getattr(s, "cls", None), {}
        sessions[dst] = d
        k = kk
        nextop[dst] = k + 1
        if nextop.get(src, 0) != k:
            rt.lines.append(f"X harness: source has executed {nextop.get(src, 0)} operations, clone point is {k}")
        rt.prefix_lines = len(s.rt.lines)
        if not s.ok or s.dead or getattr(s.rt, "sm", None) is None:
            d.dead = True
            rt.lines.append(f"R {k} skipped")
            return
        enter_rt = switches[w.members[src].fam]
        try:
            enter_rt.cur = rt          # anything that runs during the copy is the clone's business
            sm = s.rt.sm
            # things going on around the original that must not reach its copies: the caller appends to the very
            # list it once passed as `listeners=` (it was never attached to anything); a shallow copy of the
            # original gets a listener of its own
            import zlib
            mode = zlib.crc32(f"{m.scn.name}:{ci}".encode()) % 5
            if mode == 1 and isinstance(getattr(s, "ctor_list", None), list):
                s.ctor_list.append(Spy())
                s.ctor_len = len(s.ctor_list)
            elif mode == 2:
                twin = copy.copy(sm)
                twin.add_listener(Spy())
            # whatever the application keeps on the model travels with the copy
            note = ("note", zlib.crc32(m.scn.name.encode()) % 1000, [ci])
            try:
                sm.model.__dict__["verif_note"] = note
            except Exception:  # noqa: BLE001
                note = None
            if mech == "pickle":
                import pickle
                clone = pickle.loads(pickle.dumps(sm))
            else:
                clone = copy.deepcopy(sm)
            rt.sm = clone
            rt.model = clone.model
            if note is not None and getattr(clone.model, "verif_note", None) != note:
                rt.lines.append(f"X the copy's model lost an attribute the application had set on the original's model: "
                                f"{getattr(clone.model, 'verif_note', None)!r} instead of {note!r}")
            elif note is not None and clone.model.verif_note is note:
                rt.lines.append("X the copy's model shares a mutable attribute value with the original's model")
            rt.next_tid, rt.initial_tid = s.rt.next_tid, s.rt.initial_tid
            if getattr(rt.model, m.scn.state_field, None) is None:
                rt.initial_tid = rt.next_tid
                rt.next_tid += 1
            rt.bound = type("Bound", (), {})()
            clone.bind_events_to(rt.bound)
            ls = getattr(clone, "_listeners", None)
            if isinstance(ls, (dict, list)):
                rt.owner_ids = {id(clone), id(clone.model)} | {id(x) for x in ls} | {
                    id(x.__dict__["_inner"]) for x in ls if "_inner" in getattr(x, "__dict__", {})} | _delegates(ls)
            shared = []
            if clone is sm:
                shared.append("machine")
            if clone.model is sm.model:
                shared.append("model")
            ols = getattr(sm, "_listeners", None)
            if isinstance(ls, (dict, list)) and isinstance(ols, (dict, list)):
                if {id(x) for x in ls} & {id(x) for x in ols} and m.scn.listener_kind != "singleton":
                    shared.append("listener")
                if len(ls) != len(ols):
                    shared.append(f"listeners:{len(ols)}->{len(ls)}")
            for x in shared:
                rt.lines.append(f"X clone shares {x} with the original")
            rt.lines.append(f"R {k} ok None cur={rt.seen()} tid=-")
        except Exception as e:
            rt.lines.append(f"R {k} err {s.rt.exc_s(e)} cur={s.rt.seen()} tid=-")
            d.dead = True
        finally:
            if active:
                mj = active[-1]
                switches[w.members[mj].fam].cur = sessions[mj].rt

    async def main_async():
        for mi in w.order:
            if mi < 0:
                do_clone(-mi - 1)
                continue
            if mi not in members:
                continue
            co = run_next(mi)
            if co is not None:
                try:
                    await co
                finally:
                    leave()

    with warnings.catch_warnings():
        warnings.simplefilter("ignore")
        if w.loop:
            asyncio.run(main_async())
        else:
            for mi in w.order:
                if mi < 0:
                    do_clone(-mi - 1)
                elif mi in members:
                    run_next(mi)
    out = {}
    for mi in members:
        s = session(mi)
        out[mi] = s.rt.lines
    if SPY_LOG:
        for mi in out:
            out[mi] = out[mi] + [f"X a listener that was never attached to this machine (or the one it was copied from) "
                                 f"was invoked: {SPY_LOG[0]}"]
    return out


SPY_LOG = []


class Spy:
    """a listener object that must never be invoked: it is only ever attached to a shallow copy, or merely sits in
    a list the caller owns"""

    def _hit(self, what):
        SPY_LOG.append(what)

    def on_enter_state(self):
        self._hit("on_enter_state")

    def on_exit_state(self):
        self._hit("on_exit_state")

    def before_transition(self):
        self._hit("before_transition")

    def on_transition(self):
        self._hit("on_transition")

    def after_transition(self):
        self._hit("after_transition")


def normalize_world(w: World):
    """A class is shared by its instances: a plain function returning an awaitable stays only if *every*
    instance of the class (and of its subclasses) runs the async engine."""
    def root(fi):
        while w.families[fi].base is not None:
            fi = w.families[fi].base
        return fi
    sync_roots = {root(m.fam) for m in w.members if not m.scn.is_async()}
    for fi, f in enumerate(w.families):
        if root(fi) in sync_roots:
            for c in f.scn.cbs:
                if c.wrap == "lazy":
                    c.wrap = ""
    for m in w.members:
        if root(m.fam) in sync_roots:
            for c in m.scn.cbs:
                if c.wrap == "lazy":
                    c.wrap = ""
    # per-definition consistency (shared functions have one signature, attribute callbacks are not coroutines, ...):
    # the class is built from the family's definition, the model from the member's copy of it
    for f in w.families:
        eng.normalize(f.scn)
    for m in w.members:
        eng.normalize(m.scn)
        fam = {c.id: c for c in w.families[m.fam].scn.cbs}
        for c in m.scn.cbs:
            q = fam.get(c.id)
            if q is not None and (c.same_as or any(x.same_as == c.id for x in m.scn.cbs)):
                c.sig, c.named = q.sig, q.named
    return w


# ----------------------------------------------------------------------------- generation

def _redraw_sigs(rng, scn: eng.Scn, flip_coro=False):
    _redraw(rng, scn, flip_coro)
    prim = {c.id: c for c in scn.cbs}
    for c in scn.cbs:          # a name attached to several groups is one function
        if c.alias_of:
            q = prim[c.alias_of]
            c.sig, c.named, c.coro, c.yields = q.sig, q.named, q.coro, q.yields


def _redraw(rng, scn: eng.Scn, flip_coro=False):
    for c in scn.cbs:
        c.sig = rng.choice(("ed", "named", "kwargs", "bare"))
        c.named = tuple(k for k in ("event", "source", "target", "state") if rng.random() < 0.5) if c.sig == "named" else ()
        if flip_coro and c.group not in ("cond", "unless") and c.style not in ("attr", "evref") and rng.random() < 0.5:
            c.coro = not c.coro
            c.yields = rng.randint(0, 2) if c.coro else 0


def member_variant(rng, P: gen.Profile, fam_scn: eng.Scn, name: str) -> eng.Scn:
    """The family's definition with fresh options, operations and behaviour tables."""
    s = copy.deepcopy(fam_scn)
    s.name = name
    evs = sorted({e for t in s.trans for e in t.events})
    s.allow = rng.random() < P.p_allow
    if s.is_async():
        s.rtc = True
    else:
        s.rtc = not (rng.random() < P.p_rtc_off)
    s.cur0 = rng.choice([st.val for st in s.states]) if rng.random() < P.p_cur0 else None
    s.start = rng.choice([st.val for st in s.states]) if rng.random() < P.p_start else None
    # this instance may be constructed without some of the listeners others use (only listeners nothing depends
    # on: convention callbacks): the engine kind and the callback lists are per instance, not per class
    for L in list(s.listeners_ctor):
        if all(c.style == "conv" for c in s.cbs if c.provider == L) and rng.random() < 0.3:
            s.listeners_ctor.remove(L)
        elif rng.random() < 0.06:
            # this instance is constructed without a listener that provides a callback the class names explicitly: it
            # must be rejected at construction (InvalidDefinition), whatever other instances of the class exist
            s.listeners_ctor.remove(L)
    n = gen.gen_ops(rng, P, s, evs)
    ops = list(s.ops)
    for _ in range(rng.choice([0, 0, 1, 2])):
        ops.insert(rng.randint(1, len(ops)), (rng.choice(["allowed", "events"]),))
    s.ops = ops
    gen.gen_acts(rng, P, s, evs, n)
    fix_attr_rows(s, fam_scn)
    return s


def fix_attr_rows(s: eng.Scn, fam_scn: eng.Scn):
    """plain-attribute callbacks provided by the machine hold the *class's* value (the class is built from the
    family's definition); those of models and listeners are per object"""
    fixed = {c.id for c in s.cbs if c.style == "attr" and c.provider == "machine"}
    if fixed:
        s.acts = [a for a in s.acts if a[0] not in fixed] + [a for a in fam_scn.acts if a[0] in fixed]


def gen_world(rng, P: gen.Profile, name: str) -> World:
    w = World()
    w.loop = rng.random() < 0.3
    same_names = rng.random() < 0.7
    nfam = rng.choice([1, 2, 2, 3])
    for k in range(nfam):
        if k > 0 and rng.random() < 0.4:
            # a twin: same class name, same callback names, other signatures (and def/async def flipped)
            scn = copy.deepcopy(w.families[rng.randrange(k)].scn)
            if w.families[-1].base is not None:
                scn = gen.gen_scenario(rng, P, f"{name}-f{k}")
            else:
                _redraw_sigs(rng, scn, flip_coro=rng.random() < 0.5)
        else:
            scn = gen.gen_scenario(rng, P, f"{name}-f{k}")
        scn.name = f"{name}-f{k}"
        scn.listeners_ctor = sorted({c.provider for c in scn.cbs if c.provider.startswith("L")})
        w.families.append(Family(scn=scn, cls_name="M" if same_names else f"M{k}"))
    # an unrelated class whose *state ids* are spelled like callback attributes of another class's machine
    if rng.random() < 0.25:
        victim = w.families[0].scn
        names = sorted({c.name for c in victim.cbs if c.provider == "machine" and c.style in ("conv", "name", "decorator")
                        and c.name.isidentifier()})
        thief = gen.gen_scenario(rng, P, f"{name}-thief")
        own = {c.name for c in thief.cbs} | {eng.EVENTS[e] for t in thief.trans for e in t.events}
        names = [n for n in names if n not in own]
        if len(names) >= len(thief.states):
            ids = rng.sample(names, len(thief.states))
            for c in thief.cbs:
                if c.style == "conv" and c.at[0] == "s":
                    c.name = c.name.replace(f"_{thief.sid(c.at[1])}", f"_{ids[c.at[1]]}") if c.name.endswith(f"_s{c.at[1]}") else c.name
            thief.sids = ids
            thief.listeners_ctor = sorted({c.provider for c in thief.cbs if c.provider.startswith("L")})
            w.families.append(Family(scn=thief, cls_name="M" if same_names else "Thief"))
            nfam += 1
    # subclasses that add convention callbacks (never a transition out of an inherited state: D7)
    for k in range(nfam):
        if rng.random() < 0.45:
            base = w.families[k]
            scn = copy.deepcopy(base.scn)
            scn.name = f"{name}-s{k}"
            have = {(c.name, c.provider) for c in scn.cbs}
            nid = max([c.id for c in scn.cbs] + [0]) + 1
            evs = sorted({e for t in scn.trans for e in t.events})
            conv = [("before", "before_transition", ("all",)), ("on", "on_transition", ("all",)),
                    ("after", "after_transition", ("all",)), ("enter", "on_enter_state", ("all",)),
                    ("exit", "on_exit_state", ("all",))]
            for e in evs:
                for g in ("before", "on", "after"):
                    conv.append((g, f"{g}_{eng.EVENTS[e]}", ("ev", e)))
            for si in range(len(scn.states)):
                conv.append(("enter", f"on_enter_{scn.sid(si)}", ("s", si)))
                conv.append(("exit", f"on_exit_{scn.sid(si)}", ("s", si)))
            rng.shuffle(conv)
            extra = []
            for g, nm, at in conv[:rng.randint(1, 4)]:
                prov = rng.choice(["machine", "machine", "model"])
                if (nm, prov) in have or nm in scn.sids:      # (an attribute named like a state is the state)
                    continue
                coro = scn.is_async() and rng.random() < 0.4
                sig = rng.choice(("ed", "named", "kwargs", "bare"))
                named = tuple(x for x in ("event", "source", "target", "state") if rng.random() < 0.5) if sig == "named" else ()
                scn.cbs.append(eng.Cb(nid, g, "conv", prov, nm, at, coro=coro, sig=sig, named=named,
                                      yields=rng.randint(0, 2) if coro else 0))
                extra.append(nid)
                nid += 1
            if extra:
                w.families.append(Family(scn=scn, base=k, extra_cbs=extra,
                                         cls_name="M" if same_names and rng.random() < 0.5 else f"Sub{k}"))
    # members
    split = None
    if rng.random() < 0.3:
        # one class, two instances of different *kind*: the only coroutine callbacks live on a listener that one
        # instance is constructed with and the other is not (the engine is chosen per instance)
        for fi, fam in enumerate(w.families):
            if fam.base is not None:
                continue
            Ls = [L for L in fam.scn.listeners_ctor
                  if all(c.style == "conv" for c in fam.scn.cbs if c.provider == L)
                  and any(c.group not in ("cond", "unless") for c in fam.scn.cbs if c.provider == L)]
            if Ls and not any(f.base == fi for f in w.families):
                L = rng.choice(Ls)
                for c in fam.scn.cbs:
                    on_l = c.provider == L and c.group not in ("cond", "unless")
                    c.coro = on_l
                    c.yields = rng.randint(0, 2) if on_l else 0
                    if c.wrap == "lazy":
                        c.wrap = ""
                split = (fi, L)
                break
    for fi, fam in enumerate(w.families):
        k = rng.choice([1, 1, 2]) if fam.base is None else 1
        if split and split[0] == fi:
            k = 2
        for j in range(k):
            ms = member_variant(rng, P, fam.scn, f"{name}-m{len(w.members)}")
            if split and split[0] == fi:
                L = split[1]
                ms.listeners_ctor = [x for x in fam.scn.listeners_ctor if x != L or j == 1]
                ms.rtc = True if ms.is_async() else ms.rtc
                evs = sorted({e for t in ms.trans for e in t.events})
                gen.gen_acts(rng, P, ms, evs, len(ms.ops))
                fix_attr_rows(ms, fam.scn)
            w.members.append(Member(fam=fi, scn=ms))
    # base-first or subclass-first instantiation order is drawn by the merge below
    slots = []
    for mi, m in enumerate(w.members):
        slots += [mi] * len(m.scn.ops)
    rng.shuffle(slots)
    w.order = slots
    # cross-machine nesting: the next operation of a guest member runs inside a host's callback
    sync_members = [mi for mi, m in enumerate(w.members) if not m.scn.is_async()]
    if not w.loop and len(sync_members) >= 2 and rng.random() < 0.5:
        for _ in range(rng.randint(1, 3)):
            host, guest = rng.sample(sync_members, 2)
            acts = [c for c in w.members[host].scn.cbs if c.group not in ("cond", "unless", "validators") and not c.coro
                    and c.style not in ("attr", "evref")]
            if acts:
                c = rng.choice(acts)
                w.cross.append((host, c.id, rng.randint(0, 6), guest))
    return w
