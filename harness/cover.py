"""Line coverage of the library's source by a sample of a check's own inputs (sys.settrace).

Reported in the evidence so that a reader can see which lines of the anchored code the
correspondence actually exercised (generator quality bounds what a differential check sees)."""
from __future__ import annotations

import os
import sys

from common import REPO


def executable_lines(path):
    src = open(path).read()
    code = compile(src, path, "exec")
    lines = set()
    todo = [code]
    while todo:
        c = todo.pop()
        for _, _, ln in c.co_lines():
            if ln is not None:
                lines.add(ln)
        for k in c.co_consts:
            if hasattr(k, "co_lines"):
                todo.append(k)
    # definitions' first lines and docstrings are "executed" at import time only
    return lines


class Tracer:
    """sys.monitoring LINE events, each location disabled after its first hit (cheap)."""

    def __init__(self, files):
        root = os.path.realpath(os.path.join(REPO, "statemachine"))
        self.want = {os.path.join(root, f): f for f in files}
        self.hit = {f: set() for f in files}
        self._names = {}

    def _line(self, code, line):
        fn = code.co_filename
        name = self._names.get(fn)
        if name is None:
            name = self._names[fn] = self.want.get(os.path.realpath(fn), "") if fn.endswith(".py") else ""
        if name:
            self.hit[name].add(line)
        return sys.monitoring.DISABLE

    def __enter__(self):
        mon = sys.monitoring
        self._tool = mon.COVERAGE_ID
        try:
            mon.use_tool_id(self._tool, "verif-cover")
        except ValueError:
            mon.free_tool_id(self._tool)
            mon.use_tool_id(self._tool, "verif-cover")
        mon.register_callback(self._tool, mon.events.LINE, self._line)
        mon.set_events(self._tool, mon.events.LINE)
        mon.restart_events()
        return self

    def __exit__(self, *a):
        mon = sys.monitoring
        mon.set_events(self._tool, 0)
        mon.register_callback(self._tool, mon.events.LINE, None)
        mon.free_tool_id(self._tool)

    def report(self, functions=None):
        """{file: {hit, total, pct, missed: [first 25 missed lines]}} — restricted to lines that belong to
        function bodies executed at call time (lines only run at import are excluded from the total)."""
        out = {}
        root = os.path.realpath(os.path.join(REPO, "statemachine"))
        for f, hit in self.hit.items():
            path = os.path.join(root, f)
            body = body_lines(path)
            total = body
            h = hit & total
            missed = sorted(total - h)
            out[f] = dict(hit=len(h), total=len(total), pct=round(100.0 * len(h) / max(1, len(total)), 1),
                          missed=missed[:25])
        return out


def body_lines(path):
    """lines inside function bodies (what can execute after import)"""
    src = open(path).read()
    code = compile(src, path, "exec")
    lines = set()

    def walk(c, inside):
        if inside:
            first = c.co_firstlineno
            for _, _, ln in c.co_lines():
                if ln is not None and ln != first:
                    lines.add(ln)
        for k in c.co_consts:
            if hasattr(k, "co_lines"):
                # class bodies run at import; functions (and what they contain) at call time
                is_func = bool(k.co_flags & 0x0002) or k.co_name.startswith("<") and k.co_name != "<module>"  # CO_NEWLOCALS
                walk(k, inside or is_func)
    walk(code, False)
    return lines
