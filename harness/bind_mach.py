"""C07 through real machines: callbacks with generated signatures in every attachment form, driven
with `sm.send(event, *args, **kwargs)`; every callback records exactly what it received.

Machine: s0 -go-> s1 -nxt-> s2 -back-> s0. A scenario is a JSON-able dict
  cbs   : [{id, form, at, sig, is_async, name, ...}]      at = ["t", event, group] | ["s", state, "enter"|"exit"]
  sends : [{event, args, kw}]                              kw = [[name, token], ...]
  fwd   : {cb, args, kw} | None     the callback `cb` (attached to `go`, has **kwargs, sync) calls
                                    sm.send("nxt", *args, **its_kwargs, **kw) from inside
Forms: conv (machine method by naming convention), mname (machine method by name), model (model
method by name), lconv (listener method by convention; every listener class is called `L`), func
(plain function, all called `cb`), lambda, partial (functools.partial stored on the model, several
partials of ONE function), deco (decorator in the class body), twin (def / async def made by one
factory), prop (property used as guard).
"""
from __future__ import annotations

import functools
import inspect
import json

from bind_gen import (DFLT, NAME_ID, RESERVED, USER_NAMES, UNKNOWN, canon_frame, canon_model_frame, param_tok,
                      random_sig, sig_text, record_expr, kw_token, arg_tokens)
from bind_spec import event_kwargs, spec_call

EVENTS = {"go": ("s0", "s1"), "nxt": ("s1", "s2"), "back": ("s2", "s0")}
T_GROUPS = ["validators", "cond", "before", "on", "after"]
EARLY = ("validators", "cond", "before", "exit", "on")
ORDER = ["validators", "cond", "before", "exit", "on", "enter", "after"]
CATCH_ALL = (("args", "vp", False), ("kwargs", "vk", False))


# ----------------------------------------------------------------------------- tokens for objects

class Tokens:
    """descriptor string <-> numeric token (ints stand for themselves)"""

    def __init__(self):
        self.ids = {}

    def tok(self, d):
        if isinstance(d, int):
            return d
        if d not in self.ids:
            self.ids[d] = 1000 + len(self.ids)
        return self.ids[d]

    def name(self, t):
        for k, v in self.ids.items():
            if v == t:
                return k
        return t


def describe(v, sm):
    """canonical descriptor of a value a callback received"""
    from statemachine import State
    from statemachine.event import Event
    from statemachine.event_data import EventData
    from statemachine.transition import Transition
    if isinstance(v, bool) or v is None:
        return repr(v)
    if isinstance(v, int):
        return v
    if isinstance(v, EventData):
        return f"ED[{str(v.event)}:{v.source.id}>{v.target.id}]"
    if isinstance(v, Event):
        return f"E[{str(v)}]"
    if isinstance(v, State):
        return f"S[{v.id}]"
    if isinstance(v, Transition):
        return f"T[{v.source.id}>{v.target.id}]"
    if v is sm:
        return "M"
    if sm is not None and v is sm.model:
        return "MODEL"
    return f"?{type(v).__name__}"


def expected_builtins(event, phase):
    src, tgt = EVENTS[event]
    return {
        "event_data": f"ED[{event}:{src}>{tgt}]", "machine": "M", "event": f"E[{event}]", "model": "MODEL",
        "transition": f"T[{src}>{tgt}]", "state": f"S[{src if phase in EARLY else tgt}]",
        "source": f"S[{src}]", "target": f"S[{tgt}]",
    }


# ----------------------------------------------------------------------------- generation

CONV_T = {"before": "before_{e}", "on": "on_{e}", "after": "after_{e}"}


def _phase(cb):
    return cb["at"][2]


def _event_of(cb):
    """events on which the callback runs"""
    a = cb["at"]
    if a[0] == "t":
        return [a[1]]
    return [e for e, (s, t) in EVENTS.items() if (a[2] == "exit" and s == a[1]) or (a[2] == "enter" and t == a[1])]


def gen_scenario(rng, name, p_async=0.25, p_fwd=0.3, p_typeerror=0.08):
    cbs = []
    used_names = set()
    allow_async = rng.random() < p_async
    want_fwd = (not allow_async) and rng.random() < p_fwd
    n = rng.randint(2, 7)
    forms = ["conv", "mname", "model", "lconv", "func", "lambda", "partial", "deco", "twin", "prop"]
    weights = [3, 2, 2, 3, 3, 2, 3, 2, 1 if allow_async else 0, 1]
    partial_base = None
    i = 0
    while len(cbs) < n and i < 40:
        i += 1
        form = rng.choices(forms, weights)[0]
        if rng.random() < 0.7:
            ev = rng.choice(list(EVENTS))
            group = rng.choice(T_GROUPS)
            at = ["t", ev, group]
        else:
            kind = rng.choice(["enter", "exit"])
            st = rng.choice(["s1", "s2"] if kind == "enter" else ["s0", "s1", "s2"])
            at = ["s", st, kind]
        cid = len(cbs)
        sig = random_sig(rng, max_params=5, p_reserved=0.3)
        cb = dict(id=cid, form=form, at=at, sig=[list(p) for p in sig], is_async=False, name=f"c{cid}")
        if form in ("conv", "lconv"):
            if at[0] == "t":
                if at[2] not in CONV_T:
                    continue
                nm = CONV_T[at[2]].format(e=at[1])
            else:
                nm = f"on_{at[2]}_{at[1]}"
            if form == "conv":
                if nm in used_names:
                    continue
                used_names.add(nm)
            cb["name"] = nm
        if form == "prop":
            if at[0] != "t":
                continue
            at[2] = "cond"
            cb["sig"] = []
            cb["name"] = f"pr{cid}"
        if form == "partial":
            if partial_base is not None and rng.random() < 0.6:
                cb["sig"] = [list(p) for p in partial_base]
            else:
                partial_base = tuple(tuple(p) for p in cb["sig"])
            kos = [p for p in cb["sig"] if p[1] == "ko"]
            cb["bind_kw"] = kos[0][0] if kos and rng.random() < 0.5 else None
            cb["name"] = f"pp{cid}"
        if form in ("conv", "mname", "model", "lconv", "func", "deco") and allow_async and rng.random() < 0.4:
            cb["is_async"] = True
        if form in ("conv", "mname", "model", "lconv", "func") and rng.random() < 0.2:
            # behind a signature-preserving decorator (functools.wraps); "sig": one that also sets `__signature__`
            # to the signature of what it wraps (for a method that signature lists the instance: D43)
            cb["wrapped"] = rng.choice([True, "sig"])
        if form == "deco" and rng.random() < 0.35:
            cb["static"] = rng.choice(["static", "class"])
        if form == "twin":
            cb["is_async"] = True
            cbs.append(cb)
            cid2 = len(cbs)
            sig2 = random_sig(rng, max_params=5, p_reserved=0.3)
            ev2 = rng.choice(list(EVENTS))
            cbs.append(dict(id=cid2, form="twin", at=["t", ev2, rng.choice(T_GROUPS)], sig=[list(p) for p in sig2],
                            is_async=False, name=f"c{cid2}", twin_of=cid))
            continue
        cbs.append(cb)
    # the forwarding callback: on `go`, has **kwargs, plain function
    fwd = None
    if want_fwd:
        cid = len(cbs)
        sig = random_sig(rng, max_params=3, p_reserved=0.3)
        sig = [list(p) for p in sig if p[1] != "vk"]
        vkn = [n for n in ("kwargs", "kw", "rest", "n4") if all(p[0] != n for p in sig)][0]
        sig.append([vkn, "vk", False])
        cbs.append(dict(id=cid, form="func", at=["t", "go", rng.choice(["before", "on", "after"])], sig=sig,
                        is_async=False, name=f"c{cid}"))
        fwd = dict(cb=cid, args=list(arg_tokens(rng.randint(0, 2))), kw=[])
    # sends: go, (nxt unless forwarded), back, maybe a second round
    sends = []
    plan = ["go"] + ([] if fwd else ["nxt"]) + ["back"]
    if rng.random() < 0.3 and not fwd:
        plan += ["go", "nxt"]
    pool = sorted({p[0] for cb in cbs for p in cb["sig"]})
    for ev in plan:
        na = rng.randint(0, 4)
        cand = list(dict.fromkeys(pool + UNKNOWN[:2] + RESERVED))
        rng.shuffle(cand)
        k = rng.randint(0, min(5, len(cand)))
        kw = [[nm, 500 + NAME_ID[nm] if nm in RESERVED else kw_token(nm)] for nm in cand[:k]]
        # `sm.send(event, …)` cannot take a keyword called `event` (Python itself rejects it): use the event method
        style = "method" if any(k == "event" for k, _ in kw) or rng.random() < 0.4 else "send"
        sends.append(dict(event=ev, args=list(arg_tokens(na)), kw=kw, style=style))
    if fwd:
        nm = rng.choice(UNKNOWN)
        fwd["kw"] = [[nm, 600 + NAME_ID[nm]]] if all(nm != k for k, _ in sends[0]["kw"]) and rng.random() < 0.5 else []
    scn = dict(name=name, cbs=cbs, sends=sends, fwd=fwd, expect_typeerror=None)
    _repair(rng, scn, allow_typeerror=rng.random() < p_typeerror)
    return scn


def calls_of(scn):
    """[(send index | 'child', event, args, user kw)] in processing order, the forwarded child included"""
    out = []
    for i, s in enumerate(scn["sends"]):
        out.append((i, s["event"], tuple(s["args"]), tuple(tuple(x) for x in s["kw"])))
        if scn["fwd"] and i == 0:
            out.append(("child", "nxt", tuple(scn["fwd"]["args"]), None))
    return out


def _offered(event, phase, user_kw):
    return event_kwargs(user_kw, expected_builtins(event, phase))


def _sig(cb):
    return tuple(tuple(p) for p in cb["sig"])


def effective_sig(cb):
    """the signature `inspect.signature` reports for the callable (partials: bound keyword gets a default)"""
    sig = _sig(cb)
    if cb["form"] == "partial" and cb.get("bind_kw"):
        sig = tuple((n, k, True if n == cb["bind_kw"] else d) for n, k, d in sig)
    return sig


def expected_run(scn, spec=spec_call):
    """[(call tag, event, [(cb id, phase, offered kwargs, expected outcome, corner)])]; the child event's
    user keywords come from the expected frame of the forwarding callback"""
    out = []
    child_kw = None
    for tag, ev, args, ukw in calls_of(scn):
        if tag == "child":
            ukw = tuple(child_kw or ()) + tuple(tuple(x) for x in scn["fwd"]["kw"])
        rows = []
        for ph in ORDER:
            for cb in scn["cbs"]:
                if _phase(cb) == ph and ev in _event_of(cb):
                    off = _offered(ev, ph, ukw)
                    outc, corner = spec(effective_sig(cb), args, off)
                    rows.append((cb["id"], ph, off, outc, corner))
                    if scn["fwd"] and cb["id"] == scn["fwd"]["cb"] and tag == 0:
                        child_kw = _vk_of(effective_sig(cb), args, off)
        out.append((tag, ev, args, ukw, rows))
    return out


def _vk_of(sig, args, off):
    consumed = {n for n, k, _ in sig if k in ("pk", "ko")}
    return tuple((k, v) for k, v in off if k not in consumed)


def _repair(rng, scn, allow_typeerror):
    """make every callback's Spec outcome a plain success (no corner, no legitimate TypeError) by
    re-drawing offending signatures; optionally leave exactly one legitimate TypeError in"""
    for _ in range(60):
        bad = []
        for tag, ev, args, ukw, rows in expected_run(scn):
            for cid, ph, off, outc, corner in rows:
                if outc == "TypeError" or corner:
                    bad.append(cid)
        if not bad:
            return
        if allow_typeerror and len(set(bad)) == 1:
            # one callback with a legitimate missing argument, not in a corner
            cid = bad[0]
            ok = all(not corner for _, _, _, _, rows in expected_run(scn) for c, _, _, _, corner in rows)
            cb = scn["cbs"][cid]
            if ok and cb["form"] not in ("prop",) and not (scn["fwd"] and scn["fwd"]["cb"] == cid):
                scn["expect_typeerror"] = cid
                return
        for cid in set(bad):
            cb = scn["cbs"][cid]
            if scn["fwd"] and scn["fwd"]["cb"] == cid:
                cb["sig"] = [["kwargs", "vk", False]]
            elif rng.random() < 0.8:
                cb["sig"] = [list(p) for p in random_sig(rng, max_params=4, p_reserved=0.3)]
                if cb["form"] == "partial":
                    kos = [p for p in cb["sig"] if p[1] == "ko"]
                    cb["bind_kw"] = kos[0][0] if kos and rng.random() < 0.5 else None
            else:
                cb["sig"] = [list(p) for p in CATCH_ALL]
                cb["bind_kw"] = None
    for cb in scn["cbs"]:
        if cb["form"] != "prop":
            cb["sig"] = [list(p) for p in CATCH_ALL]
            cb["bind_kw"] = None


# ----------------------------------------------------------------------------- building the real machine

class Recorder:
    def __init__(self, scn, tokens):
        self.scn = scn
        self.tokens = tokens
        self.sm = None
        self.log = []       # (cb id, canonical frame)
        self.tk = []        # trigger_data.kwargs seen by callbacks that received event_data
        self.fwd_done = False

    def rec(self, cid, rec):
        sm = self.sm
        sc = lambda v: self.tokens.tok(describe(v, sm))  # noqa: E731
        self.log.append((cid, canon_frame(rec, sc)))
        for _, v in rec:
            self._probe(v)
        f = self.scn["fwd"]
        if f and f["cb"] == cid and not self.fwd_done:
            self.fwd_done = True
            kwargs = [v for (n, v), p in zip(rec, self.scn["cbs"][cid]["sig"]) if p[1] == "vk"][0]
            allkw = {**kwargs, **dict((k, v) for k, v in f["kw"])}
            if "event" in allkw:
                sm.nxt(*f["args"], **allkw)
            else:
                sm.send("nxt", *f["args"], **allkw)
        return True

    def _probe(self, v):
        from statemachine.event_data import EventData
        if isinstance(v, EventData):
            self.tk.append((str(v.event), tuple(v.trigger_data.kwargs.keys())))
        elif isinstance(v, dict):
            for x in v.values():
                self._probe(x)


def _def(cb, first=None, indent="", name=None, body_id=None, deco=None):
    sig = _sig(cb)
    nm = name or cb["name"]
    cid = cb["id"] if body_id is None else body_id
    head = f"{indent}{'async ' if cb['is_async'] else ''}def {nm}({sig_text(sig, first=first)}):\n"
    body = f"{indent}    return REC({cid}, {record_expr(sig)})\n"
    wrap = f"{indent}@{'S' if cb.get('wrapped') == 'sig' else ''}{'AWRAP' if cb['is_async'] else 'WRAP'}\n" \
        if cb.get("wrapped") else ""
    return (f"{indent}{deco}\n" if deco else "") + wrap + head + body


def render(scn):
    """python source of the machine, model, listeners and free callables"""
    cbs = scn["cbs"]
    pre, cls, model, post = [], [], [], []
    lists = {}

    def attach(cb, ref):
        lists.setdefault(tuple(cb["at"]), []).append(ref)

    listeners = []
    partial_fns = {}
    twins_done = set()
    for cb in cbs:
        f = cb["form"]
        if f == "conv":
            cls.append(_def(cb, first="self", indent="    "))
        elif f == "mname":
            cls.append(_def(cb, first="self", indent="    "))
            attach(cb, repr(cb["name"]))
        elif f == "model":
            model.append(_def(cb, first="self", indent="    "))
            attach(cb, repr(cb["name"]))
        elif f == "lconv":
            pre.append("class L:\n" + _def(cb, first="self", indent="    ") + f"L{cb['id']} = L\n")
            listeners.append(f"L{cb['id']}()")
        elif f == "func":
            pre.append(_def(cb, name="cb") + f"F{cb['id']} = cb\n")
            attach(cb, f"F{cb['id']}")
        elif f == "lambda":
            sig = _sig(cb)
            pre.append(f"F{cb['id']} = lambda {sig_text(sig)}: REC({cb['id']}, {record_expr(sig)})\n")
            attach(cb, f"F{cb['id']}")
        elif f == "partial":
            base = _sig(cb)
            if base not in partial_fns:
                g = f"G{len(partial_fns)}"
                partial_fns[base] = g
                full = (("z_", "pk", False),) + base
                pre.append(f"def g({sig_text(full)}):\n    return REC(z_ - 7000, {record_expr(base)})\n{g} = g\n")
            g = partial_fns[base]
            kwb = f", {cb['bind_kw']}=_D" if cb.get("bind_kw") else ""
            post.append(f"MODEL.{cb['name']} = functools.partial({g}, {7000 + cb['id']}{kwb})\n")
            attach(cb, repr(cb["name"]))
        elif f == "deco":
            a = cb["at"]
            deco = f"@{a[1]}.{a[2]}"
            # the decorated function may in addition be a static or a class method (the event decorator innermost)
            kind = cb.get("static")
            if kind:
                deco = f"@{kind}method\n    {deco}"
            cls.append(("DECO", _def(cb, first={"static": None, "class": "cls"}.get(kind, "self"), indent="    ", deco=deco)))
        elif f == "twin":
            if cb["id"] in twins_done:
                continue
            other = next(c for c in cbs if c.get("twin_of") == cb["id"])
            twins_done.update((cb["id"], other["id"]))
            src = "def factory(is_async):\n    if is_async:\n" + _def(cb, indent="        ", name="cb") + \
                  "    else:\n" + _def(other, indent="        ", name="cb") + "    return cb\n"
            pre.append(src + f"F{cb['id']} = factory(True)\nF{other['id']} = factory(False)\n")
            attach(cb, f"F{cb['id']}")
            attach(other, f"F{other['id']}")
        elif f == "prop":
            model.append(f"    @property\n    def {cb['name']}(self):\n        return REC({cb['id']}, ())\n")
            attach(cb, repr(cb["name"]))

    def lst(key):
        return "[" + ", ".join(lists.get(key, [])) + "]"

    body = []
    for st in ("s0", "s1", "s2"):
        kws = []
        if st == "s0":
            kws.append("initial=True")
        for g in ("enter", "exit"):
            if ("s", st, g) in lists:
                kws.append(f"{g}={lst(('s', st, g))}")
        body.append(f"    {st} = State({', '.join(kws)})\n")
    for ev, (s, t) in EVENTS.items():
        kws = [f"{g}={lst(('t', ev, g))}" for g in T_GROUPS if ("t", ev, g) in lists]
        body.append(f"    {ev} = {s}.to({', '.join([t] + kws)})\n")
    plain = [c for c in cls if not isinstance(c, tuple)]
    decos = [c[1] for c in cls if isinstance(c, tuple)]
    src = "".join(pre)
    src += "class Mdl:\n    state = None\n" + "".join(model) + "\n"
    src += "class M(StateMachine):\n" + "".join(body) + "".join(plain) + "".join(decos) + "\n"
    src += "MODEL = Mdl()\n" + "".join(post)
    src += f"LISTENERS = [{', '.join(listeners)}]\n"
    return src


def run_impl(scn):
    """-> dict(frames={cb id: [canonical frames in call order]}, errors=[per send None|'TypeError'|other],
    tk=[...], tokens, src)"""
    from statemachine import State, StateMachine
    tokens = Tokens()
    rec = Recorder(scn, tokens)
    src = render(scn)
    def WRAP(f):
        @functools.wraps(f)
        def wrapper(*a, **k):
            return f(*a, **k)
        return wrapper

    def AWRAP(f):
        @functools.wraps(f)
        async def wrapper(*a, **k):
            return await f(*a, **k)
        return wrapper

    def SWRAP(f):
        w = WRAP(f)
        w.__signature__ = inspect.signature(f)
        return w

    def SAWRAP(f):
        w = AWRAP(f)
        w.__signature__ = inspect.signature(f)
        return w

    ns = {"StateMachine": StateMachine, "State": State, "REC": rec.rec, "_D": DFLT, "functools": functools,
          "WRAP": WRAP, "AWRAP": AWRAP, "SWRAP": SWRAP, "SAWRAP": SAWRAP}
    exec(src, ns)  # noqa: S102
    sm = ns["M"](ns["MODEL"], listeners=ns["LISTENERS"])
    rec.sm = sm
    # a property used as guard is read once when the machine resolves it; nothing else runs before the first send
    del rec.log[:]
    del rec.tk[:]
    errors = []
    for s in scn["sends"]:
        try:
            if s.get("style") == "method":
                getattr(sm, s["event"])(*s["args"], **{k: v for k, v in s["kw"]})
            else:
                sm.send(s["event"], *s["args"], **{k: v for k, v in s["kw"]})
            errors.append(None)
        except TypeError:
            errors.append("TypeError")
            break
        except Exception as e:  # noqa: BLE001
            errors.append(f"{type(e).__name__}: {e}")
            break
    frames = {}
    for cid, fr in rec.log:
        frames.setdefault(cid, []).append(fr)
    return dict(frames=frames, errors=errors, tk=rec.tk, tokens=tokens, src=src, state=_state(sm))


def _state(sm):
    try:
        return sm.current_state.id
    except Exception:  # noqa: BLE001
        return None


# ----------------------------------------------------------------------------- expected / model

def spec_tok(tokens):
    """`spec_call` over offered kwargs whose values are descriptors: map them to tokens first"""
    def f(sig, args, off):
        off2 = tuple((k, tokens.tok(v)) for k, v in off)
        return spec_call(sig, args, off2)
    return f


def expected_frames(scn, tokens):
    """{cb id: [expected canonical outcome …]}, [(tag, event, rows)], flat order"""
    run = expected_run(scn, spec=spec_tok(tokens))
    frames = {}
    for tag, ev, args, ukw, rows in run:
        for cid, ph, off, outc, corner in rows:
            frames.setdefault(cid, []).append(outc)
    return frames, run


def model_lines(scn, tokens):
    """`event` scenarios for drv_bind: one per top-level send (the forwarded child rides on the first)"""
    out = []
    cbs = scn["cbs"]
    qual = {}
    for i, s in enumerate(scn["sends"]):
        lines = [f"scn event {scn['name']}#{i}", "fixed 1", "args " + " ".join(map(str, s["args"])),
                 "kw " + " ".join(f"{NAME_ID[k]}={v}" for k, v in s["kw"])]
        lines += _event_cbs(scn, s["event"], tokens, qual)
        if scn["fwd"] and i == 0:
            f = scn["fwd"]
            lines += [f"fwd {f['cb']}", "child", "args " + " ".join(map(str, f["args"])),
                      "kw " + " ".join(f"{NAME_ID[k]}={v}" for k, v in f["kw"])]
            lines += _event_cbs(scn, "nxt", tokens, qual)
        lines.append("end")
        out += lines
    return out


def _event_cbs(scn, ev, tokens, qual):
    lines = []
    for ph in ORDER:
        b = expected_builtins(ev, ph)
        bl = "b " + " ".join(f"{NAME_ID[r]}={tokens.tok(b[r])}" for r in RESERVED)
        for cb in scn["cbs"]:
            if _phase(cb) == ph and ev in _event_of(cb):
                q = qual.setdefault(_qualname(cb), len(qual))
                lines += [bl, f"cb {cb['id']} {cb['id']} {q} " + " ".join(param_tok(p) for p in effective_sig(cb))]
    return lines


def _qualname(cb):
    f = cb["form"]
    if f in ("func",):
        return "cb"
    if f == "lambda":
        return "<lambda>"
    if f == "twin":
        return "factory.<locals>.cb"
    if f == "lconv":
        return "L." + cb["name"]
    if f == "partial":
        return "g"
    return cb["name"]


def model_frames(scn, mod):
    """driver output -> {cb id: [canonical frames]} in the same order as `expected_frames`"""
    frames = {}
    tks = []
    for i, _ in enumerate(scn["sends"]):
        for l in mod.get(f"{scn['name']}#{i}", ["<no model output>"]):
            p = l.split(" ", 2)
            if p[0] in ("cb", "child"):
                frames.setdefault(int(p[1]), []).append(canon_model_frame(p[2] if len(p) > 2 else ""))
            elif p[0] in ("tk", "tk2"):
                tks.append(l)
    return frames, tks


def drop_cb(scn, k):
    """the scenario without callback k (ids re-numbered); None if k cannot be dropped"""
    if scn["fwd"] and scn["fwd"]["cb"] == k:
        return None
    c = json.loads(json.dumps(scn))
    cb = c["cbs"][k]
    if cb["form"] == "twin":
        # keep the other twin as an ordinary function / coroutine function
        for o in c["cbs"]:
            if o.get("twin_of") == k or cb.get("twin_of") == o["id"]:
                if o["form"] == "twin":
                    o["form"] = "func"
                    o.pop("twin_of", None)
    del c["cbs"][k]
    remap = {}
    for new, o in enumerate(c["cbs"]):
        remap[o["id"]] = new
    for o in c["cbs"]:
        o["id"] = remap[o["id"]]
        if "twin_of" in o:
            if o["twin_of"] in remap:
                o["twin_of"] = remap[o["twin_of"]]
            else:
                o.pop("twin_of")
                o["form"] = "func"
        if o["form"] in ("mname", "model", "func", "lambda", "deco", "twin"):
            o["name"] = f"c{o['id']}"
        elif o["form"] == "partial":
            o["name"] = f"pp{o['id']}"
        elif o["form"] == "prop":
            o["name"] = f"pr{o['id']}"
    if c["fwd"]:
        c["fwd"]["cb"] = remap[c["fwd"]["cb"]]
    te = c.get("expect_typeerror")
    if te is not None:
        if te == k:
            return None
        c["expect_typeerror"] = remap[te]
    return c


def check_consistent(scn):
    """the scenario must still be one whose callbacks can all be bound (or exactly the expected one cannot)"""
    te = scn.get("expect_typeerror")
    for tag, ev, args, ukw, rows in expected_run(scn):
        for cid, ph, off, outc, corner in rows:
            if corner:
                raise ValueError("corner")
            if outc == "TypeError" and cid != te:
                raise ValueError("unexpected legit TypeError")


def scn_json(scn):
    return json.dumps(scn, sort_keys=True)
