"""C08: run one guard scenario on the REAL library (public API only), on CPython's own evaluator
(the Spec oracle) and prepare the Lean driver's input; compare the three.

Observed on the implementation: exception (or not) at `StateMachine()` construction; per event
whether `sm.send("go")` fired, and the order in which provider attributes were read (every
property / method / coroutine / callable logs; plain attributes of model and listeners log through
`__getattribute__`; plain attributes of the machine itself cannot log and are projected away).
"""
from __future__ import annotations

import ast
import warnings

import expr_gen as G

LOG: list = []


class Prov:
    """base of generated model / listener classes: logs reads of tracked plain attributes"""

    def __getattribute__(self, name):
        d = object.__getattribute__(self, "__dict__")
        tr = d.get("_tracked")
        if tr is not None and name in tr and d.get("_logging"):
            LOG.append(tr[name])
        return object.__getattribute__(self, name)


def _mk_prop(name, slot):
    def fget(self):
        LOG.append(slot)
        return self.__dict__.get("_v_" + name)
    fget.__name__ = name
    return property(fget)


def _mk_method(name, slot):
    def meth(self):
        LOG.append(slot)
        return self.__dict__.get("_v_" + name)
    meth.__name__ = name
    return meth


_CLS_VALUES = {}      # (class-level) values of classmethod / staticmethod guards, keyed by slot


def _mk_classmethod(name, slot):
    def meth(cls):
        LOG.append(slot)
        return _CLS_VALUES.get(slot)
    meth.__name__ = name
    return classmethod(meth)


def _mk_staticmethod(name, slot):
    def meth():
        LOG.append(slot)
        return _CLS_VALUES.get(slot)
    meth.__name__ = name
    return staticmethod(meth)


class _Toggle:
    """callable guard object whose own truthiness is False"""

    def __init__(self, fn, name):
        self._fn = fn
        self.__name__ = name

    def __call__(self):
        return self._fn()

    def __bool__(self):
        return False


def _mk_coro(name, slot):
    async def meth(self):
        LOG.append(slot)
        return self.__dict__.get("_v_" + name)
    meth.__name__ = name
    return meth


class Layout:
    """numbering of names and slots shared by the three sides"""

    def __init__(self, scn):
        self.names = list(scn["names"])
        self.name_id = {n: i for i, n in enumerate(self.names)}
        self.slots = []          # (provider, name, kind)
        self.slot_id = {}
        self.prov = {}           # name -> [slot id]
        for n, ps in scn["names"].items():
            self.prov[n] = []
            for p, kind in ps:
                sid = len(self.slots)
                self.slots.append((p, n, kind))
                self.slot_id[f"{p}.{n}"] = sid
                self.prov[n].append(sid)
        # attachment passes: listeners named in `late` are attached with add_listener after construction (one call
        # per inner list); `prov` keeps the constructor's providers only, `prov_pass[k]` those of late pass k
        self.late = [list(ps) for ps in scn.get("late", [])]
        self.ctor_also = set(scn.get("ctor_also", []))       # … and was a constructor listener as well
        late_set = {p for ps in self.late for p in ps} - self.ctor_also
        self.prov_all = {n: list(v) for n, v in self.prov.items()}
        self.prov = {n: [sid for sid in v if self.slots[sid][0] not in late_set] for n, v in self.prov_all.items()}
        # (inside a pass the providers come in the order they were given to `add_listener`)
        self.prov_pass = [{n: sorted((sid for sid in v if self.slots[sid][0] in ps), key=lambda sid, ps=ps: ps.index(self.slots[sid][0]))
                           for n, v in self.prov_all.items()}
                          for ps in self.late]
        # slots whose reads the implementation cannot report
        self.silent = {i for i, (p, n, k) in enumerate(self.slots) if p == "machine" and k == "attr"}

    def nid(self, name):
        if name not in self.name_id:
            self.name_id[name] = len(self.names)
            self.names.append(name)
            self.prov[name] = []
            self.prov_all[name] = []
            for d in self.prov_pass:
                d[name] = []
        return self.name_id[name]


# ----------------------------------------------------------------------------- the real library


def build_machine(scn, lay):
    from statemachine import State, StateMachine

    ns = {}
    holders = {"model": {}, "L0": {}, "L1": {}}
    free = {}
    values = {}      # slot id -> setter(value)
    for sid, (p, n, kind) in enumerate(lay.slots):
        if p == "free":
            box = {}

            def f(_box=box, _sid=sid):
                LOG.append(_sid)
                return _box["v"]
            # distinct callables may share a __name__ (lambdas, closures of one factory)
            f.__name__ = "check" if scn.get("same_free_names") else n
            if scn.get("falsy_callables"):
                # a callable *object* that is itself falsy (a feature toggle with __bool__): it is still a guard
                f = _Toggle(f, f.__name__)
            free[n] = f
            values[sid] = ("box", box, None)
            continue
        target = ns if p == "machine" else holders[p]
        if kind == "attr":
            target[n] = None
            values[sid] = ("attr", p, n)
        else:
            mk = {"prop": _mk_prop, "method": _mk_method, "coro": _mk_coro, "classmethod": _mk_classmethod,
                  "staticmethod": _mk_staticmethod}[kind]
            target[n] = mk(n, sid)
            values[sid] = ("cls", sid, n) if kind in ("classmethod", "staticmethod") else ("v", p, n)
    objs = {}
    for p, attrs in holders.items():
        cattrs = {k: v for k, v in attrs.items() if v is not None}
        if scn.get("falsy_providers"):
            if p == "L1":
                cattrs["__bool__"] = lambda self: False
            else:
                cattrs["__len__"] = lambda self: 0
        cls = type("P_" + p, (Prov,), cattrs)
        o = cls()
        for k, v in attrs.items():
            if v is None:
                o.__dict__[k] = None
        o.__dict__["_tracked"] = {n: sid for sid, (pp, n, kind) in enumerate(lay.slots) if pp == p and kind == "attr"}
        o.__dict__["_logging"] = False
        objs[p] = o
    a = State("a", initial=True)
    b = State("b")
    conds, unlesses = [], []
    for en in scn["entries"]:
        if en["kind"] == "expr":
            ref = en["text"]
        else:
            n = en["name"]
            p = scn["names"][n][0][0]
            if en["kind"] == "callable":
                ref = free[n]
            elif p == "machine":
                ref = ns[n]                       # the property object / the plain function
            else:
                ref = getattr(type(objs[p]), n)   # property object / function of the model class
        (conds if en["group"] == "cond" else unlesses).append(ref)
    for en in scn["entries"]:
        if en.get("decoy") and en["name"] not in ns:
            def _decoy(self, _n=en["name"]):
                raise AssertionError(f"the machine's unrelated property `{_n}` was read instead of the declared guard")
            ns[en["name"]] = property(_decoy)
    ns["a"], ns["b"] = a, b
    def arg(lst):      # a single entry may be given without a list
        if not lst:
            return None
        return lst[0] if len(lst) == 1 and scn.get("falsy_callables") else lst
    deco_ok = scn.get("event_deco") and scn["entries"] and all(
        en["kind"] in ("callable", "method") and (en["kind"] == "callable" or scn["names"][en["name"]][0][0] == "machine")
        for en in scn["entries"])
    if deco_ok:
        # the guards are attached with the decorators of an explicit `Event` object: `@go.cond` / `@go.unless`
        from statemachine import Event
        ev = Event(a.to(b), name="go")
        for en in scn["entries"]:
            fn = free[en["name"]] if en["kind"] == "callable" else ns[en["name"]]
            r = getattr(ev, en["group"])(fn)
            if en["kind"] == "method":
                ns[en["name"]] = r
        ns["go"] = ev
    elif scn.get("via_any"):
        ns["go"] = b.from_.any(cond=arg(conds), unless=arg(unlesses))
    else:
        ns["go"] = a.to(b, cond=arg(conds), unless=arg(unlesses))
    ns["back"] = b.to(a)
    if scn.get("force_async"):
        async def on_enter_b(self):
            return None
        ns["on_enter_b"] = on_enter_b
    cls = type(StateMachine)("M", (StateMachine,), ns)
    late_set = {p for ps in lay.late for p in ps} - lay.ctor_also
    listeners = [objs[p] for p in ("L0", "L1") if p not in late_set]
    sm = cls(objs["model"], listeners=listeners)
    for ps in lay.late:
        sm.add_listener(*[objs[p] for p in ps])
    objs["machine"] = sm
    return sm, objs, values


def set_values(lay, objs, values, rho):
    for sid, (p, n, kind) in enumerate(lay.slots):
        v = G.pyval(rho[f"{p}.{n}"])
        how = values[sid]
        if how[0] == "box":
            how[1]["v"] = v
        elif how[0] == "cls":
            _CLS_VALUES[sid] = v
        elif how[0] == "attr":
            if p == "machine":
                setattr(objs[p], n, v)
            else:
                objs[p].__dict__[n] = v
        else:
            objs[p].__dict__["_v_" + n] = v


def run_impl(scn, lay):
    """-> dict(construct=..., rounds=[(outcome, [slot ids])])"""
    from statemachine.exceptions import InvalidDefinition, TransitionNotAllowed

    LOG.clear()
    with warnings.catch_warnings(record=True) as wlist:
        warnings.simplefilter("always")
        try:
            sm, objs, values = build_machine(scn, lay)
        except InvalidDefinition:
            return dict(construct="InvalidDefinition", rounds=[], warnings=[])
        except Exception as e:  # noqa: BLE001
            return dict(construct="Other:" + type(e).__name__, rounds=[], warnings=[])
        rounds = []
        for rho in scn["rounds"]:
            set_values(lay, objs, values, rho)
            for p in ("model", "L0", "L1"):
                objs[p].__dict__["_logging"] = True
            LOG.clear()
            try:
                sm.send("go")
                out = "fired" if sm.current_state.id == "b" else "lost"
            except TransitionNotAllowed:
                out = "notfired"
            except InvalidDefinition:
                out = "raised:InvalidDefinition"
            except Exception as e:  # noqa: BLE001
                out = "raised:" + type(e).__name__
            reads = [s for s in LOG if s not in lay.silent]
            for p in ("model", "L0", "L1"):
                objs[p].__dict__["_logging"] = False
            try:
                if sm.current_state.id == "b":
                    sm.send("back")
            except Exception as e:  # noqa: BLE001
                out += "+broken:" + type(e).__name__
            rounds.append((out, reads))
        # a second instance of the same class over the default model and without listeners: names that only
        # the first instance's model / listeners provided are unknown *for this instance* and must be rejected
        # when it is instantiated, again
        second = None
        if all(en["kind"] == "expr" for en in scn["entries"]) and not scn.get("malformed"):
            try:
                type(sm)()
                second = "ok"
            except InvalidDefinition:
                second = "InvalidDefinition"
            except Exception as e:  # noqa: BLE001
                second = "Other:" + type(e).__name__
    return dict(construct="ok", rounds=rounds, second=second,
                warnings=[str(w.message)[:80] for w in wlist if "never awaited" in str(w.message)])


def second_instance_expectation(scn):
    """Spec for the second instantiation: rejected iff some name used in a guard expression has no provider
    left (only the machine itself remains)"""
    import ast
    used = set()
    for en in scn["entries"]:
        if en["kind"] != "expr":
            return None
        try:
            used |= set(G.names_of(ast.parse(en["canon"], mode="eval")))
        except SyntaxError:
            return None
    for n in used:
        provs = [p for p, _ in scn["names"].get(n, [])]
        if "machine" not in provs:
            return "InvalidDefinition"
    return "ok"


# ----------------------------------------------------------------------------- CPython as the Spec


class _Namespace(dict):
    """locals mapping for `eval`: a name is worth `s1 and s2 and … and sk` over its providers"""

    def __init__(self, lay, rho, log, prov=None):
        super().__init__()
        self.lay, self.rho, self.log = lay, rho, log
        self.prov = lay.prov if prov is None else prov

    def __getitem__(self, name):
        slots = self.prov.get(name)
        if not slots:
            raise KeyError(name)
        v = None
        for sid in slots:
            if sid not in self.lay.silent:
                self.log.append(sid)
            p, n, _ = self.lay.slots[sid]
            v = G.pyval(self.rho[f"{p}.{n}"])
            if not v:
                break
        return v


def spec_expectation(scn, lay):
    """What the English statement demands, computed with CPython only.
    -> dict(construct= "ok" | "InvalidDefinition" | "reject-any", rounds=[(outcome, reads)])"""
    verdict = "ok"
    codes = []
    for en in scn["entries"]:
        if en["kind"] != "expr":
            n = en["name"]
            if not lay.prov.get(n):
                verdict = "InvalidDefinition" if verdict == "ok" else verdict
            codes.append((compile(n, "<guard>", "eval"), en["group"] == "cond", None))
            continue
        cls, node = G.classify(en["canon"])
        if cls == "unparsable":
            if verdict == "ok":
                verdict = "InvalidDefinition"
        elif cls == "unsupported":
            verdict = "reject-any"
        else:
            if any(not lay.prov.get(n) for n in G.names_of(node)) and verdict == "ok":
                verdict = "InvalidDefinition"
            import ast as _ast
            codes.append((compile(en["canon"].strip(), "<guard>", "eval"), en["group"] == "cond", set(G.names_of(node)),
                          _ast.dump(_ast.parse(en["canon"].strip(), mode="eval"))))
    if verdict != "ok":
        return dict(construct=verdict, rounds=[])
    # all cond entries first, then all unless entries (declaration order inside each)
    codes = [c for c in codes if c[1]] + [c for c in codes if not c[1]]
    rounds = []
    for rho in scn["rounds"]:
        log = []
        out = "fired"
        # the constructor's providers first; then every late attachment pass: an entry given by name whose names that
        # pass provides must hold over those providers too ("a guard name provided by several objects must hold on
        # all of them", attachment by attachment)
        # (`CallbacksExecutor.add` ignores an entry whose key — the expression resolved over the providers it was built
        # with, and the expected value — was seen before: attaching the same providers again adds nothing)
        def key(c, pv):
            return (c[3], c[1], tuple((n, tuple(pv.get(n) or ())) for n in sorted(c[2] or ())))
        plan = [(lay.prov, codes)]
        seen = {key(c, lay.prov) for c in codes if c[2] is not None}
        for pv in lay.prov_pass:
            cs = []
            for c in codes:
                if c[2] is not None and all(pv.get(n) for n in c[2]) and key(c, pv) not in seen:
                    seen.add(key(c, pv))
                    cs.append(c)
            plan.append((pv, cs))
        for pv, cs in plan:
            ns = _Namespace(lay, rho, log, pv)
            for code, expected, *_rest in cs:
                try:
                    v = eval(code, {"__builtins__": {}}, ns)
                    ok = bool(v) == expected
                except Exception as e:  # noqa: BLE001
                    out = "raised:" + type(e).__name__
                    break
                if not ok:
                    out = "notfired"
                    break
            if out != "fired":
                break
        rounds.append((out, log))
    return dict(construct="ok", rounds=rounds)


# ----------------------------------------------------------------------------- the Lean model


def driver_lines(scn, lay):
    """None if the scenario is outside what the model covers (an entry outside the grammar)"""
    lines = [f"scn guard {scn['id']}"]
    body = []
    for en in scn["entries"]:
        g = "c" if en["group"] == "cond" else "u"
        if en["kind"] != "expr":
            body.append((g, f"entry {g} O n{lay.nid(en['name'])}"))
            continue
        lines.append("text " + G.hexs(en["text"]))
        cls, node = G.classify(en["canon"])
        if cls == "unsupported":
            return None
        if cls == "unparsable":
            body.append((g, f"entry {g} X"))
        else:
            body.append((g, f"entry {g} P " + " ".join(G.prefix_of(node, lay.nid))))
    for n in lay.names:
        ps = lay.prov.get(n, [])
        lines.append(f"prov {lay.name_id[n]} " + (",".join(map(str, ps)) if ps else "-"))
    for k, pv in enumerate(lay.prov_pass):
        for n in lay.names:
            ps = pv.get(n, [])
            lines.append(f"lprov {k} {lay.name_id[n]} " + (",".join(map(str, ps)) if ps else "-"))
    lines += [l for g, l in body if g == "c"] + [l for g, l in body if g == "u"]
    for rho in scn["rounds"]:
        lines.append("rho " + " ".join(f"{lay.slot_id[s]}={t}" for s, t in rho.items() if s in lay.slot_id))
    lines.append("end")
    return lines


def parse_model(obs, lay):
    """driver output -> dict(construct, rounds=[(outcome, lib reads, re-read flags, py reads, spec outcome)], preps)"""
    preps, rounds, construct = [], [], None
    for l in obs:
        p = l.split(" ")
        if p[0] == "prep":
            preps.append(p[1:])
        elif p[0] == "construct":
            construct = p[1]
        elif p[0] == "send" and len(p) >= 5:
            kv = dict(x.split("=", 1) for x in p[2:])
            lib = [x for x in kv["lib"].split(",") if x]
            libr = [(int(x.rstrip("*")), x.endswith("*")) for x in lib]
            py = [int(x) for x in kv["py"].split(",") if x]
            m = {"enabled": "fired", "notenabled": "notfired", "raised": "raised:TypeError"}
            rounds.append((m[p[1]], [s for s, _ in libr if s not in lay.silent],
                           [s for s, re in libr if not re and s not in lay.silent],
                           [s for s in py if s not in lay.silent], m[kv["spec"]]))
    return dict(construct=construct, rounds=rounds, preps=preps)


def is_subsequence(small, big):
    it = iter(big)
    return all(any(x == y for y in it) for x in small)


# ----------------------------------------------------------------------------- verdicts


def judge(scn, lay, impl, spec, model):
    """-> (spec_failures, disagreements): lists of strings.
    spec_failures: the implementation's observation contradicts the property (CPython oracle);
    disagreements: model vs implementation / model vs CPython differences that are not spec failures."""
    fails, diffs = [], []
    ic, sc = impl["construct"], spec["construct"]

    def nm(ids):
        return [f"{lay.slots[i][0]}.{lay.slots[i][1]}" for i in ids]

    if sc == "ok":
        if ic != "ok":
            fails.append(f"construction raised {ic} for well-formed guards with all names provided")
    elif sc == "InvalidDefinition":
        if ic != "InvalidDefinition":
            fails.append(f"unparsable text / unknown name: expected InvalidDefinition at instantiation, got {ic}")
    else:
        if ic == "ok":
            fails.append("text outside the documented grammar was accepted at instantiation")
    if impl.get("warnings"):
        fails.append("coroutine never awaited: " + impl["warnings"][0])
    if sc == "ok" and ic == "ok":
        for i, ((io, ir), (so, sr)) in enumerate(zip(impl["rounds"], spec["rounds"])):
            if io.startswith("raised:") and so.startswith("raised:"):
                if io != so:
                    fails.append(f"event {i}: raised {io[7:]} where Python raises {so[7:]}")
            elif io != so:
                fails.append(f"event {i}: {io} but Python's evaluation says {so} (rho={scn['rounds'][i]})")
            if not is_subsequence(sr, ir) or not set(ir) <= set(sr):
                fails.append(f"event {i}: reads {nm(ir)} are not Python's reads {nm(sr)} (left to right, short-circuit; "
                             f"rho={scn['rounds'][i]})")
    if model is not None:
        mc = model["construct"]
        if sc in ("ok", "InvalidDefinition") and mc != sc:
            diffs.append(f"model construct {mc} vs Spec {sc}")
        if mc != ic and sc != "reject-any":
            diffs.append(f"model construct {mc} vs implementation {ic}")
        if mc == "ok" and ic == "ok" and sc == "ok":
            for i, (m, (io, ir), (so, sr)) in enumerate(zip(model["rounds"], impl["rounds"], spec["rounds"])):
                mo, mlib, mfirst, mpy, mspec = m
                if mo != io:
                    diffs.append(f"event {i}: model {mo} vs implementation {io}")
                if mlib != ir:
                    diffs.append(f"event {i}: model reads {nm(mlib)} vs implementation reads {nm(ir)}")
                if mspec != so or mpy != sr:
                    diffs.append(f"event {i}: Lean spec side ({mspec},{mpy}) vs CPython ({so},{sr})")
                if mfirst != mpy or mo != mspec:
                    diffs.append(f"event {i}: theorem C08_end_to_end instance fails in the driver ({mo},{mfirst}) vs ({mspec},{mpy})")
    return fails, diffs


def check_preps(scn, model):
    """character level: the model's rewritten text must parse (in CPython) to the tree of the canonical
    text, take the fast path exactly for identifiers, and equal the library's own `replace_operators`
    when that internal is importable"""
    diffs = []
    exprs = [en for en in scn["entries"] if en["kind"] == "expr"]
    try:
        from statemachine.spec_parser import replace_operators
    except Exception:  # noqa: BLE001
        replace_operators = None
    for en, prep in zip(exprs, model["preps"]):
        text, canon = en["text"], en["canon"]
        kind = prep[0]
        cls, node = G.classify(canon)
        if text.strip() == "":
            if kind != "syntaxError":
                diffs.append(f"blank text: model says {kind}")
            continue
        if kind == "name":
            if not (text.isidentifier() and G.unhexs(prep[1]) == text):
                diffs.append(f"fast path taken for {text!r}")
            continue
        if kind != "parse":
            diffs.append(f"model prep {kind} for {text!r}")
            continue
        rewritten = G.unhexs(prep[1])
        if replace_operators is not None and replace_operators(text) != rewritten:
            diffs.append(f"replace_operators({text!r}) = {replace_operators(text)!r}, model {rewritten!r}")
        try:
            d1 = ast.dump(ast.parse(rewritten, mode="eval"))
        except SyntaxError:
            d1 = "SyntaxError"
        try:
            d2 = ast.dump(ast.parse(canon, mode="eval"))
        except SyntaxError:
            d2 = "SyntaxError"
        if d1 != d2:
            diffs.append(f"rewritten text {rewritten!r} parses differently from canonical {canon!r}")
    return diffs
