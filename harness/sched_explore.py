"""C06 — enumeration of schedules (both schedulers) with a bound on the number of deviations.

A schedule is a sparse map {decision index -> choice > 0}; the empty map is the default schedule.
Each run reports, per decision, (number of alternatives, cost of deviating there). The children of a
schedule deviate at one more decision *after* its last deviation, so every schedule within the bound
is visited exactly once (stateless DFS, CHESS-style iterative context bounding: cost 1 for preempting
a thread that could continue / for any non-FIFO choice of the asyncio loop, cost 0 for choosing who
runs after a thread finished).

Runs happen in `multiprocessing` workers only, so `sys.settrace` and the custom event loop never leak
into the process that runs the check.
"""
from __future__ import annotations

import hashlib
import multiprocessing as mp
import os
import time

from common import run_driver
from sched_common import (Scenario, model_outcome_matches, outcome_line, spec_check,
                          validate_lines)


def runner_for(kind):
    if kind == "threads":
        import sched_threads
        return sched_threads.run_schedule
    import sched_asyncio
    return sched_asyncio.run_schedule


def children(devs, trace, bound):
    last = max(devs) if devs else -1
    used = sum(trace[k][1] for k in devs if k < len(trace))
    out = []
    for k in range(last + 1, len(trace)):
        n, cost = trace[k]
        if n <= 1 or used + cost > bound:
            continue
        for c in range(1, n):
            d = dict(devs)
            d[k] = c
            out.append(d)
    return out


def devs_str(devs):
    return ",".join(f"{k}:{c}" for k, c in sorted(devs.items())) or "-"


def devs_parse(s):
    if s in ("-", ""):
        return {}
    return {int(a.split(":")[0]): int(a.split(":")[1]) for a in s.split(",")}


class Acc:
    """Per-worker accumulator; merged by the master."""

    def __init__(self):
        self.runs = 0
        self.nontrivial = set()       # hashes of non-trivial schedules
        self.spec_fail = []           # (devs string, [failures], outcome line)
        self.map_fail = []            # (devs string, message, labels)
        self.outcomes = {}            # outcome line -> example devs string
        self.label_seqs = 0           # distinct label sequences validated by the model
        self.map_unavailable = 0
        self.max_decisions = 0
        self.cut = False
        self.preempt_hist = {}
        self.samples = []
        self.determinism_checks = 0
        self.stalled = 0              # tasks abandoned because their worker never answered

    def merge(self, o):
        self.runs += o.runs
        self.nontrivial |= o.nontrivial
        self.spec_fail += o.spec_fail
        self.map_fail += o.map_fail
        for k, v in o.outcomes.items():
            self.outcomes.setdefault(k, v)
        self.label_seqs += o.label_seqs
        self.map_unavailable += o.map_unavailable
        self.max_decisions = max(self.max_decisions, o.max_decisions)
        self.cut = self.cut or o.cut
        for k, v in o.preempt_hist.items():
            self.preempt_hist[k] = self.preempt_hist.get(k, 0) + v
        self.samples = (self.samples + o.samples)[:6]
        self.determinism_checks += o.determinism_checks
        self.stalled += getattr(o, "stalled", 0)


def _flush(scn, batch, acc):
    """Validate a batch of distinct label sequences through the Lean driver and compare outcomes."""
    if not batch:
        return
    lines = []
    for i, (ds, labels, out) in enumerate(batch):
        lines += validate_lines(f"v{i}", scn, labels)
    res = run_driver(lines, exe="drv_protocol", root="DrvProtocol.lean")
    for i, (ds, labels, out) in enumerate(batch):
        r = res.get(f"v{i}", ["<no driver output>"])
        if not r or not r[0].startswith("valid 1"):
            acc.map_fail.append((ds, "not a step sequence of the model: " + (r[0] if r else "?"), labels))
            continue
        inv = [l for l in r if l.startswith("inv ")]
        if not inv or "false" in inv[0]:
            acc.map_fail.append((ds, f"model invariant monitor: {inv}", labels))
            continue
        mo = [l for l in r if l.startswith("out ")][0]
        if not model_outcome_matches(out, mo):
            acc.map_fail.append((ds, f"outcome differs: impl `{out}` model `{mo}`", labels))
        else:
            acc.label_seqs += 1
    batch.clear()


def detail(run, scn, devs):
    """Re-run a schedule recording where each deviation happened (for the replay file)."""
    obs = run(scn, devs, want_where=True)
    if scn.kind == "threads":
        sw = [dict(decision=k, running=("main" if a < 0 else f"sender {a}"), next=f"sender {b}",
                   at=(f"{w[0]}:{w[1]}" if isinstance(w, tuple) else str(w)))
              for (k, a, b, w) in obs.where if k in devs]
    else:
        sw = [dict(decision=k, choice=c, ready_handles=n, ran_last=f"sender {a}", next=f"sender {b}")
              for (k, c, n, a, b) in obs.where if k in devs]
    return dict(switches=sw, model_steps=list(obs.labels),
                callback_marks=[f"{k}{uid}.{name}@{a}" for k, uid, name, a in obs.marks],
                sends=[dict(sender=a, uid=u, returned=r, exc=e) for a, u, r, e in obs.sends],
                nested_sends=[dict(sender=a, parent=p, uid=u, returned=r, exc=e) for a, p, u, r, e in obs.nested],
                final_state=obs.final_state, queue_left=obs.queue_left, follow_up_send=obs.probe)


def explore(task):
    """Worker. task = (scenario json, roots, bound, deadline, expand, max_runs).
    Runs every schedule in `roots`; with `expand` also all their descendants within `bound`.
    After `max_runs` runs the schedules still on the DFS stack are handed back to the master."""
    scn_json, roots, bound, deadline, expand, max_runs = task
    scn = Scenario.from_json(scn_json)
    run = runner_for(scn.kind)
    acc = Acc()
    seen_labels = set()
    batch = []
    stack = [dict(r) for r in reversed(roots)]
    while stack:
        if time.time() > deadline:
            acc.cut = True
            stack = []
            break
        if max_runs and acc.runs >= max_runs:
            break
        devs = stack.pop()
        obs = run(scn, devs)
        if expand:
            stack.extend(reversed(children(devs, obs.trace, bound)))
        acc.runs += 1
        if acc.runs % 250 == 1:
            # determinism of replay: the same deviation map must reproduce the same execution
            o2 = run(scn, devs)
            if (o2.labels, o2.marks, o2.trace, o2.sends) != (obs.labels, obs.marks, obs.trace, obs.sends):
                acc.map_fail.append((devs_str(devs), "replay is not deterministic: two runs of one schedule differ", obs.labels))
            acc.determinism_checks += 1
        acc.max_decisions = max(acc.max_decisions, obs.decisions)
        ds = devs_str(devs)
        used = sum(obs.trace[k][1] for k in devs if 0 <= k < len(obs.trace))
        acc.preempt_hist[used] = acc.preempt_hist.get(used, 0) + 1
        fails = spec_check(scn, obs)
        out = outcome_line(scn, obs)
        acc.outcomes.setdefault(out, ds)
        if obs.window_preempt:
            acc.nontrivial.add(hashlib.sha1((scn_json + ds).encode()).hexdigest()[:12])
            if len(acc.samples) < 2:
                acc.samples.append(dict(scenario=scn.describe(), schedule=ds, outcome=out))
        if fails:
            if len(acc.spec_fail) < 3:
                acc.spec_fail.append((ds, fails, out, detail(run, scn, devs)))
            continue
        if obs.map_notes:
            acc.map_unavailable += 1
            if any("diverged" in m for m in obs.map_notes) and len(acc.map_fail) < 5:
                acc.map_fail.append((ds, "; ".join(obs.map_notes), obs.labels))
            continue
        key = hashlib.sha1(("\n".join(obs.labels) + "|" + out).encode()).digest()
        if key not in seen_labels:
            seen_labels.add(key)
            batch.append((ds, list(obs.labels), out))
            if len(batch) >= 400:
                _flush(scn, batch, acc)
    _flush(scn, batch, acc)
    acc.map_fail = acc.map_fail[:5]
    return acc, stack


def explore_parallel(pool, scn: Scenario, bound, deadline, procs=16, max_runs=120, group=6, total_cap=None):
    """Master: dynamic work splitting — a task runs at most `max_runs` schedules of its subtrees and
    returns the rest of its DFS stack, which is re-queued in groups."""
    from collections import deque
    sj = scn.to_json()
    acc = Acc()
    pending = deque([[{}]])
    inflight = []
    last = time.time()
    while pending or inflight:
        if total_cap is not None and acc.runs >= total_cap and pending:
            pending.clear()          # (quick tier: a fixed amount of work per scenario, whatever the machine)
            acc.cut = True
        while pending and len(inflight) < 2 * procs:
            roots = pending.popleft()
            inflight.append(pool.apply_async(explore, ((sj, roots, bound, deadline, True, max_runs),)))
        still = []
        got = False
        for r in inflight:
            if r.ready():
                a, left = r.get()
                acc.merge(a)
                got = True
                if time.time() < deadline and (total_cap is None or acc.runs < total_cap):
                    for i in range(0, len(left), group):
                        pending.append(left[i:i + group])
                elif left:
                    acc.cut = True
            else:
                still.append(r)
        inflight = still
        if got:
            last = time.time()
        else:
            time.sleep(0.003)
            now = time.time()
            if inflight and now > deadline + STALL_S and now - last > STALL_S:
                # a task that never comes back (a worker process lost while the pool replaced it, a wedged fork):
                # the schedules it held stay unexplored — recorded, not a verdict — and the pool is rebuilt
                acc.cut = True
                acc.stalled += len(inflight)
                if hasattr(pool, "reset"):
                    pool.reset()
                return acc
    return acc


def sample_parallel(pool, scn: Scenario, devs_list, deadline, chunk=50):
    """Master: run the given schedules (no expansion), spread over the workers."""
    sj = scn.to_json()
    tasks = [(sj, devs_list[i:i + chunk], 0, deadline, False, 0) for i in range(0, len(devs_list), chunk)]
    acc = Acc()
    it = pool.imap_unordered(explore, tasks, chunksize=1)
    done = 0
    while done < len(tasks):
        try:
            a, _ = it.next(timeout=max(STALL_S, deadline - time.time() + STALL_S))
        except StopIteration:
            break
        except mp.TimeoutError:
            acc.cut = True
            acc.stalled += len(tasks) - done
            if hasattr(pool, "reset"):
                pool.reset()
            break
        acc.merge(a)
        done += 1
    return acc


STALL_S = 45.0


class PoolBox:
    """a worker pool that can be rebuilt when a task never comes back"""

    def __init__(self, procs):
        self.procs = procs
        self.resets = 0
        self._make()

    def _make(self):
        ctx = mp.get_context("fork")
        self.inner = ctx.Pool(processes=self.procs, maxtasksperchild=200)

    def reset(self):
        try:
            self.inner.terminate()
        except Exception:  # noqa: BLE001
            pass
        self.resets += 1
        self._make()

    def apply(self, *a, **k):
        return self.inner.apply(*a, **k)

    def apply_async(self, *a, **k):
        return self.inner.apply_async(*a, **k)

    def imap_unordered(self, *a, **k):
        return self.inner.imap_unordered(*a, **k)

    def terminate(self):
        self.inner.terminate()

    def join(self):
        self.inner.join()


def make_pool(procs):
    return PoolBox(procs)
