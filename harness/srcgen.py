"""Source-derived scripts: translate the engine's three core functions from the tree under test into the
statement lists of `lean/SMV/Src/IR.lean`.

    python3 harness/srcgen.py [--repo DIR] --emit            print the Lean definitions (namespace SMV.Src.Gen)
    python3 harness/srcgen.py [--repo DIR] --write-expected  rewrite lean/SMV/Src/Expected.lean from DIR

The translator reads `statemachine/engines/sync.py` and `engines/async_.py` with `ast`, and for each of
`_activate`, `_trigger`, `processing_loop` walks the statements in source order. Docstrings, comments,
annotations and the names of local variables do not matter (locals are renamed to canonical names as they are
bound: `event_data` -> ED, `source = transition.source` -> SRC, ...); everything else does: a statement that
is not one of the recognised forms makes the translation of that function fail (`Untranslatable`), which the
checks report as a broken tie — it is never skipped.

An `await` is recorded on the statement it belongs to (`awaited := true`) and must sit exactly on an
`async_call` / `async_all` / `_activate` / `_trigger` call; `async_call` without `await`, or `await` on `call`,
is untranslatable.
"""
from __future__ import annotations

import ast
import copy
import os
import re
import sys

HERE = os.path.dirname(os.path.abspath(__file__))
VERIF = os.path.dirname(HERE)
EXPECTED = os.path.join(VERIF, "lean", "SMV", "Src", "Expected.lean")

FUNCS = [  # (lean name, file, class, method, translator key, lean type)
    ("activateSync", "statemachine/engines/sync.py", "SyncEngine", "_activate", "activate", "List AStmt"),
    ("activateAsync", "statemachine/engines/async_.py", "AsyncEngine", "_activate", "activate", "List AStmt"),
    ("triggerSync", "statemachine/engines/sync.py", "SyncEngine", "_trigger", "trigger", "List TStmt"),
    ("triggerAsync", "statemachine/engines/async_.py", "AsyncEngine", "_trigger", "trigger", "List TStmt"),
    ("processSync", "statemachine/engines/sync.py", "SyncEngine", "processing_loop", "process", "List PStmt"),
    ("processAsync", "statemachine/engines/async_.py", "AsyncEngine", "processing_loop", "process", "List PStmt"),
    ("wrapperCall", "statemachine/callbacks.py", "CallbackWrapper", "call", "wrapper", "List WStmt"),
    ("wrapperDunder", "statemachine/callbacks.py", "CallbackWrapper", "__call__", "wrapper", "List WStmt"),
    ("execCall", "statemachine/callbacks.py", "CallbacksExecutor", "call", "executor", "List XStmt"),
    ("execAll", "statemachine/callbacks.py", "CallbacksExecutor", "all", "executor", "List XStmt"),
    ("execAsyncCall", "statemachine/callbacks.py", "CallbacksExecutor", "async_call", "executor", "List XStmt"),
    ("execAsyncAll", "statemachine/callbacks.py", "CallbacksExecutor", "async_all", "executor", "List XStmt"),
    ("eventCall", "statemachine/event.py", "Event", "__call__", "eventcall", "List EStmt"),
    ("smSend", "statemachine/statemachine.py", "StateMachine", "send", "send", "List SStmt"),
    ("engineStart", "statemachine/engines/base.py", "BaseEngine", "start", "start", "List StStmt"),
    ("reservedNames", "statemachine/event.py", None, "_event_data_kwargs", "reserved", "List String"),
    ("injectedNames", "statemachine/event_data.py", "EventData", "extended_kwargs", "injected", "List String"),
    ("parser", "statemachine/spec_parser.py", None, "spec_parser", "parser", "ParserScript"),
    ("bindExpected", "statemachine/signature.py", "SignatureAdapter", "bind_expected", "bind", "List B.FStmt"),
    ("callableMethod", "statemachine/dispatcher.py", None, "callable_method", "callable", "B.CallableScript"),
    ("visitConnected", "statemachine/graph.py", None, "visit_connected_states", "visit", "List V.GStmt"),
    ("classCheck", "statemachine/factory.py", "StateMachineMetaclass", "_check", "check", "List V.CStep"),
    ("metaInit", "statemachine/factory.py", "StateMachineMetaclass", "__init__", "metainit", "List V.MStmt"),
    ("transitionInit", "statemachine/transition.py", "Transition", "__init__", "transinit", "List V.TIStmt"),
    ("store", "statemachine/statemachine.py", None, "store", "store", "St.StoreScript"),
    ("smInit", "statemachine/statemachine.py", "StateMachine", "__init__", "sminit", "List St.CStmt"),
    ("registerCallbacks", "statemachine/statemachine.py", "StateMachine", "_register_callbacks", "register", "List St.RStmt"),
    ("addListener", "statemachine/statemachine.py", "StateMachine", "add_listener", "addlistener", "List St.LStmt"),
    ("getState", "statemachine/statemachine.py", "StateMachine", "__getstate__", "getstate", "List St.GStmt"),
    ("setState", "statemachine/statemachine.py", "StateMachine", "__setstate__", "setstate", "List St.SStmt"),
    ("allowedEvents", "statemachine/statemachine.py", None, "allowed", "allowed", "St.AllowedScript"),
    ("registry", "statemachine/callbacks.py", None, "registry", "registry", "R.RegScript"),
    ("decl", "statemachine/events.py", None, "decl", "decl", "D.DeclScript"),
    ("diagram", "statemachine/contrib/diagram.py", None, "diagram", "diagram", "G.DiagramScript"),
    ("engBase", "statemachine/engines/base.py", None, "eng", "eng", "E.EngScript"),
    ("factory", "statemachine/factory.py", None, "factory", "factory", "F.FactoryScript"),
    ("specs", "statemachine/callbacks.py", None, "specs", "specs", "P.SpecScript"),
    ("surface", "statemachine/state.py", None, "surface", "surface", "U.SurfaceScript"),
    ("takeCallback", "statemachine/dispatcher.py", None, "take", "take", "T.TakeScript"),
    ("glue", "statemachine/utils.py", None, "glue", "glue", "K.GlueScript"),
    ("objects", "statemachine/state.py", None, "obj", "obj", "O.ObjScript"),
]
ASYNC_DEF = {"activateAsync", "triggerAsync", "processAsync", "wrapperDunder", "execAsyncCall", "execAsyncAll"}

AWAITABLE = {"async_call", "async_all", "_activate", "_trigger"}


class Untranslatable(Exception):
    pass


_READS = None      # while a set: the files (relative to the tree) the translator in progress has read


def _read(path, repo=None):
    """source text of a file of the tree under test (reads are recorded per translated function: the self-tests
    re-translate only what depends on the file they edited)"""
    if _READS is not None:
        _READS.add(os.path.relpath(path, repo) if repo else path)
    return open(path).read()


# ----------------------------------------------------------------------------------------- normalisation

class _Awaits(ast.NodeTransformer):
    """`await X.f(...)` -> `X.AWAITED_f(...)`; any other await is untranslatable"""

    def visit_Await(self, node):
        v = node.value
        if isinstance(v, ast.Call) and isinstance(v.func, ast.Attribute) and v.func.attr in AWAITABLE:
            v = self.generic_visit(v)
            v.func.attr = "AWAITED_" + v.func.attr
            return v
        raise Untranslatable("await on something else than a callback-group call / _activate / _trigger: "
                             + ast.unparse(node))


class _Rename(ast.NodeTransformer):
    def __init__(self, env):
        self.env = env

    def visit_Name(self, node):
        if node.id in self.env:
            return ast.copy_location(ast.Name(id=self.env[node.id], ctx=node.ctx), node)
        return node


def method(repo, rel, cls, name):
    path = os.path.join(repo, rel)
    try:
        tree = ast.parse(_read(path, repo))
    except (OSError, SyntaxError) as e:
        raise Untranslatable(f"cannot parse {rel}: {e}")
    if cls is None:
        return tree
    for c in tree.body:
        if isinstance(c, ast.ClassDef) and c.name == cls:
            found = [f for f in c.body if isinstance(f, (ast.FunctionDef, ast.AsyncFunctionDef)) and f.name == name]
            if len(found) != 1:
                raise Untranslatable(f"{cls}.{name}: {len(found)} definitions in {rel}")
            return found[0]
    raise Untranslatable(f"class {cls} not found in {rel}")


def prepare(fn, nparams):
    """body without the docstring, awaits folded into the call names; environment with the parameters"""
    if fn.decorator_list:
        raise Untranslatable(f"{fn.name}: decorated")
    a = fn.args
    names = [x.arg for x in a.posonlyargs + a.args]
    if a.vararg or a.kwarg or a.kwonlyargs or a.defaults or len(names) != nparams + 1 or names[0] != "self":
        raise Untranslatable(f"{fn.name}: parameters {ast.unparse(a)}")
    body = list(fn.body)
    if body and isinstance(body[0], ast.Expr) and isinstance(body[0].value, ast.Constant) \
            and isinstance(body[0].value.value, str):
        body = body[1:]
    body = [_Awaits().visit(copy.deepcopy(s)) for s in body]
    is_async = isinstance(fn, ast.AsyncFunctionDef)
    return body, names[1:], is_async


def text(stmt, env):
    return ast.unparse(_Rename(env).visit(copy.deepcopy(stmt)))


def bind(env, name, canon):
    """local `name` now means `canon`; re-binding a name to another meaning is untranslatable"""
    if name in env and env[name] != canon:
        raise Untranslatable(f"local {name} re-bound ({env[name]} -> {canon})")
    if canon in env.values() and env.get(name) != canon:
        raise Untranslatable(f"two locals for {canon}")
    if name == canon:
        raise Untranslatable(f"local named like a canonical name: {name}")
    env[name] = canon


def B(b):
    return "true" if b else "false"


# ----------------------------------------------------------------------------------------- _activate

GROUP_OWNER = {"validators": "transition", "before": "transition", "on": "transition", "after": "transition",
               "exit": "source", "enter": "target"}
OWNER_EXPR = {"TR": "transition", "SRC": "source", "TR.source": "source", "TGT": "target", "TR.target": "target"}

CALL_RE = re.compile(
    r"^(?:(?P<res>\w+) (?P<op>=|\+=) )?self\.sm\._callbacks\.(?P<api>call|AWAITED_async_call)"
    r"\((?P<own>TR\.source|TR\.target|TR|SRC|TGT)\.(?P<grp>\w+)\.key, \*ARGS, \*\*KW\)$")


def _gcall(t, env, allow_result=True):
    m = CALL_RE.match(t)
    if not m:
        return None
    grp, own = m.group("grp"), OWNER_EXPR[m.group("own")]
    if GROUP_OWNER.get(grp) != own:
        raise Untranslatable(f"group {grp} called on the {own}: {t}")
    into = "drop"
    if m.group("res"):
        if not allow_result:
            raise Untranslatable("result assigned inside a conditional call: " + t)
        if m.group("op") == "=":
            if m.group("res") != "RES":
                bind(env, m.group("res"), "RES")
            into = "set"
        else:
            if m.group("res") != "RES":
                raise Untranslatable("`+=` on something that is not the result list: " + t)
            into = "add"
    return f"⟨.{grp}, .{own}, .{into}, {B(m.group('api') != 'call')}⟩"


TESTS = {"not TR.internal": "notInternal",
         "SRC is not None and (not TR.internal)": "srcAndNotInternal",
         "TR.source is not None and (not TR.internal)": "srcAndNotInternal",
         "not TR.internal and SRC is not None": "srcAndNotInternal",
         "not TR.internal and TR.source is not None": "srcAndNotInternal"}


def tr_activate(fn):
    body, params, _ = prepare(fn, 2)
    env = {params[0]: "TD", params[1]: "TR"}
    out = []
    for s in body:
        t = text(s, env)
        m = re.match(r"^(\w+) = EventData\(trigger_data=TD, transition=TR\)$", t) \
            or re.match(r"^(\w+) = EventData\(transition=TR, trigger_data=TD\)$", t) \
            or re.match(r"^(\w+) = EventData\(TD, TR\)$", t)
        if m:
            bind(env, m.group(1), "ED")
            out.append(".eventData")
            continue
        m = re.match(r"^\(?(\w+), (\w+)\)? = \(?ED\.args, ED\.extended_kwargs\)?$", t)
        if m:
            bind(env, m.group(1), "ARGS")
            bind(env, m.group(2), "KW")
            out.append(".bindArgs")
            continue
        m = re.match(r"^(\w+) = TR\.(source|target)$", t)
        if m:   # a pure alias: `Transition.source/target` are plain attributes
            bind(env, m.group(1), "SRC" if m.group(2) == "source" else "TGT")
            continue
        c = _gcall(t, env)
        if c:
            out.append(f".call {c}")
            continue
        m = re.match(r"^if not self\.sm\._callbacks\.(all|AWAITED_async_all)\(TR\.cond\.key, \*ARGS, \*\*KW\):\n"
                     r"    return \(False, None\)$", t)
        if m:
            out.append(f".rejectUnlessAll .transition {B(m.group(1) != 'all')}")
            continue
        if isinstance(s, ast.If) and not s.orelse and len(s.body) == 1:
            tst = text(s.test, env)
            c = _gcall(text(s.body[0], env), env, allow_result=False)
            if tst in TESTS and c:
                out.append(f".ifCall .{TESTS[tst]} {c}")
                continue
        if t == "self.sm.current_state = TGT" or t == "self.sm.current_state = TR.target":
            out.append(".assignState")
            continue
        if t in ("ED.state = TGT", "ED.state = TR.target"):
            out.append(".viewState")
            continue
        if t in ("KW['state'] = TGT", "KW['state'] = TR.target"):
            out.append(".viewKw")
            continue
        if t == "if len(RES) == 0:\n    RES = None\nelif len(RES) == 1:\n    RES = RES[0]":
            out.append(".unwrap")
            continue
        if t == "return (True, RES)":
            out.append(".retExecuted")
            continue
        raise Untranslatable(f"{fn.name}: statement at line {s.lineno} not recognised: {t!r}")
    return "[\n  " + ",\n  ".join(out) + "]"


# ----------------------------------------------------------------------------------------- _trigger

def tr_trigger(fn):
    body, params, _ = prepare(fn, 1)
    env = {params[0]: "TD"}
    out = []
    for s in body:
        t = text(s, env)
        m = re.match(r"^(\w+) = False$", t)
        if m:
            bind(env, m.group(1), "EXEC")
            out.append(".initExecuted")
            continue
        m = re.match(r"^if TD\.event == '__initial__' and self\.sm\.current_state_value is None:\n"
                     r"    (\w+) = self\._initial_transition\(TD\)\n"
                     r"    self\.(AWAITED_)?_activate\(TD, \1\)\n"
                     r"    return self\._sentinel$", t)
        if m:
            out.append(f".initialBranch {B(bool(m.group(2)))}")
            continue
        if t == "if TD is self._activation:\n    return self._sentinel":
            out.append(".skipStaleActivation")
            continue
        m = re.match(r"^(\w+) = self\.sm\.current_state$", t)
        if m:
            bind(env, m.group(1), "ST")
            out.append(".readState")
            continue
        if isinstance(s, ast.For):
            if not isinstance(s.target, ast.Name) or text(s.iter, env) != "ST.transitions":
                raise Untranslatable(f"{fn.name}: loop header at line {s.lineno}: {t.splitlines()[0]!r}")
            lenv = dict(env)
            bind(lenv, s.target.id, "TR")
            lb = []
            for b in s.body:
                bt = text(b, lenv)
                if bt == "if not TR.match(TD.event):\n    continue":
                    lb.append(".skipUnlessMatch")
                    continue
                m = re.match(r"^\(?EXEC, (\w+)\)? = self\.(AWAITED_)?_activate\(TD, TR\)$", bt)
                if m:
                    if m.group(1) != "RES":
                        bind(lenv, m.group(1), "RES")
                    lb.append(f".activate {B(bool(m.group(2)))}")
                    continue
                if bt == "if not EXEC:\n    continue":
                    lb.append(".continueUnlessExecuted")
                    continue
                if bt == "break":
                    lb.append(".brk")
                    continue
                raise Untranslatable(f"{fn.name}: loop statement at line {b.lineno} not recognised: {bt!r}")
            ot = "\n".join(text(o, lenv) for o in s.orelse)
            if ot != ("if not self.sm.allow_event_without_transition:\n"
                      "    raise TransitionNotAllowed(TD.event, ST)"):
                raise Untranslatable(f"{fn.name}: else clause of the candidate loop: {ot!r}")
            for k, v in lenv.items():
                if v == "RES":
                    bind(env, k, "RES")
            out.append(".forCands [" + ", ".join(lb) + "]")
            continue
        if t == "return RES if EXEC else None":
            out.append(".retResult")
            continue
        raise Untranslatable(f"{fn.name}: statement at line {s.lineno} not recognised: {t!r}")
    return "[\n  " + ",\n  ".join(out) + "]"


# ----------------------------------------------------------------------------------------- processing_loop

def tr_process(fn):
    body, params, _ = prepare(fn, 0)
    env = {}
    out = []
    for s in body:
        t = text(s, env)
        m = re.match(r"^if not self\._rtc:\n"
                     r"    if not self\._external_queue:\n"
                     r"        return None\n"
                     r"    (\w+) = self\._external_queue\.popleft\(\)\n"
                     r"    return self\._trigger\(\1\)$", t)
        if m:
            out.append(".nonRtcBranch")
            continue
        if t == "if not self._processing.acquire(blocking=False):\n    return None":
            out.append(".acquireOrReturn")
            continue
        m = re.match(r"^(\w+) = self\._sentinel$", t)
        if m:
            bind(env, m.group(1), "FIRST")
            out.append(".initFirst")
            continue
        m = re.match(r"^try:\n"
                     r"    while self\._external_queue:\n"
                     r"        (?P<td>\w+) = self\._external_queue\.popleft\(\)\n"
                     r"        try:\n"
                     r"            (?P<res>\w+) = self\.(?P<aw>AWAITED_)?_trigger\((?P=td)\)\n"
                     r"            if FIRST is self\._sentinel:\n"
                     r"                FIRST = (?P=res)\n"
                     r"        except (?P<sel>BaseException|Exception):\n"
                     r"            self\._external_queue\.clear\(\)\n"
                     r"            raise\n"
                     r"finally:\n"
                     r"    self\._processing\.release\(\)$", t)
        if m:
            sel = "baseException" if m.group("sel") == "BaseException" else "exception"
            out.append(f".drain {B(bool(m.group('aw')))} .{sel}")
            continue
        if t == "if self._external_queue:\n    self.processing_loop()":
            out.append(".recheck")
            continue
        if t == "return FIRST if FIRST is not self._sentinel else None":
            out.append(".retFirst")
            continue
        raise Untranslatable(f"{fn.name}: statement at line {s.lineno} not recognised: {t!r}")
    return "[\n  " + ",\n  ".join(out) + "]"


# ----------------------------------------------------------------------------------------- callbacks.py

def prepare_star(fn):
    """body without the docstring of a method `(self, *args, **kwargs)`; the star parameters renamed to A / K"""
    if fn.decorator_list:
        raise Untranslatable(f"{fn.name}: decorated")
    a = fn.args
    names = [x.arg for x in a.posonlyargs + a.args]
    if names != ["self"] or not a.vararg or not a.kwarg or a.kwonlyargs or a.defaults:
        raise Untranslatable(f"{fn.name}: parameters {ast.unparse(a)}")
    body = list(fn.body)
    if body and isinstance(body[0], ast.Expr) and isinstance(body[0].value, ast.Constant) \
            and isinstance(body[0].value.value, str):
        body = body[1:]
    return body, {a.vararg.arg: "A", a.kwarg.arg: "K"}


def tr_wrapper(fn):
    body, env = prepare_star(fn)
    out = []
    for s in body:
        t = text(s, env)
        m = re.match(r"^(\w+) = self\._callback\(\*A, \*\*K\)$", t)
        if m:
            bind(env, m.group(1), "VALUE")
            out.append(".invoke")
            continue
        if t == "if isawaitable(VALUE):\n    VALUE = await VALUE":
            out.append(".awaitIfAwaitable")
            continue
        if t == "if self.expected_value is not None:\n    return bool(VALUE) == self.expected_value":
            out.append(".compareIfExpected")
            continue
        if t == "return VALUE":
            out.append(".retValue")
            continue
        raise Untranslatable(f"{fn.name}: statement at line {s.lineno} not recognised: {t!r}")
    return "[\n  " + ",\n  ".join(out) + "]"


def tr_executor(fn):
    body, env = prepare_star(fn)
    out = []
    for s in body:
        t = text(s, env)
        m = re.match(r"^return \[(\w+)\.call\(\*A, \*\*K\) for \1 in self if \1\.condition\(\*A, \*\*K\)\]$", t)
        if m:
            out.append(".retListComp .call")
            continue
        m = re.match(r"^for (\w+) in self:\n    if not \1\.call\(\*A, \*\*K\):\n        return False$", t)
        if m:
            out.append(".forGuards .call false")
            continue
        m = re.match(r"^for (\w+) in self:\n    if not await \1\(\*A, \*\*K\):\n        return False$", t)
        if m:
            out.append(".forGuards .dunder true")
            continue
        if t == "return True":
            out.append(".retTrue")
            continue
        m = re.match(r"^(\w+) = \[asyncio\.ensure_future\((\w+)\(\*A, \*\*K\)\) for \2 in self "
                     r"if \2\.condition\(\*A, \*\*K\)\]$", t)
        if m:
            bind(env, m.group(1), "TASKS")
            out.append(".spawnFiltered")
            continue
        m = re.match(r"^try:\n"
                     r"    return await asyncio\.gather\(\*TASKS\)\n"
                     r"except BaseException:\n"
                     r"    for (\w+) in TASKS:\n"
                     r"        \1\.cancel\(\)\n"
                     r"    await asyncio\.gather\(\*TASKS, return_exceptions=True\)\n"
                     r"    raise$", t)
        if m:
            out.append(".tryGatherCancel")
            continue
        raise Untranslatable(f"{fn.name}: statement at line {s.lineno} not recognised: {t!r}")
    return "[\n  " + ",\n  ".join(out) + "]"


def tr_eventcall(fn):
    body, env = prepare_star(fn)
    out = []
    for s in body:
        t = text(s, env)
        m = re.match(r"^(\w+) = self\._sm$", t)
        if m:
            bind(env, m.group(1), "MACHINE")
            out.append(".getMachine")
            continue
        if re.match(r"^if MACHINE is None:\n    raise RuntimeError\(.*\)$", t, flags=re.S):
            out.append(".raiseIfUnbound")
            continue
        m = re.match(r"^K = \{(\w+): (\w+) for \1, \2 in K\.items\(\) if \1 not in _event_data_kwargs\}$", t)
        if m:
            out.append(".stripReserved")
            continue
        m = re.match(r"^(\w+) = TriggerData\(machine=MACHINE, event=self, args=A, kwargs=K\)$", t)
        if m:
            bind(env, m.group(1), "TD")
            out.append(".mkTrigger")
            continue
        if t == "MACHINE._put_nonblocking(TD)":
            out.append(".put")
            continue
        m = re.match(r"^(\w+) = MACHINE\._processing_loop\(\)$", t)
        if m:
            bind(env, m.group(1), "RESULT")
            out.append(".processingLoop")
            continue
        if t == "if not isawaitable(RESULT):\n    return RESULT":
            out.append(".retIfPlain")
            continue
        if t == "return run_async_from_sync(RESULT)":
            out.append(".retRunAsync")
            continue
        raise Untranslatable(f"{fn.name}: statement at line {s.lineno} not recognised: {t!r}")
    return "[\n  " + ",\n  ".join(out) + "]"


def tr_send(fn):
    if fn.decorator_list:
        raise Untranslatable("send: decorated")
    a = fn.args
    names = [x.arg for x in a.posonlyargs + a.args]
    if len(names) != 2 or names[0] != "self" or not a.vararg or not a.kwarg or a.kwonlyargs or a.defaults:
        raise Untranslatable(f"send: parameters {ast.unparse(a)}")
    env = {names[1]: "EVENT", a.vararg.arg: "A", a.kwarg.arg: "K"}
    body = list(fn.body)
    if body and isinstance(body[0], ast.Expr) and isinstance(body[0].value, ast.Constant) \
            and isinstance(body[0].value.value, str):
        body = body[1:]
    out = []
    for s in body:
        if isinstance(s, ast.If) and len(s.body) == 1 and len(s.orelse) == 1:
            # annotations on the assignment do not matter
            def strip_ann(x):
                if isinstance(x, ast.AnnAssign) and x.value is not None and isinstance(x.target, ast.Name):
                    return ast.Assign(targets=[x.target], value=x.value, lineno=x.lineno)
                return x
            s2 = ast.If(test=s.test, body=[strip_ann(s.body[0])], orelse=[strip_ann(s.orelse[0])])
            ast.fix_missing_locations(s2)
            t = text(s2, env)
            m = re.match(r"^if EVENT in self\.__class__\._events:\n    (\w+) = getattr\(self, EVENT\)\n"
                         r"else:\n    \1 = BoundEvent\(id=EVENT, name=EVENT, _sm=self\)$", t)
            if m:
                bind(env, m.group(1), "EI")
                out.append(".resolveEvent")
                continue
        t = text(s, env)
        m = re.match(r"^(\w+) = EI\(\*A, \*\*K\)$", t)
        if m:
            bind(env, m.group(1), "RESULT")
            out.append(".callEvent")
            continue
        if t == "if not isawaitable(RESULT):\n    return RESULT":
            out.append(".retIfPlain")
            continue
        if t == "return run_async_from_sync(RESULT)":
            out.append(".retRunAsync")
            continue
        raise Untranslatable(f"send: statement at line {s.lineno} not recognised: {t!r}")
    return "[\n  " + ",\n  ".join(out) + "]"


def tr_start(fn):
    body, params, _ = prepare(fn, 0)
    env = {}
    out = []
    for s in body:
        t = text(s, env)
        if t == "if self.sm.current_state_value is not None:\n    return":
            out.append(".returnIfState")
            continue
        m = re.match(r"^(\w+) = TriggerData\(machine=self\.sm, event=BoundEvent\('__initial__', _sm=self\.sm\)\)$", t)
        if m:
            bind(env, m.group(1), "TD")
            out.append(".mkActivation")
            continue
        if t == "self._activation = TD":
            out.append(".remember")
            continue
        if t == "self.put(TD)":
            out.append(".put")
            continue
        raise Untranslatable(f"start: statement at line {s.lineno} not recognised: {t!r}")
    return "[\n  " + ",\n  ".join(out) + "]"


def _strlist(xs):
    return "[" + ", ".join('"' + x + '"' for x in xs) + "]"


def tr_reserved(tree):
    """the module-level set literal `_event_data_kwargs = {...}` of event.py, sorted"""
    for node in tree.body:
        if isinstance(node, ast.Assign) and len(node.targets) == 1 and isinstance(node.targets[0], ast.Name) \
                and node.targets[0].id == "_event_data_kwargs":
            v = node.value
            if isinstance(v, ast.Set) and all(isinstance(e, ast.Constant) and isinstance(e.value, str) for e in v.elts):
                return _strlist(sorted(e.value for e in v.elts))
            raise Untranslatable("_event_data_kwargs is not a set of string literals")
    raise Untranslatable("_event_data_kwargs not found")


def tr_injected(fn):
    """the keys `EventData.extended_kwargs` sets on the copy of the user's keywords, sorted"""
    body = [s for s in fn.body if not (isinstance(s, ast.Expr) and isinstance(s.value, ast.Constant))]
    keys = []
    if not body or ast.unparse(body[0]) != "kwargs = self.trigger_data.kwargs.copy()" \
            or ast.unparse(body[-1]) != "return kwargs":
        raise Untranslatable("extended_kwargs: not `kwargs = self.trigger_data.kwargs.copy()` … `return kwargs`")
    for s in body[1:-1]:
        m = re.match(r"^kwargs\['(\w+)'\] = .+$", ast.unparse(s))
        if not m:
            raise Untranslatable(f"extended_kwargs: statement at line {s.lineno}: {ast.unparse(s)!r}")
        keys.append(m.group(1))
    return _strlist(sorted(keys))


def _fn(tree, name):
    found = [n for n in tree.body if isinstance(n, ast.FunctionDef) and n.name == name]
    if len(found) != 1:
        raise Untranslatable(f"spec_parser: {len(found)} definitions of {name}")
    return found[0]


def _inner_return(fn, inner="decorated"):
    """the single `return` of the closure `inner` defined inside `fn` (possibly one level deeper)"""
    for node in ast.walk(fn):
        if isinstance(node, ast.FunctionDef) and node.name == inner:
            body = [s for s in node.body if not (isinstance(s, ast.Expr) and isinstance(s.value, ast.Constant))]
            if len(body) != 1 or not isinstance(body[0], ast.Return):
                raise Untranslatable(f"{fn.name}.{inner}: not a single return")
            a = node.args
            if not a.vararg or not a.kwarg or a.args or a.kwonlyargs:
                raise Untranslatable(f"{fn.name}.{inner}: parameters {ast.unparse(a)}")
            env = {a.vararg.arg: "A", a.kwarg.arg: "K"}
            return text(body[0], env)
    raise Untranslatable(f"{fn.name}: no closure `{inner}`")


COMB = {
    "return not P(*A, **K)": "notCall",
    "return L(*A, **K) and R(*A, **K)": "andCalls",
    "return L(*A, **K) or R(*A, **K)": "orCalls",
    "return C": "constant",
    "return bool(OP(L(*A, **K), R(*A, **K)))": "boolOfOp",
}


def _comb(tree, fname, params):
    fn = _fn(tree, fname)
    names = [x.arg for x in fn.args.args]
    if len(names) != len(params):
        raise Untranslatable(f"{fname}: parameters {names}")
    t = _inner_return(fn)
    for n, canon in zip(names, params):
        t = re.sub(rf"\b{re.escape(n)}\b", canon, t)
    if t not in COMB:
        raise Untranslatable(f"{fname}: closure body {t!r}")
    return COMB[t]


def tr_parser(tree):
    notB = _comb(tree, "custom_not", ["P"])
    andB = _comb(tree, "custom_and", ["L", "R"])
    orB = _comb(tree, "custom_or", ["L", "R"])
    constB = _comb(tree, "build_constant", ["C"])
    # the comparator: build_custom_operator(operator) -> custom_comparator(left, right) -> decorated
    bco = _fn(tree, "build_custom_operator")
    inner = [n for n in bco.body if isinstance(n, ast.FunctionDef)]
    if len(inner) != 1 or [x.arg for x in bco.args.args] != ["operator"] or len(inner[0].args.args) != 2:
        raise Untranslatable("build_custom_operator: shape")
    l, r = [x.arg for x in inner[0].args.args]
    t = _inner_return(inner[0])
    t = re.sub(rf"\b{l}\b", "L", t)
    t = re.sub(rf"\b{r}\b", "R", t)
    t = re.sub(r"\boperator\b", "OP", t)
    if t not in COMB:
        raise Untranslatable(f"custom_comparator: closure body {t!r}")
    cmpB = COMB[t]
    # build_expression: the isinstance chain
    be = _fn(tree, "build_expression")
    if [x.arg for x in be.args.args] != ["node", "variable_hook", "operator_mapping"]:
        raise Untranslatable("build_expression: parameters")
    body = [s for s in be.body if not (isinstance(s, ast.Expr) and isinstance(s.value, ast.Constant))]
    if len(body) != 1 or not isinstance(body[0], ast.If):
        raise Untranslatable("build_expression: not one if/elif chain")
    REC = "build_expression({}, variable_hook, operator_mapping)"
    known = {
        ("isinstance(node, ast.BoolOp)",
         "operator_fn = operator_mapping[type(node.op)]\n"
         f"left_expr = {REC.format('node.values[0]')}\n"
         "for right in node.values[1:]:\n"
         f"    right_expr = {REC.format('right')}\n"
         "    left_expr = operator_fn(left_expr, right_expr)\n"
         "return left_expr"): "boolOpFoldLeft",
        ("isinstance(node, ast.Compare)",
         "expressions = []\n"
         f"left_expr = {REC.format('node.left')}\n"
         "for right_op, right in zip(node.ops, node.comparators):\n"
         f"    right_expr = {REC.format('right')}\n"
         "    operator_fn = operator_mapping[type(right_op)]\n"
         "    expression = operator_fn(left_expr, right_expr)\n"
         "    left_expr = right_expr\n"
         "    expressions.append(expression)\n"
         "return reduce(custom_and, expressions)"): "compareLinksAnd",
        ("isinstance(node, ast.UnaryOp) and isinstance(node.op, ast.Not)",
         f"operand_expr = {REC.format('node.operand')}\n"
         "return operator_mapping[type(node.op)](operand_expr)"): "unaryNot",
        ("isinstance(node, ast.Name)", "return variable_hook(node.id)"): "name",
        ("isinstance(node, ast.Constant)", "return build_constant(node.value)"): "constant",
        ("hasattr(ast, 'NameConstant') and isinstance(node, ast.NameConstant)", "return build_constant(node.value)"): "legacyConstant",
        ("hasattr(ast, 'Str') and isinstance(node, ast.Str)", "return build_constant(node.s)"): "legacyConstant",
        ("hasattr(ast, 'Num') and isinstance(node, ast.Num)", "return build_constant(node.n)"): "legacyConstant",
    }
    branches = []
    node = body[0]
    while True:
        key = (ast.unparse(node.test), "\n".join(ast.unparse(x) for x in node.body))
        if key not in known:
            raise Untranslatable(f"build_expression: branch at line {node.lineno} not recognised: {key[0]!r}")
        branches.append(known[key])
        if len(node.orelse) == 1 and isinstance(node.orelse[0], ast.If):
            node = node.orelse[0]
            continue
        tail = "\n".join(ast.unparse(x) for x in node.orelse)
        if not re.match(r"^raise ValueError\(.*\)$", tail, flags=re.S):
            raise Untranslatable(f"build_expression: final else: {tail!r}")
        branches.append("unsupported")
        break
    # operator_mapping
    mapping = None
    repl = None
    for n in tree.body:
        if isinstance(n, ast.Assign) and len(n.targets) == 1 and isinstance(n.targets[0], ast.Name):
            if n.targets[0].id == "operator_mapping" and isinstance(n.value, ast.Dict):
                mapping = sorted((ast.unparse(k), ast.unparse(v)) for k, v in zip(n.value.keys, n.value.values))
            if n.targets[0].id == "replacements" and isinstance(n.value, ast.Dict):
                repl = sorted((k.value, v.value) for k, v in zip(n.value.keys, n.value.values)
                              if isinstance(k, ast.Constant) and isinstance(v, ast.Constant))
    if mapping is None or repl is None:
        raise Untranslatable("operator_mapping / replacements not found")
    # parse_boolean_expr
    pb = _fn(tree, "parse_boolean_expr")
    if [x.arg for x in pb.args.args] != ["expr", "variable_hook", "operator_mapping"]:
        raise Untranslatable("parse_boolean_expr: parameters")
    Q = {
        "if expr.strip() == '':\n    raise SyntaxError('Empty expression')": "rejectBlank",
        "if expr.isidentifier() and (not iskeyword(expr)):\n    return variable_hook(expr)": "fastPathName",
        "expr = replace_operators(expr)": "replaceOperators",
        "tree = ast.parse(expr, mode='eval')": "parseEval",
        "return build_expression(tree.body, variable_hook, operator_mapping)": "build",
    }
    parse = []
    for st in pb.body:
        if isinstance(st, ast.Expr) and isinstance(st.value, ast.Constant):
            continue
        t = ast.unparse(st)
        if t not in Q:
            raise Untranslatable(f"parse_boolean_expr: statement at line {st.lineno}: {t!r}")
        parse.append(Q[t])

    def pairs(xs):
        return "[" + ", ".join(f'("{a}", "{b}")' for a, b in xs) + "]"
    return ("{\n"
            f"  notB := .{notB}, andB := .{andB}, orB := .{orB}, constB := .{constB}, cmpB := .{cmpB},\n"
            f"  branches := [{', '.join('.' + b for b in branches)}],\n"
            f"  mapping := {pairs(mapping)},\n"
            f"  parse := [{', '.join('.' + q for q in parse)}],\n"
            f"  replacements := {pairs(repl)} }}")


# ----------------------------------------------------------------------------------------- signature.py

KINDS = {"POSITIONAL_ONLY": "po", "POSITIONAL_OR_KEYWORD": "pk", "VAR_POSITIONAL": "vp", "KEYWORD_ONLY": "ko",
         "VAR_KEYWORD": "vk"}


def _bcond(node, env):
    """a test on the current parameter -> BCond"""
    if isinstance(node, ast.BoolOp):
        op = ".and" if isinstance(node.op, ast.And) else ".or"
        parts = [_bcond(v, env) for v in node.values]
        acc = parts[0]
        for q in parts[1:]:
            acc = f"({op} {acc} {q})"
        return acc
    t = text(node, env).replace("PNAME", "PARAM.name")
    m = re.match(r"^PARAM\.kind (==|!=|is|is not) Parameter\.(\w+)$", t)
    if m and m.group(2) in KINDS:
        return f"(.kind{'Is' if m.group(1) in ('==', 'is') else 'Ne'} .{KINDS[m.group(2)]})"
    if t == "PARAM.name in K":
        return ".nameInKw"
    if t in ("PARAM.default is not Parameter.empty", "PARAM.default != Parameter.empty"):
        return ".hasDefault"
    raise Untranslatable(f"bind_expected: test at line {node.lineno} not recognised: {t!r}")


def _pure_message(node, env):
    """`msg = '…'` / `msg = msg.format(arg=param.name)`: builds the text of the TypeError, touches nothing else"""
    if not (isinstance(node, ast.Assign) and len(node.targets) == 1 and isinstance(node.targets[0], ast.Name)):
        return False
    v = node.value
    if isinstance(v, ast.Constant) and isinstance(v.value, str):
        return True
    t = text(v, env).replace("PNAME", "PARAM.name")
    return bool(re.match(r"^(\w+)\.format\(arg=PARAM\.name\)$", t)) and t.startswith(node.targets[0].id + ".")


def _bblock(stmts, env, have_arg):
    out = []
    i = 0
    while i < len(stmts):
        s = stmts[i]
        i += 1
        if isinstance(s, ast.Pass):
            continue
        if isinstance(s, ast.Break):
            out.append(".act .brk")
            continue
        if isinstance(s, ast.Continue):
            out.append(".act .cont")
            continue
        if isinstance(s, ast.If):
            c = _bcond(s.test, env)
            out.append(f".ite {c} {_bblock(s.body, env, have_arg)} {_bblock(s.orelse, env, have_arg)}")
            continue
        if _pure_message(s, env):
            continue
        t = text(s, env).replace("PNAME", "PARAM.name")
        if re.match(r"^raise TypeError\(\w*\)( from None)?$", t):
            out.append(".act .raiseTypeError")
            continue
        if t == "EX = (PARAM,)":
            out.append(".act .pushBack")
            continue
        if t == "VK = PARAM":
            out.append(".act .rememberVk")
            continue
        m = re.match(r"^(\w+) = PARAM\.name$", t)
        if m:
            bind(env, m.group(1), "PNAME")
            continue
        m = re.match(r"^(\w+) = \[ARG\]$", t)
        if m and have_arg and i + 1 < len(stmts) + 0 and \
                text(stmts[i], env) == f"{m.group(1)}.extend(AVS)" and \
                text(stmts[i + 1], env).replace("PNAME", "PARAM.name") == f"ARGUMENTS[PARAM.name] = tuple({m.group(1)})":
            i += 2
            out.append(".act .fillVarPos")
            continue
        if t == "ARGUMENTS[PARAM.name] = K.pop(PARAM.name)":
            out.append(".act .assignPop")
            continue
        if t == "ARGUMENTS[PARAM.name] = ARG" and have_arg:
            out.append(".act .assignArg")
            continue
        m = re.match(r"^try:\n    (\w+) = K\.pop\(PARAM\.name\)\nexcept KeyError:\n    pass\nelse:\n"
                     r"    ARGUMENTS\[PARAM\.name\] = \1$", t)
        if m:
            out.append(".act .popIfPresent")
            continue
        raise Untranslatable(f"bind_expected: statement at line {s.lineno} not recognised: {t!r}")
    return "(B.blk [" + ", ".join(out) + "])"


def _next_param(tr, env):
    """`try: param = next(parameters)` / `except StopIteration: break` / `else: <block>` -> the else block"""
    if not (isinstance(tr, ast.Try) and len(tr.body) == 1 and len(tr.handlers) == 1 and not tr.finalbody):
        raise Untranslatable(f"bind_expected: line {tr.lineno}: not `try: param = next(parameters)`")
    m = re.match(r"^(\w+) = next\(PARAMS\)$", text(tr.body[0], env))
    h = tr.handlers[0]
    hb = [x for x in h.body if not isinstance(x, ast.Pass)]
    if not m or h.type is None or ast.unparse(h.type) != "StopIteration" or len(hb) != 1 \
            or not isinstance(hb[0], ast.Break):
        raise Untranslatable(f"bind_expected: line {tr.lineno}: not `param = next(parameters)` / `except StopIteration: break`")
    if m.group(1) != "PARAM":
        bind(env, m.group(1), "PARAM")
    return tr.orelse


def tr_bind(fn):
    body, env = prepare_star(fn)
    out = []

    def plain(s):   # annotations on an assignment do not matter
        if isinstance(s, ast.AnnAssign) and s.value is not None and isinstance(s.target, ast.Name):
            s2 = ast.Assign(targets=[s.target], value=s.value, lineno=s.lineno)
            return ast.fix_missing_locations(s2)
        return s
    for s in body:
        s = plain(s)
        t = text(s, env)
        for pat, canon, stmt in ((r"^(\w+) = \{\}$", "ARGUMENTS", ".initArguments"),
                                 (r"^(\w+) = iter\(self\.parameters\.values\(\)\)$", "PARAMS", ".iterParameters"),
                                 (r"^(\w+) = iter\(A\)$", "AVS", ".iterArgs"),
                                 (r"^(\w+) = \(\)$", "EX", ".initEx"),
                                 (r"^(\w+) = None$", "VK", ".initVk")):
            m = re.match(pat, t)
            if m:
                bind(env, m.group(1), canon)
                out.append(stmt)
                break
        else:
            if isinstance(s, ast.While):
                if ast.unparse(s.test) != "True" or s.orelse or len(s.body) != 1 or not isinstance(s.body[0], ast.Try):
                    raise Untranslatable(f"bind_expected: the loop at line {s.lineno} is not `while True: try: …`")
                tr = s.body[0]
                m = re.match(r"^(\w+) = next\(AVS\)$", text(tr.body[0], env)) if len(tr.body) == 1 else None
                if not m or len(tr.handlers) != 1 or tr.finalbody or tr.handlers[0].type is None \
                        or ast.unparse(tr.handlers[0].type) != "StopIteration" \
                        or len(tr.handlers[0].body) != 1 or len(tr.orelse) != 1:
                    raise Untranslatable(f"bind_expected: line {tr.lineno}: not `try: arg_val = next(arg_vals)` / "
                                         "`except StopIteration:` / `else:`")
                bind(env, m.group(1), "ARG")
                e1 = dict(env)
                no_arg = _bblock(_next_param(tr.handlers[0].body[0], e1), e1, False)
                e2 = dict(env)
                with_arg = _bblock(_next_param(tr.orelse[0], e2), e2, True)
                for e in (e1, e2):
                    for k, v in e.items():
                        if v == "PARAM" and k not in env:
                            bind(env, k, "PARAM")
                out.append(f".whileLoop {no_arg} {with_arg}")
                continue
            if isinstance(s, ast.For):
                if not isinstance(s.target, ast.Name) or s.orelse or text(s.iter, env) != "chain(EX, PARAMS)":
                    raise Untranslatable(f"bind_expected: loop header at line {s.lineno}: {t.splitlines()[0]!r}")
                lenv = {k: v for k, v in env.items() if v not in ("ARG", "PARAM")}
                bind(lenv, s.target.id, "PARAM")
                out.append(f".forRest {_bblock(s.body, lenv, False)}")
                continue
            if t in ("if K:\n    if VK is not None:\n        ARGUMENTS[VK.name] = K\n    else:\n        pass",
                     "if K:\n    if VK is not None:\n        ARGUMENTS[VK.name] = K",
                     "if K and VK is not None:\n    ARGUMENTS[VK.name] = K"):
                out.append(".storeRestKw")
                continue
            if t == "return BoundArguments(self, ARGUMENTS)":
                out.append(".retBound")
                continue
            raise Untranslatable(f"bind_expected: statement at line {s.lineno} not recognised: {t!r}")
    return "[\n  " + ",\n  ".join(out) + "]"


def tr_callable(tree):
    """`callable_method(a_callable)`: which adapter it asks for and what the two closures do"""
    fn = _fn(tree, "callable_method")
    if [x.arg for x in fn.args.args] != ["a_callable"] or fn.args.vararg or fn.args.kwarg:
        raise Untranslatable("callable_method: parameters")
    env = {}
    pre = []
    closures = {}
    post = []
    for s in fn.body:
        if isinstance(s, ast.Expr) and isinstance(s.value, ast.Constant):
            continue
        t = text(s, env)
        m = re.match(r"^(\w+) = SignatureAdapter\.from_callable\(a_callable\)$", t)
        if m:
            bind(env, m.group(1), "SIG")
            pre.append(".adapterOfCallable")
            continue
        m = re.match(r"^(\w+) = SIG\.bind_expected$", t)
        if m:
            bind(env, m.group(1), "BIND")
            continue
        if re.match(r"^\w+ = a_callable\.func if isinstance\(a_callable, partial\) else a_callable$", t):
            continue    # only feeds __name__ / __doc__ below
        if isinstance(s, ast.If) and text(s.test, env) == "SIG.is_coroutine" and len(s.body) == 1 and len(s.orelse) == 1:
            for arm, want_async in ((s.body[0], True), (s.orelse[0], False)):
                if not isinstance(arm, ast.AsyncFunctionDef if want_async else ast.FunctionDef):
                    raise Untranslatable("callable_method: the coroutine arm must be `async def`, the other `def`")
                a = arm.args
                if a.args or not a.vararg or not a.kwarg or a.kwonlyargs or arm.decorator_list:
                    raise Untranslatable("callable_method: adapter parameters")
                cenv = dict(env)
                cenv[a.vararg.arg] = "A"
                cenv[a.kwarg.arg] = "K"
                st = []
                for b in arm.body:
                    bt = text(b, cenv).replace("SIG.bind_expected", "BIND")
                    m = re.match(r"^(\w+) = BIND\(\*A, \*\*K\)$", bt)
                    if m:
                        bind(cenv, m.group(1), "BA")
                        st.append(".bindExpected")
                        continue
                    if bt == "return a_callable(*BA.args, **BA.kwargs)":
                        st.append(".retCall false")
                        continue
                    if bt == "return await a_callable(*BA.args, **BA.kwargs)":
                        st.append(".retCall true")
                        continue
                    raise Untranslatable(f"callable_method: adapter statement at line {b.lineno}: {bt!r}")
                closures[want_async] = (arm.name, "[" + ", ".join(st) + "]")
            if closures[True][0] != closures[False][0]:
                raise Untranslatable("callable_method: the two adapters have different names")
            env[closures[True][0]] = "ADAPTER"
            continue
        if re.match(r"^ADAPTER\.__(name|doc)__ = \w+\.__\1__$", t):
            continue
        if t == "ADAPTER.is_coroutine = SIG.is_coroutine":
            post.append(".markCoroutine")
            continue
        if t == "return ADAPTER":
            post.append(".retAdapter")
            continue
        raise Untranslatable(f"callable_method: statement at line {s.lineno} not recognised: {t!r}")
    if True not in closures:
        raise Untranslatable("callable_method: no `if sig.is_coroutine:` with the two adapters")
    return ("{ pre := [" + ", ".join(pre) + "], asyncBody := " + closures[True][1] + ", syncBody := " + closures[False][1]
            + ", post := [" + ", ".join(post) + "] }")


# ----------------------------------------------------------------------------------------- graph.py, factory.py checks

class _CompVars(ast.NodeTransformer):
    """comprehension variables renamed X0, X1, … in order of appearance (their names do not matter)"""

    def __init__(self):
        self.map = {}

    def _comp(self, node):
        for g in node.generators:
            if isinstance(g.target, ast.Name) and g.target.id not in self.map:
                self.map[g.target.id] = f"X{len(self.map)}"
        return self.generic_visit(node)

    visit_ListComp = visit_GeneratorExp = visit_SetComp = visit_DictComp = _comp

    def visit_Name(self, node):
        if node.id in self.map:
            return ast.copy_location(ast.Name(id=self.map[node.id], ctx=node.ctx), node)
        return node


def ntext(node, env=None):
    """source text with locals renamed by `env` and comprehension variables canonical"""
    n = copy.deepcopy(node)
    if env:
        n = _Rename(env).visit(n)
    return ast.unparse(_CompVars().visit(n))


def _body(fn):
    return [s for s in fn.body if not (isinstance(s, ast.Expr) and isinstance(s.value, ast.Constant)
                                       and isinstance(s.value.value, str))]


def tr_visit(tree):
    fn = _fn(tree, "visit_connected_states")
    if len(fn.args.args) != 1 or fn.args.vararg or fn.args.kwarg or fn.decorator_list:
        raise Untranslatable("visit_connected_states: parameters")
    env = {fn.args.args[0].arg: "STATE"}
    out = []
    for s in _body(fn):
        t = ntext(s, env)
        m = re.match(r"^(\w+) = deque\(\)$", t)
        if m:
            bind(env, m.group(1), "VISIT")
            out.append(".initDeque")
            continue
        m = re.match(r"^(\w+) = set\(\)$", t)
        if m:
            bind(env, m.group(1), "SEEN")
            out.append(".initVisited")
            continue
        if t == "VISIT.append(STATE)":
            out.append(".pushStart")
            continue
        if isinstance(s, ast.While) and not s.orelse and ntext(s.test, env) == "VISIT":
            lb = []
            for b in s.body:
                bt = ntext(b, env)
                k = {"STATE = VISIT.popleft()": ".popLeft",
                     "if STATE in SEEN:\n    continue": ".skipIfVisited",
                     "SEEN.add(STATE)": ".markVisited",
                     "yield STATE": ".yieldState",
                     "VISIT.extend((X0.target for X0 in STATE.transitions))": ".extendTargets",
                     "VISIT.extend([X0.target for X0 in STATE.transitions])": ".extendTargets"}.get(bt)
                if k is None:
                    raise Untranslatable(f"visit_connected_states: loop statement at line {b.lineno}: {bt!r}")
                lb.append(k)
            out.append(".whileNonEmpty [" + ", ".join(lb) + "]")
            continue
        raise Untranslatable(f"visit_connected_states: statement at line {s.lineno} not recognised: {t!r}")
    return "[" + ", ".join(out) + "]"


ISSUES = {
    "[X0 for X0 in cls.states if X0.initial]": "initials",
    "[X0 for X0 in cls.final_states if X0.transitions]": "finalsWithTransitions",
    "cls._disconnected_states(cls.initial_state)": "disconnected",
    "[X0 for X0 in cls.states if not X0.final and (not X0.transitions)]": "trapStates",
    "cls._states_without_path_to_final_states()": "noPathToFinal",
}
HELPERS = {   # helper methods an issue expression goes through: name -> (parameters, canonical body)
    "_disconnected_states": (["cls", "P0"], ["L0 = set(visit_connected_states(P0))", "return set(cls.states) - L0"]),
    "_states_without_path_to_final_states": (["cls"], [
        "return [X0 for X0 in cls.states if not X0.final and (not any((X1.final for X1 in visit_connected_states(X0))))]"]),
}
ISSUE_NEEDS = {"disconnected": "_disconnected_states", "noPathToFinal": "_states_without_path_to_final_states"}


def _check_helper(repo, name):
    fn = method(repo, "statemachine/factory.py", "StateMachineMetaclass", name)
    params, want = HELPERS[name]
    names = [a.arg for a in fn.args.args]
    if len(names) != len(params) or fn.args.vararg or fn.args.kwarg or fn.decorator_list:
        raise Untranslatable(f"{name}: parameters")
    env = {n: p for n, p in zip(names, params) if n != p}
    got = []
    k = 0
    for s in _body(fn):
        if isinstance(s, ast.Assign) and len(s.targets) == 1 and isinstance(s.targets[0], ast.Name) \
                and s.targets[0].id not in env.values():
            env[s.targets[0].id] = f"L{k}"
            k += 1
        got.append(ntext(s, env))
    if got != want:
        raise Untranslatable(f"{name}: body {got!r}")


def _names_ids(node, var):
    """the message lists exactly the ids of the states in `var`"""
    return f"[X0.id for X0 in {var}]" in ntext(node, {})


def _check_fn(repo, name):
    fn = method(repo, "statemachine/factory.py", "StateMachineMetaclass", name)
    if [a.arg for a in fn.args.args] != ["cls"] or fn.args.vararg or fn.args.kwarg or fn.decorator_list:
        raise Untranslatable(f"{name}: parameters")
    body = _body(fn)
    skip = False
    if body and ntext(body[0]) in ("if not any((X0.final for X0 in cls.states)):\n    return",
                                   "if not any([X0.final for X0 in cls.states]):\n    return",
                                   "if not cls.final_states:\n    return"):
        skip = True
        body = body[1:]
    if len(body) != 2 or not isinstance(body[0], ast.Assign) or len(body[0].targets) != 1 \
            or not isinstance(body[0].targets[0], ast.Name) or not isinstance(body[1], ast.If) or body[1].orelse:
        raise Untranslatable(f"{name}: not `xs = <list>` followed by one `if`")
    var = body[0].targets[0].id
    issue = ISSUES.get(ntext(body[0].value))
    if issue is None:
        raise Untranslatable(f"{name}: the list {ntext(body[0].value)!r}")
    if issue in ISSUE_NEEDS:
        _check_helper(repo, ISSUE_NEEDS[issue])
    test = ast.unparse(body[1].test)
    trig = {f"len({var}) != 1": "lenNeOne", var: "nonEmpty", f"len({var}) > 0": "nonEmpty"}.get(test)
    if trig is None:
        raise Untranslatable(f"{name}: test {test!r}")
    ib = body[1].body
    if len(ib) == 1 and isinstance(ib[0], ast.Raise) and ib[0].exc is not None \
            and re.match(r"^InvalidDefinition\(", ast.unparse(ib[0].exc)) and _names_ids(ib[0].exc, var):
        mode = "raise"
    elif len(ib) == 2 and isinstance(ib[0], ast.Assign) and len(ib[0].targets) == 1 \
            and isinstance(ib[0].targets[0], ast.Name) and _names_ids(ib[0].value, var) \
            and re.match(r"^if cls\._strict_states:\n    raise InvalidDefinition\(MSG\)\nelse:\n"
                         r"    warnings\.warn\(MSG, UserWarning(, stacklevel=\d+)?\)$",
                         text(ib[1], {ib[0].targets[0].id: "MSG"})):
        mode = "strictOrWarn"
    else:
        raise Untranslatable(f"{name}: what happens to the list: {ast.unparse(body[1])!r}")
    return f"⟨{B(skip)}, .{issue}, .{trig}, .{mode}⟩"


def tr_check(fn, repo):
    if [a.arg for a in fn.args.args] != ["cls"] or fn.args.vararg or fn.args.kwarg or fn.decorator_list:
        raise Untranslatable("_check: parameters")
    env = {}
    out = []
    for s in _body(fn):
        t = text(s, env)
        m = re.match(r"^(\w+) = bool\(cls\.states\)$", t)
        if m:
            bind(env, m.group(1), "HS")
            out.append(".readHasStates")
            continue
        m = re.match(r"^(\w+) = bool\(cls\._events\)$", t)
        if m:
            bind(env, m.group(1), "HE")
            out.append(".readHasEvents")
            continue
        if t in ("cls._abstract = not HS and (not HE)", "cls._abstract = not (HS or HE)"):
            out.append(".setAbstract")
            continue
        if t == "if cls._abstract:\n    return":
            out.append(".returnIfAbstract")
            continue
        if re.match(r"^if not HS:\n    raise InvalidDefinition\(.*\)$", t, flags=re.S):
            out.append(".raiseUnlessStates")
            continue
        if re.match(r"^if not HE:\n    raise InvalidDefinition\(.*\)$", t, flags=re.S):
            out.append(".raiseUnlessEvents")
            continue
        m = re.match(r"^cls\.(_check_\w+)\(\)$", t)
        if m:
            out.append(".call " + _check_fn(repo, m.group(1)))
            continue
        raise Untranslatable(f"_check: statement at line {s.lineno} not recognised: {t!r}")
    return "[\n  " + ",\n  ".join(out) + "]"


def tr_metainit(fn):
    """`StateMachineMetaclass.__init__`: the order in which the class is put together and checked"""
    out = []

    class _NoAnn(ast.NodeTransformer):   # annotations on an assignment do not matter
        def visit_AnnAssign(self, node):
            if node.value is None:
                return node
            return ast.copy_location(ast.Assign(targets=[node.target], value=node.value, lineno=node.lineno), node)
    for s in _body(fn):
        if isinstance(s, ast.Expr) and isinstance(s.value, ast.Constant) and isinstance(s.value.value, str):
            continue    # a string used as a comment
        s = ast.fix_missing_locations(_NoAnn().visit(copy.deepcopy(s)))
        t = ntext(s)
        fixed = {"super().__init__(name, bases, attrs)": ".superInit",
                 "registry.register(cls)": ".register",
                 "cls.add_inherited(bases)": ".addInherited",
                 "cls.add_from_attributes(attrs)": ".addFromAttributes",
                 "cls._update_event_references()": ".updateEventReferences",
                 "try:\n    cls.initial_state = next((X0 for X0 in cls.states if X0.initial))\n"
                 "except StopIteration:\n    cls.initial_state = None": ".setInitialState",
                 "cls.final_states = [X0 for X0 in cls.states if X0.final]": ".setFinalStates",
                 "cls._check()": ".check",
                 "cls._setup()": ".setup"}.get(t)
        if fixed:
            out.append(fixed)
            continue
        m = re.match(r"^cls\.(\w+) = (States\(\)|\{\}|set\(\)|True|strict_states|cls\.__name__)$", t)
        if m:
            out.append(f'.initField "{m.group(1)}"')
            continue
        raise Untranslatable(f"StateMachineMetaclass.__init__: statement at line {s.lineno} not recognised: {t!r}")
    return "[" + ", ".join(out) + "]"


def tr_transinit(fn):
    """`Transition.__init__`: the internal-transition test and which keyword feeds which callback group"""
    a = fn.args
    params = [x.arg for x in a.args]
    if params[:3] != ["self", "source", "target"] or a.vararg or a.kwarg:
        raise Untranslatable("Transition.__init__: parameters")
    out = []
    for s in _body(fn):
        t = ast.unparse(s)
        m = re.match(r"^self\.(source|target|internal) = \1$", t)
        if m:
            out.append(f'.field "{m.group(1)}"')
            continue
        if re.match(r"^if internal and source is not target:\n    raise InvalidDefinition\(.*\)$", t, flags=re.S):
            out.append(".rejectInternalNonSelf")
            continue
        if t == "self._events = Events().add(event)":
            out.append(".initEvents")
            continue
        if t == "self._specs = CallbackSpecList()":
            out.append(".initSpecs")
            continue
        m = re.match(r"^self\.(\w+) = self\._specs\.grouper\(CallbackGroup\.(\w+)\)((?:\.add\([^()]*\))+)$", t)
        if m:
            adds = []
            for am in re.finditer(r"\.add\((\w+), priority=CallbackPriority\.INLINE(?:, expected_value=(True|False))?\)",
                                  m.group(3)):
                exp = {"True": "some true", "False": "some false", None: "none"}[am.group(2)]
                adds.append(f'("{am.group(1)}", {exp})')
            if len(adds) != m.group(3).count(".add("):
                raise Untranslatable(f"Transition.__init__: line {s.lineno}: {t!r}")
            out.append(f'.group "{m.group(1)}" "{m.group(2)}" [{", ".join(adds)}]')
            continue
        raise Untranslatable(f"Transition.__init__: statement at line {s.lineno} not recognised: {t!r}")
    return "[\n  " + ",\n  ".join(out) + "]"


# ----------------------------------------------------------------------------------------- statemachine.py

def _prop_fn(repo, name, setter=False):
    """the getter (or setter) of the property `name` of class StateMachine"""
    path = os.path.join(repo, "statemachine/statemachine.py")
    try:
        tree = ast.parse(_read(path, repo))
    except (OSError, SyntaxError) as e:
        raise Untranslatable(f"cannot parse statemachine.py: {e}")
    for c in tree.body:
        if isinstance(c, ast.ClassDef) and c.name == "StateMachine":
            want = f"{name}.setter" if setter else "property"
            found = [f for f in c.body if isinstance(f, ast.FunctionDef) and f.name == name
                     and [ast.unparse(d) for d in f.decorator_list] == [want]]
            if len(found) != 1:
                raise Untranslatable(f"StateMachine.{name}: {len(found)} definitions decorated @{want}")
            return found[0]
    raise Untranslatable("class StateMachine not found")


def _stmts(fn, table, what, env=None):
    out = []
    for s in _body(fn):
        t = ntext(s, env)
        k = table.get(t)
        if k is None:
            for pat, val in table.items():
                if pat.startswith("re:") and re.match(pat[3:], t, flags=re.S):
                    k = val
                    break
        if k is None:
            raise Untranslatable(f"{what}: statement at line {s.lineno} not recognised: {t!r}")
        if k:
            out.append(k)
    return "[" + ", ".join(out) + "]"


def tr_store(repo):
    """the functions of statemachine.py that read and write the model field -> StoreScript"""
    vget = _stmts(_prop_fn(repo, "current_state_value"),
                  {"return getattr(self.model, self.state_field, None)": ".retGetattrOrNone"}, "current_state_value")
    fn = _prop_fn(repo, "current_state_value", setter=True)
    if [a.arg for a in fn.args.args] != ["self", "value"]:
        raise Untranslatable("current_state_value.setter: parameters")
    vset = _stmts(fn, {"if value not in self.states_map:\n    raise InvalidStateValue(value)": ".raiseUnlessMapped",
                       "setattr(self.model, self.state_field, value)": ".setattr"}, "current_state_value.setter")
    fn = _prop_fn(repo, "current_state")
    body = _body(fn)
    ok = len(body) == 1 and isinstance(body[0], ast.Try) and not body[0].finalbody and not body[0].orelse \
        and len(body[0].handlers) == 1 and ast.unparse(body[0].handlers[0].type or ast.Constant(None)) == "KeyError"
    if ok:
        tb = [ntext(x) for x in body[0].body]
        tb = [re.sub(r"^state: State = ", "state = ", x) for x in tb]
        ok = tb in (["state = self.states_map[self.current_state_value].for_instance(machine=self, cache=self._states_for_instance)",
                     "return state"],
                    ["return self.states_map[self.current_state_value].for_instance(machine=self, cache=self._states_for_instance)"])
        hb = body[0].handlers[0].body
        # every way out of the handler raises InvalidStateValue carrying the stored value
        def raises_invalid(stmts):
            if not stmts:
                return False
            last = stmts[-1]
            if isinstance(last, ast.Raise) and last.exc is not None \
                    and re.match(r"^InvalidStateValue\(self\.current_state_value\b", ast.unparse(last.exc)):
                return all(isinstance(x, ast.If) and raises_invalid(x.body) and not x.orelse for x in stmts[:-1])
            return False
        ok = ok and raises_invalid(hb)
    if not ok:
        raise Untranslatable("current_state: not `try: return self.states_map[self.current_state_value].for_instance(…)` "
                             "/ `except KeyError: raise InvalidStateValue(…)`")
    sget = "[.lookupOrInvalid]"
    fn = _prop_fn(repo, "current_state", setter=True)
    if [a.arg for a in fn.args.args] != ["self", "value"]:
        raise Untranslatable("current_state.setter: parameters")
    sset = _stmts(fn, {"self.current_state_value = value.value": ".assignValueOf"}, "current_state.setter")
    fn = method(repo, "statemachine/statemachine.py", "StateMachine", "_get_initial_state")
    env = {}
    ig = []
    for st in _body(fn):
        t = ntext(st, env)
        m = re.match(r"^(\w+) = self\.start_value if self\.start_value is not None else self\.initial_state\.value$", t)
        m2 = re.match(r"^(\w+) = self\.start_value if self\.start_value else self\.initial_state\.value$", t) \
            or re.match(r"^(\w+) = self\.start_value or self\.initial_state\.value$", t)
        if m or m2:
            bind(env, (m or m2).group(1), "IV")
            ig.append(".chooseStart " + (".isNotNone" if m else ".truthy"))
            continue
        if re.match(r"^try:\n    return self\.states_map\[IV\]\nexcept KeyError as (\w+):\n    raise InvalidStateValue\(IV\) from \1$", t) \
                or t == "try:\n    return self.states_map[IV]\nexcept KeyError:\n    raise InvalidStateValue(IV)":
            ig.append(".lookupOrInvalid")
            continue
        raise Untranslatable(f"_get_initial_state: statement at line {st.lineno} not recognised: {t!r}")
    return ("{ vget := " + vget + ", vset := " + vset + ", sget := " + sget + ", sset := " + sset
            + ", iget := [" + ", ".join(ig) + "] }")


class _NoAnnotations(ast.NodeTransformer):
    def visit_AnnAssign(self, node):
        if node.value is None:
            return node
        return ast.copy_location(ast.Assign(targets=[node.target], value=node.value, lineno=node.lineno), node)


def _plain(fn):
    fn = copy.deepcopy(fn)
    fn.body = [ast.fix_missing_locations(_NoAnnotations().visit(s)) for s in fn.body]
    return fn


def tr_sminit(fn):
    a = fn.args
    names = [x.arg for x in a.args]
    if names != ["self", "model", "state_field", "start_value", "rtc", "allow_event_without_transition", "listeners"] \
            or a.vararg or a.kwarg:
        raise Untranslatable(f"StateMachine.__init__: parameters {names}")
    table = {
        "self.model = model if model is not None else Model()": ".chooseModel .isNotNone",
        "self.model = model if model else Model()": ".chooseModel .truthy",
        "self.model = model or Model()": ".chooseModel .truthy",
        "self.state_field = state_field": '.field "state_field"',
        "self.start_value = start_value": '.field "start_value"',
        "self.allow_event_without_transition = allow_event_without_transition": '.field "allow_event_without_transition"',
        "self._callbacks = CallbacksRegistry()": ".newRegistry",
        "self._states_for_instance = {}": ".newInstanceStates",
        "self._listeners = []": ".newListeners",
        "self._listener_passes = [tuple(listeners or ())]": ".firstPass",
        "re:^if self\\._abstract:\\n    raise InvalidDefinition\\(.*\\)$": ".raiseIfAbstract",
        "self._register_callbacks(listeners or [])": ".registerCallbacks",
        "self._engine = self._get_engine(rtc)": ".chooseEngine",
        "self._engine.start()": ".startEngine",
    }
    return _stmts(_plain(fn), table, "StateMachine.__init__")


def tr_register(fn):
    if [x.arg for x in fn.args.args] != ["self", "listeners"]:
        raise Untranslatable("_register_callbacks: parameters")
    table = {
        "self._remember_listeners(listeners)": ".remember",
        "self._add_listener(Listeners.from_listeners((Listener.from_obj(self, skip_attrs=self._protected_attrs), "
        "Listener.from_obj(self.model, skip_attrs={self.state_field}), "
        "*(Listener.from_obj(X0) for X0 in listeners))))": ".resolveMachineModelListeners",
        "check_callbacks = self._callbacks.check": "",
        "for visited in iterate_states_and_transitions(self.states):\n    try:\n        check_callbacks(visited._specs)\n"
        "    except Exception as err:\n        raise InvalidDefinition(f'Error on {visited!s} when resolving callbacks: {err}') from err":
            ".checkAll",
        "self._callbacks.async_or_sync()": ".asyncOrSync",
    }
    return _stmts(fn, table, "_register_callbacks")


def tr_addlistener(fn):
    if [x.arg for x in fn.args.args] != ["self"] or not fn.args.vararg or fn.args.vararg.arg != "listeners":
        raise Untranslatable("add_listener: parameters")
    table = {
        "self._remember_listeners(listeners)": ".remember",
        "self._listener_passes.append(tuple(listeners))": ".appendPass",
        "return self._add_listener(Listeners.from_listeners((Listener.from_obj(X0) for X0 in listeners)), "
        "allowed_references=SPECS_SAFE)": ".resolveListenersSafe",
    }
    return _stmts(fn, table, "add_listener")


def tr_getstate(fn):
    table = {
        "state = self.__dict__.copy()": ".copyDict",
        "state['_rtc'] = self._engine._rtc": '.put "_rtc"',
        "state['_state_value'] = self.current_state_value": '.put "_state_value"',
        "re:^del state\\['(_callbacks)'\\]$": '.del "_callbacks"',
        "del state['_states_for_instance']": '.del "_states_for_instance"',
        "del state['_engine']": '.del "_engine"',
        "return state": ".ret",
    }
    return _stmts(fn, table, "__getstate__")


def tr_setstate(fn):
    if [x.arg for x in fn.args.args] != ["self", "state"]:
        raise Untranslatable("__setstate__: parameters")
    table = {
        "listeners = state.pop('_listeners')": '.pop "_listeners"',
        "passes = state.pop('_listener_passes', None) or [tuple(listeners)]": '.pop "_listener_passes"',
        "rtc = state.pop('_rtc')": '.pop "_rtc"',
        "state_value = state.pop('_state_value', None)": '.pop "_state_value"',
        "self.__dict__.update(state)": ".updateDict",
        "if state_value is not None and getattr(self.model, self.state_field, None) is None:\n"
        "    setattr(self.model, self.state_field, state_value)": ".restoreStateIfModelEmpty",
        "self._callbacks = CallbacksRegistry()": ".newRegistry",
        "self._states_for_instance = {}": ".newInstanceStates",
        "self._listeners = []": ".newListeners",
        "self._listener_passes = [passes[0]]": ".firstPass",
        "self._register_callbacks(list(passes[0]))": ".registerFirstPass",
        "for late in passes[1:]:\n    self.add_listener(*late)": ".replayLatePasses",
        "self._engine = self._get_engine(rtc)": ".chooseEngine",
        "self._engine.start()": ".startEngine",
    }
    return _stmts(_plain(fn), table, "__setstate__")


def tr_allowed(repo):
    """`events` and `allowed_events`: which names are looked up on the instance"""
    a = _stmts(_prop_fn(repo, "allowed_events"),
               {"return [getattr(self, X0) for X0 in self.current_state.transitions.unique_events]": ".uniqueEventsOfCurrentState"},
               "allowed_events")
    e = _stmts(_prop_fn(repo, "events"),
               {"return [getattr(self, X0) for X0 in self.__class__._events]": ".declaredEventsOfClass"}, "events")
    return "{ allowed := " + a + ", events := " + e + " }"


# ----------------------------------------------------------------------------------------- the registry

def tr_registry(repo):
    """CallbacksExecutor.add, CallbackWrapper.__lt__, Listeners.search_name / resolve, CallbacksRegistry.check /
    async_or_sync -> R.RegScript"""
    M = lambda rel, cls, name: method(repo, rel, cls, name)
    cb, dp = "statemachine/callbacks.py", "statemachine/dispatcher.py"
    fn = M(cb, "CallbacksExecutor", "add")
    if [a.arg for a in fn.args.args] != ["self", "key", "spec", "builder"]:
        raise Untranslatable("CallbacksExecutor.add: parameters")
    env = {}
    add = []
    for st in _body(fn):
        t = ntext(st, env)
        m = re.match(r"^(\w+) = \(key, spec\.expected_value\)$", t)
        if m:
            bind(env, m.group(1), "SEEN")
            add.append(".seenKey")
            continue
        if t == "if SEEN in self.items_already_seen:\n    return":
            add.append(".returnIfSeen")
            continue
        if t == "self.items_already_seen.add(SEEN)":
            add.append(".markSeen")
            continue
        m = re.match(r"^(\w+) = spec\.cond if spec\.cond is not None else allways_true$", t)
        if m:
            bind(env, m.group(1), "COND")
            add.append(".conditionOrAlways")
            continue
        m = re.match(r"^(\w+) = CallbackWrapper\(callback=builder\(\), condition=COND, meta=spec, unique_key=key\)$", t)
        if m:
            bind(env, m.group(1), "WRAPPER")
            add.append(".wrap")
            continue
        if t == "insort(self.items, WRAPPER)":
            add.append(".insort")
            continue
        raise Untranslatable(f"CallbacksExecutor.add: statement at line {st.lineno} not recognised: {t!r}")
    # `insort` must be bisect's (insort_right)
    tree = ast.parse(_read(os.path.join(repo, cb), repo))
    if not any(isinstance(n, ast.ImportFrom) and n.module == "bisect" and any(a.name == "insort" and a.asname is None for a in n.names)
               for n in tree.body):
        raise Untranslatable("callbacks.py: `insort` is not `from bisect import insort`")
    fn = M(cb, "CallbackWrapper", "__lt__")
    lt = _stmts(fn, {"return self.meta.priority < other.meta.priority": ".priorityLess"}, "CallbackWrapper.__lt__")
    if lt != "[.priorityLess]":
        raise Untranslatable("CallbackWrapper.__lt__: " + lt)
    # build_key / from_obj: the key of a named callback is name@id(provider object)
    fn = M(dp, "Listener", "build_key")
    if _stmts(fn, {"return f'{attr_name}@{self.resolver_id}'": "k"}, "Listener.build_key") != "[k]":
        raise Untranslatable("Listener.build_key")
    fn = M(dp, "Listener", "from_obj")
    fo = [ntext(x) for x in _body(fn)]
    if fo != ["if isinstance(obj, Listener):\n    return obj\nelse:\n    if skip_attrs is None:\n        skip_attrs = set()\n"
              "    all_attrs = set(dir(obj)) - skip_attrs\n    return cls(obj, all_attrs, str(id(obj)))"]:
        raise Untranslatable(f"Listener.from_obj: {fo!r}")
    fn = M(dp, "Listeners", "search_name")
    body = _body(fn)
    if len(body) != 1 or not isinstance(body[0], ast.For) or ntext(body[0].iter) != "self.items" \
            or not isinstance(body[0].target, ast.Name) or body[0].orelse:
        raise Untranslatable("Listeners.search_name: not one loop over self.items")
    env = {body[0].target.id: "LST"}
    sn = []
    for st in body[0].body:
        t = ntext(st, env)
        if t == "if name not in LST.all_attrs:\n    continue":
            sn.append(".skipUnlessHasAttr")
            continue
        m = re.match(r"^(\w+) = LST\.build_key\(name\)$", t)
        if m:
            bind(env, m.group(1), "KEY")
            sn.append(".keyNameAtProvider")
            continue
        m = re.match(r"^(\w+) = getattr\(LST\.obj, name\)$", t)
        if m:
            bind(env, m.group(1), "FUNC")
            sn.append(".getattr")
            continue
        if t == "if not callable(FUNC):\n    yield (KEY, partial(attr_method, name, LST.obj))\n    continue":
            sn.append(".yieldAttrUnlessCallable")
            continue
        if t == "if isinstance(FUNC, Event):\n    yield (KEY, partial(event_method, FUNC))\n    continue":
            sn.append(".yieldEventMethod")
            continue
        if t == "yield (KEY, partial(callable_method, FUNC))":
            sn.append(".yieldCallable")
            continue
        raise Untranslatable(f"Listeners.search_name: statement at line {st.lineno} not recognised: {t!r}")
    fn = M(dp, "Listeners", "resolve")
    names = [a.arg for a in fn.args.args]
    if names != ["self", "specs", "registry", "allowed_references"]:
        raise Untranslatable(f"Listeners.resolve: parameters {names}")
    env = {}
    rs = []
    for st in _body(fn):
        t = ntext(st, env)
        m = re.match(r"^(\w+) = specs\.conventional_specs & self\.all_attrs$", t)
        if m:
            bind(env, m.group(1), "FOUND")
            rs.append(".conventionFilter")
            continue
        if isinstance(st, ast.For) and ntext(st.iter, env) == "specs" and isinstance(st.target, ast.Name) and not st.orelse:
            lenv = dict(env)
            lenv[st.target.id] = "SPEC"
            lb = []
            for b in st.body:
                bt = ntext(b, lenv)
                if bt == "if SPEC.reference not in allowed_references or (SPEC.is_convention and SPEC.func not in FOUND):\n    continue":
                    lb.append(".skipUnlessAllowedAndFound")
                    continue
                m = re.match(r"^(\w+) = registry\[specs\.grouper\(SPEC\.group\)\.key\]$", bt)
                if m:
                    lenv[m.group(1)] = "EXEC"
                    lb.append(".executorOfGroup")
                    continue
                if re.match(r"^for \(?(\w+), (\w+)\)? in self\.build\(SPEC\):\n    EXEC\.add\(\1, SPEC, \2\)$", bt):
                    lb.append(".addEachBuilt")
                    continue
                raise Untranslatable(f"Listeners.resolve: loop statement at line {b.lineno} not recognised: {bt!r}")
            rs.append(".forSpecs [" + ", ".join(lb) + "]")
            continue
        raise Untranslatable(f"Listeners.resolve: statement at line {st.lineno} not recognised: {t!r}")
    fn = M(cb, "CallbacksRegistry", "check")
    body = _body(fn)
    if len(body) != 1 or not isinstance(body[0], ast.For) or ntext(body[0].iter) != "specs" or body[0].orelse:
        raise Untranslatable("CallbacksRegistry.check: not one loop over specs")
    env = {body[0].target.id: "META"}
    ck = []
    for b in body[0].body:
        bt = ntext(b, env)
        if bt == "if META.is_convention:\n    continue":
            ck.append(".skipConventions")
        elif bt == "if any((X0 for X0 in self[META.group.build_key(specs)] if X0.meta == META)):\n    continue":
            ck.append(".continueIfResolved")
        elif re.match(r"^if META\.names_not_found:\n    raise AttrNotFound\(.*\)$", bt, flags=re.S):
            ck.append(".raiseNamesNotFound")
        elif re.match(r"^raise AttrNotFound\(.*META\.func.*\)$", bt, flags=re.S):
            ck.append(".raiseNotFound")
        else:
            raise Untranslatable(f"CallbacksRegistry.check: statement at line {b.lineno} not recognised: {bt!r}")
    fn = M(cb, "CallbacksRegistry", "async_or_sync")
    asy = _stmts(fn, {"self.has_async_callbacks = any((X1._iscoro for X0 in self._registry.values() for X1 in X0))":
                      ".anyCoroutineInAnyExecutor"}, "CallbacksRegistry.async_or_sync")
    return ("{\n  add := [" + ", ".join(add) + "], lt := .priorityLess, searchName := [" + ", ".join(sn) + "],\n  resolve := ["
            + ", ".join(rs) + "],\n  check := [" + ", ".join(ck) + "], asyncOrSync := " + asy + " }")


# ----------------------------------------------------------------------------------------- declaration layer

def tr_decl(repo):
    """events.py, transition.py (match, _copy_with_args), transition_list.py, state.py builders -> D.DeclScript"""
    M = lambda rel, cls, name: method(repo, rel, cls, name)
    ev, tr, tl, st = ("statemachine/events.py", "statemachine/transition.py", "statemachine/transition_list.py",
                      "statemachine/state.py")
    one = lambda fn, table, what: _stmts(fn, table, what)
    if one(M(ev, "Events", "match"), {"return any((X0 == event for X0 in self))": "k"}, "Events.match") != "[k]":
        raise Untranslatable("Events.match")
    if one(M(ev, "Events", "__iter__"), {"return iter(self._items)": "k"}, "Events.__iter__") != "[k]":
        raise Untranslatable("Events.__iter__")
    if one(M(tr, "Transition", "match"), {"return self._events.match(event)": "k"}, "Transition.match") != "[k]":
        raise Untranslatable("Transition.match")
    fn = M(tl, "TransitionList", "unique_events")
    if [ast.unparse(d) for d in fn.decorator_list] != ["property"]:
        raise Untranslatable("unique_events is not a property")
    env = {}
    uq = []
    for x in _body(fn):
        t = ntext(x, env)
        m = re.match(r"^(\w+) = \{\}$", t)
        if m:
            bind(env, m.group(1), "TMP")
            uq.append(".initDict")
            continue
        if re.match(r"^for (\w+) in self\.transitions:\n    for (\w+) in \1\.events:\n        TMP\[\2\] = True$", t):
            uq.append(".forTransitionsForEventsSetKey")
            continue
        if t in ("return list(TMP.keys())", "return list(TMP)"):
            uq.append(".retKeys")
            continue
        raise Untranslatable(f"unique_events: statement at line {x.lineno} not recognised: {t!r}")
    fn = M(ev, "Events", "add")
    ea = []
    for x in _body(fn):
        t = ntext(x)
        if t == "if events is None:\n    return self":
            ea.append(".returnSelfIfNone")
        elif t == "unprepared = ensure_iterable(events)":
            ea.append(".ensureIterable")
        elif t == ("for events in unprepared:\n    for event in events.split(' '):\n        if event in self._items:\n"
                   "            continue\n        if isinstance(event, Event):\n            self._items.append(event)\n"
                   "        else:\n            self._items.append(Event(id=event, name=event))"):
            ea.append(".forEachSplitOnSpace [.skipIfPresent, .appendEventOrNew]")
        elif t == ("for events in unprepared:\n    for event in events.split():\n        if event in self._items:\n"
                   "            continue\n        if isinstance(event, Event):\n            self._items.append(event)\n"
                   "        else:\n            self._items.append(Event(id=event, name=event))"):
            ea.append(".forEachSplitOnWhitespace [.skipIfPresent, .appendEventOrNew]")
        elif t == "return self":
            ea.append(".retSelf")
        else:
            raise Untranslatable(f"Events.add: statement at line {x.lineno} not recognised: {t!r}")
    er = one(M(ev, "Events", "_replace"), {"self._items.remove(old)": ".removeOld", "self._items.append(new)": ".appendNew"},
             "Events._replace")
    fn = M(st, "AnyState", "_on_event_defined")
    body = _body(fn)
    if len(body) != 1 or not isinstance(body[0], ast.For) or ntext(body[0].iter) != "states" or body[0].orelse \
            or not isinstance(body[0].target, ast.Name):
        raise Untranslatable("AnyState._on_event_defined: not one loop over states")
    env = {body[0].target.id: "STATE"}
    an = []
    for b in body[0].body:
        bt = ntext(b, env)
        if bt == "if STATE.final:\n    continue":
            an.append(".skipFinal")
            continue
        m = re.match(r"^(\w+) = transition\._copy_with_args\(source=STATE, event=event\)$", bt)
        if m:
            bind(env, m.group(1), "NEWT")
            an.append(".copyWithSourceAndEvent")
            continue
        if bt == "STATE.transitions.add_transitions(NEWT)":
            an.append(".addToState")
            continue
        raise Untranslatable(f"AnyState._on_event_defined: statement at line {b.lineno} not recognised: {bt!r}")
    fn = M(tr, "Transition", "_copy_with_args")
    cp = []
    for x in _body(fn):
        t = ntext(x)
        m = re.match(r"^(\w+) = kwargs\.pop\('(\w+)', self\.(\w+)\)$", t)
        if m and m.group(1) == m.group(2) == m.group(3):
            cp.append(f'.popOrOwn "{m.group(1)}"')
            continue
        if t == "new_transition = Transition(source=source, target=target, event=event, internal=internal, **kwargs)":
            cp.append(".newTransition")
            continue
        if t == "for spec in self._specs:\n    new_spec = copy(spec)\n    new_transition._specs.add(new_spec, new_spec.group)":
            cp.append(".forSpecsShallowCopySameGroup")
            continue
        if t == "return new_transition":
            cp.append(".ret")
            continue
        raise Untranslatable(f"_copy_with_args: statement at line {x.lineno} not recognised: {t!r}")
    tree = ast.parse(_read(os.path.join(repo, tr), repo))
    if not any(isinstance(n, ast.ImportFrom) and n.module == "copy" and any(a.name == "copy" and a.asname is None for a in n.names)
               for n in tree.body):
        raise Untranslatable("transition.py: `copy` is not `from copy import copy`")
    T = {"return TransitionList(self.transitions).add_transitions(other)": ".orIsNewListThenAdd",
         "if isinstance(transition, TransitionList):\n    transition = transition.transitions": ".unwrapList",
         "transitions = ensure_iterable(transition)": ".ensureIterable",
         "for transition in transitions:\n    assert isinstance(transition, Transition)\n    self.transitions.append(transition)":
             ".appendEachInOrder",
         "for transition in transitions:\n    self.transitions.append(transition)": ".appendEachInOrder",
         "return self": ".retSelf",
         "self.add_event(event)": ".addEventToAll",
         "for transition in self.transitions:\n    transition.source._on_event_defined(event=event, transition=transition, states=states)":
             ".tellEachSource",
         "for transition in self.transitions:\n    transition.add_event(event)": ".forTransitionsAddEvent"}
    tl_or = one(M(tl, "TransitionList", "__or__"), T, "TransitionList.__or__")
    tl_add = one(M(tl, "TransitionList", "add_transitions"), T, "TransitionList.add_transitions")
    tl_on = one(M(tl, "TransitionList", "_on_event_defined"), T, "TransitionList._on_event_defined")
    tl_ev = one(M(tl, "TransitionList", "add_event"), T, "TransitionList.add_event")
    Bd = {"transitions = TransitionList((Transition(self._state, X0, **kwargs) for X0 in states))": ".onePerTargetInOrder",
          "self._state.transitions.add_transitions(transitions)": ".addToOwnState",
          "transitions = TransitionList()": ".newList",
          "for origin in states:\n    transition = Transition(origin, self._state, **kwargs)\n"
          "    origin.transitions.add_transitions(transition)\n    transitions.add_transitions(transition)":
              ".onePerOriginAddedToOriginAndList",
          "return self.__call__(AnyState(), **kwargs)": ".callWithAnyState",
          "return transitions": ".ret"}
    to_call = one(M(st, "_ToState", "__call__"), Bd, "_ToState.__call__")
    from_call = one(M(st, "_FromState", "__call__"), Bd, "_FromState.__call__")
    from_any = one(M(st, "_FromState", "any"), Bd, "_FromState.any")
    return ("{\n  eventsMatch := .anyEqual, transitionMatch := .delegateToEvents,\n  uniqueEvents := [" + ", ".join(uq)
            + "],\n  eventsAdd := [" + ", ".join(ea) + "],\n  eventsReplace := " + er
            + ",\n  anyOnEventDefined := [" + ", ".join(an) + "],\n  copyWithArgs := [" + ", ".join(cp)
            + "],\n  tlOr := " + tl_or + ", tlAddTransitions := " + tl_add + ",\n  tlOnEventDefined := " + tl_on
            + ", tlAddEvent := " + tl_ev + ",\n  toCall := " + to_call + ", fromCall := " + from_call
            + ", fromAny := " + from_any + " }")


# ----------------------------------------------------------------------------------------- contrib/diagram.py

def tr_diagram(repo):
    rel = "statemachine/contrib/diagram.py"
    M = lambda name: method(repo, rel, "DotGraphMachine", name)
    fn = M("get_graph")
    env = {}
    gg = []
    for x in _body(fn):
        t = ntext(x, env)
        m = re.match(r"^(\w+) = self\._get_graph\(\)$", t)
        if m:
            bind(env, m.group(1), "GRAPH")
            gg.append(".newGraph")
            continue
        if t == "GRAPH.add_node(self._initial_node())":
            gg.append(".addInitialNode")
            continue
        if t == "GRAPH.add_edge(self._initial_edge())":
            gg.append(".addInitialEdge")
            continue
        if isinstance(x, ast.For) and ntext(x.iter, env) == "self.machine.states" and isinstance(x.target, ast.Name) and not x.orelse:
            le = dict(env)
            le[x.target.id] = "STATE"
            sl = []
            for b in x.body:
                bt = ntext(b, le)
                if bt == "GRAPH.add_node(self._state_as_node(STATE))":
                    sl.append(".addStateNode")
                    continue
                if isinstance(b, ast.For) and ntext(b.iter, le) == "STATE.transitions" and isinstance(b.target, ast.Name) and not b.orelse:
                    te = dict(le)
                    te[b.target.id] = "TR"
                    tb = []
                    for c in b.body:
                        ct = ntext(c, te)
                        k = {"if TR.internal:\n    continue": ".skipInternal",
                             "GRAPH.add_edge(self._transition_as_edge(TR))": ".addEdge"}.get(ct)
                        if k is None:
                            raise Untranslatable(f"get_graph: statement at line {c.lineno} not recognised: {ct!r}")
                        tb.append(k)
                    sl.append(".forTransitions [" + ", ".join(tb) + "]")
                    continue
                raise Untranslatable(f"get_graph: statement at line {b.lineno} not recognised: {bt!r}")
            gg.append(".forStates [" + ", ".join(sl) + "]")
            continue
        if t == "return GRAPH":
            gg.append(".ret")
            continue
        raise Untranslatable(f"get_graph: statement at line {x.lineno} not recognised: {t!r}")
    fn = M("_state_as_node")
    env = {}
    sn = []
    for x in _body(fn):
        t = ntext(x, env)
        m = re.match(r"^(\w+) = self\._state_actions\(state\)$", t)
        if m:
            bind(env, m.group(1), "ACTIONS")
            sn.append(".actions")
            continue
        m = re.match(r"^(\w+) = pydot\.Node\(state\.id, label=f'\{state\.name\}\{ACTIONS\}', shape='rectangle', "
                     r"style='rounded, filled', fontname=self\.font_name, fontsize=self\.state_font_size, "
                     r"peripheries=2 if state\.final else 1\)$", t)
        if m:
            bind(env, m.group(1), "NODE")
            sn.append(".mkNode")
            continue
        if t == ("if state == self._current_state():\n    NODE.set_penwidth(self.state_active_penwidth)\n"
                 "    NODE.set_fillcolor(self.state_active_fillcolor)\nelse:\n    NODE.set_fillcolor('white')"):
            sn.append(".highlightIffCurrent")
            continue
        if t == "return NODE":
            sn.append(".ret")
            continue
        raise Untranslatable(f"_state_as_node: statement at line {x.lineno} not recognised: {t!r}")
    fn = M("_transition_as_edge")
    env = {}
    te = []
    for x in _body(fn):
        t = ntext(x, env)
        m = re.match(r"^(\w+) = ', '\.join\(\[str\(X0\) for X0 in transition\.cond\]\)$", t) \
            or re.match(r"^(\w+) = ', '\.join\(\(str\(X0\) for X0 in transition\.cond\)\)$", t)
        if m:
            bind(env, m.group(1), "COND")
            te.append(".joinGuards")
            continue
        if t == "if COND:\n    COND = f'\\n[{COND}]'":
            te.append(".bracketIfAny")
            continue
        if t == ("return pydot.Edge(transition.source.id, transition.target.id, label=f'{transition.event}{COND}', "
                 "color='blue', fontname=self.font_name, fontsize=self.transition_font_size)"):
            te.append(".retEdge")
            continue
        raise Untranslatable(f"_transition_as_edge: statement at line {x.lineno} not recognised: {t!r}")
    cs = _stmts(M("_current_state"),
                {"if getattr(self.machine, 'current_state_value', None) is None:\n    return None": ".noneIfNoValue",
                 "return self.machine.current_state": ".retCurrentState"}, "_current_state")
    fn = M("_state_actions")
    env = {}
    sa = []
    for x in _body(fn):
        t = ntext(x, env)
        m = re.match(r"^(\w+) = self\._actions_getter\(\)$", t)
        if m:
            bind(env, m.group(1), "GETTER")
            sa.append(".getter")
            continue
        k = {"entry = str(GETTER(state.enter))": ".entryOfEnter",
             "exit_ = str(GETTER(state.exit))": ".exitOfExit",
             "internal = ', '.join((f'{X0.event} / {str(GETTER(X0.on))}' for X0 in state.transitions if X0.internal))":
                 ".internalsEventSlashOn",
             "if entry:\n    entry = f'entry / {entry}'": ".prefixEntry",
             "if exit_:\n    exit_ = f'exit / {exit_}'": ".prefixExit",
             "actions = '\\n'.join((X0 for X0 in [entry, exit_, internal] if X0))": ".joinNonEmptyLines",
             "if actions:\n    actions = f'\\n{actions}'": ".leadingNewlineIfAny",
             "return actions": ".ret"}.get(t)
        if k is None:
            raise Untranslatable(f"_state_actions: statement at line {x.lineno} not recognised: {t!r}")
        sa.append(k)
    fn = M("_initial_node")
    tx = "\n".join(ntext(x) for x in _body(fn))
    m = re.match(r"^node = pydot\.Node\('(\w+)', shape='circle', style='filled', fontsize='1', fixedsize='true', "
                 r"width=0\.2, height=0\.2\)\nnode\.set_fillcolor\('black'\)\nreturn node$", tx)
    if not m:
        raise Untranslatable(f"_initial_node: {tx!r}")
    ini = m.group(1)
    fn = M("_initial_edge")
    tx = "\n".join(ntext(x) for x in _body(fn))
    m = re.match(r"^return pydot\.Edge\('(\w+)', (self\.machine\.initial_state\.id), label='', color='blue', "
                 r"fontname=self\.font_name, fontsize=self\.transition_font_size\)$", tx)
    if not m:
        raise Untranslatable(f"_initial_edge: {tx!r}")
    return ("{\n  getGraph := [" + ", ".join(gg) + "],\n  stateAsNode := [" + ", ".join(sn) + "],\n  transitionAsEdge := ["
            + ", ".join(te) + "],\n  currentState := " + cs + ",\n  stateActions := [" + ", ".join(sa)
            + f'],\n  initialNode := "{ini}", initialEdge := ("{m.group(1)}", "{m.group(2)}") }}')


# ----------------------------------------------------------------------------------------- engines/base.py, event_data.py

def tr_eng(repo):
    base, sy, asy, ed = ("statemachine/engines/base.py", "statemachine/engines/sync.py", "statemachine/engines/async_.py",
                         "statemachine/event_data.py")
    fn = _plain(method(repo, base, "BaseEngine", "__init__"))
    if [a.arg for a in fn.args.args] != ["self", "sm", "rtc"]:
        raise Untranslatable("BaseEngine.__init__: parameters")
    init = _stmts(fn, {"self.sm = proxy(sm)": ".proxyMachine", "self._external_queue = deque()": ".newQueue",
                       "self._sentinel = object()": ".newSentinel", "self._rtc = rtc": ".fieldRtc",
                       "self._processing = Lock()": ".newLock", "self._activation = None": ".noActivation"},
                  "BaseEngine.__init__")
    # no class-level attributes on the engine classes (a lock or a queue shared by all machines)
    for rel, cls in ((base, "BaseEngine"), (sy, "SyncEngine"), (asy, "AsyncEngine")):
        tree = ast.parse(_read(os.path.join(repo, rel), repo))
        for c in tree.body:
            if isinstance(c, ast.ClassDef) and c.name == cls:
                for x in c.body:
                    if isinstance(x, (ast.Assign, ast.AnnAssign)):
                        raise Untranslatable(f"{cls}: class-level attribute at line {x.lineno}: {ast.unparse(x)!r}")
    put = _stmts(method(repo, base, "BaseEngine", "put"), {"self._external_queue.append(trigger_data)": ".appendRight"},
                 "BaseEngine.put")
    it = _stmts(method(repo, base, "BaseEngine", "_initial_transition"),
                {"transition = Transition(State(), self.sm._get_initial_state(), event='__initial__')":
                     ".anonymousSourceToInitialState",
                 "transition._specs.clear()": ".clearSpecs", "return transition": ".ret"}, "_initial_transition")
    A = {"super().start()": ".superStart", "self.activate_initial_state()": ".activate",
         "return self.processing_loop()": ".retProcessingLoop false",
         "return await self.processing_loop()": ".retProcessingLoop true"}
    sstart = _stmts(method(repo, sy, "SyncEngine", "start"), A, "SyncEngine.start")
    sact = _stmts(method(repo, sy, "SyncEngine", "activate_initial_state"), A, "SyncEngine.activate_initial_state")
    fn = method(repo, asy, "AsyncEngine", "activate_initial_state")
    if not isinstance(fn, ast.AsyncFunctionDef):
        raise Untranslatable("AsyncEngine.activate_initial_state is not `async def`")
    aact = _stmts(fn, A, "AsyncEngine.activate_initial_state")
    tree = ast.parse(_read(os.path.join(repo, asy), repo))
    own_start = any(isinstance(c, ast.ClassDef) and c.name == "AsyncEngine"
                    and any(isinstance(f, (ast.FunctionDef, ast.AsyncFunctionDef)) and f.name in ("start", "put")
                            for f in c.body) for c in tree.body)

    def assigns(fn, what, pat=r"^self\.(\w+) = (.+)$"):
        out = []
        for x in _body(fn):
            m = re.match(pat, ast.unparse(x))
            if not m:
                raise Untranslatable(f"{what}: statement at line {x.lineno}: {ast.unparse(x)!r}")
            out.append(f'⟨"{m.group(1)}", "{m.group(2)}"⟩')
        return "[" + ", ".join(out) + "]"
    tp = assigns(method(repo, ed, "TriggerData", "__post_init__"), "TriggerData.__post_init__")
    ep = assigns(method(repo, ed, "EventData", "__post_init__"), "EventData.__post_init__")
    fn = method(repo, ed, "EventData", "extended_kwargs")
    body = _body(fn)
    if not body or ast.unparse(body[0]) != "kwargs = self.trigger_data.kwargs.copy()" or ast.unparse(body[-1]) != "return kwargs":
        raise Untranslatable("extended_kwargs: not `kwargs = self.trigger_data.kwargs.copy()` … `return kwargs`")
    fn2 = copy.deepcopy(fn)
    fn2.body = body[1:-1]
    ek = assigns(fn2, "extended_kwargs", pat=r"^kwargs\['(\w+)'\] = (.+)$")
    return ("{\n  baseInit := " + init + ", put := " + put + ",\n  initialTransition := " + it + ",\n  syncStart := " + sstart
            + ", syncActivate := " + sact + ", asyncActivate := " + aact + f", asyncHasOwnStart := {B(own_start)},\n"
            + "  triggerPostInit := " + tp + ",\n  eventPostInit := " + ep + ",\n  extendedKwargs := " + ek + " }")


# ----------------------------------------------------------------------------------------- factory.py elaboration

def tr_factory(repo):
    M = lambda name: method(repo, "statemachine/factory.py", "StateMachineMetaclass", name)

    def whole(fn, table, what):
        t = "\n".join(ntext(x) for x in _body(fn))
        for pat, val in table:
            if re.match(pat, t, flags=re.S):
                return "[" + ", ".join(val) + "]"
        raise Untranslatable(f"{what}: body not recognised: {t!r}")
    ai = whole(M("add_inherited"), [(
        r"^for base in bases:\n    for state in getattr\(base, 'states', \[\]\):\n"
        r"        cls\.add_state\(state\.id, state, inherited=True\)\n"
        r"    events = getattr\(base, '_events', \{\}\)\n    for event in events:\n"
        r"        cls\.add_event\(event=Event\(id=event\.id, name=event\.name\)\)$",
        [".inheritStatesOfEachBase", ".redeclareEventsOfEachBaseById"])], "add_inherited")
    afa = whole(M("add_from_attributes"), [(
        r"^for key, value in attrs\.items\(\):\n    if isinstance\(value, States\):\n        cls\._add_states_from_dict\(value\)\n"
        r"    if isinstance\(value, State\):\n        cls\.add_state\(key, value\)\n"
        r"    elif isinstance\(value, \(Transition, TransitionList\)\):\n"
        r"        cls\.add_event\(event=Event\(transitions=value, id=key, name=key\)\)\n"
        r"    elif isinstance\(value, \(Event,\)\):\n"
        r"        cls\.add_event\(event=Event\(transitions=value\._transitions, id=key, name=value\.name\), old_event=value\)\n"
        r"    elif getattr\(value, 'attr_name', None\):\n        cls\._add_unbounded_callback\(key, value\)$",
        [".ifStatesAddEach", ".ifStateAddState", ".elifTransitionsAddEventNamedByAttribute",
         ".elifEventAddEventKeepingNameRememberingOld", ".elifDecoratedCallback"])], "add_from_attributes")
    asd = whole(M("_add_states_from_dict"), [(
        r"^for state_id, state in states\.items\(\):\n    cls\.add_state\(state_id, state\)$", [".addEachStateOfDict"])],
        "_add_states_from_dict")
    auc = whole(M("_add_unbounded_callback"), [(
        r"^setattr\(cls, func\.attr_name, func\)\nif func\.is_event:\n"
        r"    cls\.add_event\(event=Event\(func\._transitions, id=attr_name, name=attr_name\)\)$",
        [".setCallbackUnderItsAttrName", ".ifEventAddEventNamedByAttribute"])], "_add_unbounded_callback")
    fn = M("add_state")
    if [a.arg for a in fn.args.args] != ["cls", "id", "state", "inherited"]:
        raise Untranslatable("add_state: parameters")
    ast_ = whole(fn, [(
        r"^state\._set_id\(id\)\ncls\.states\.append\(state\)\ncls\.states_map\[state\.value\] = state\n"
        r"if not hasattr\(cls, id\):\n    setattr\(cls, id, state\)\n"
        r"for event in state\.transitions\.unique_events:\n    if inherited and event\._has_real_id:\n"
        r"        event = Event\(id=event\.id, name=event\.name\)\n    cls\.add_event\(event\)$",
        [".setId", ".appendToStates", ".mapValueToState", ".setAttrUnlessPresent",
         ".registerEventsOfItsTransitionsFreshIfInherited"])], "add_state")
    fn = M("add_event")
    if [a.arg for a in fn.args.args] != ["cls", "event", "old_event"]:
        raise Untranslatable("add_event: parameters")
    ae = whole(fn, [(
        r"^if not event\._has_real_id:\n    if event not in cls\._events_to_update:\n"
        r"        cls\._events_to_update\[event\] = None\n    return\n"
        r"transitions = event\._transitions\nif transitions is not None:\n"
        r"    transitions\._on_event_defined\(event=event, states=list\(cls\.states\)\)\n"
        r"if event not in cls\._events:\n    cls\._events\[event\] = None\n    setattr\(cls, event\.id, event\)\n"
        r"if old_event is not None:\n    cls\._events_to_update\[old_event\] = event\nreturn cls\._events\[event\]$",
        [".idlessRememberAndReturn", ".tellTransitionsWithStatesSoFar", ".declareIfNew", ".rememberReplacement",
         ".retDeclared"])], "add_event")
    uer = whole(M("_update_event_references"), [(
        r"^for old_event, new_event in cls\._events_to_update\.items\(\):\n    for state in cls\.states:\n"
        r"        for transition in state\.transitions:\n            if transition\._events\.match\(old_event\):\n"
        r"                if new_event is None:\n                    raise InvalidDefinition\(.*?\)\n"
        r"                transition\.events\._replace\(old_event, new_event\)\ncls\._events_to_update = \{\}$",
        [".forEachPendingScanAllTransitionsReplaceOrRaise", ".resetPending"])], "_update_event_references")
    fn = M("_setup")
    body = _body(fn)
    if len(body) != 2 or ntext(body[0]) != "for visited in iterate_states_and_transitions(cls.states):\n    visited._setup()":
        raise Untranslatable("_setup: not the loop over states and transitions followed by _protected_attrs")
    m = re.match(r"^cls\._protected_attrs = \{(.*)\} \| \{X0\.id for X0 in cls\.states\}$", ntext(body[1]), flags=re.S)
    if not m:
        raise Untranslatable(f"_setup: _protected_attrs: {ntext(body[1])!r}")
    names = sorted(x.strip().strip("'") for x in m.group(1).split(","))
    setup = "[.setupEveryStateAndTransition, .protectedAttrs " + _strlist(names) + "]"
    return ("{\n  addInherited := " + ai + ",\n  addFromAttributes := " + afa + ",\n  addStatesFromDict := " + asd
            + ", addUnboundedCallback := " + auc + ",\n  addState := " + ast_ + ",\n  addEvent := " + ae
            + ",\n  updateEventReferences := " + uer + ",\n  setup := " + setup + " }")


# ----------------------------------------------------------------------------------------- callback specs

def tr_spec(repo):
    M = lambda rel, cls, name: method(repo, rel, cls, name)
    cb = "statemachine/callbacks.py"
    # Transition._setup
    fn = M("statemachine/transition.py", "Transition", "_setup")
    env = {}
    ts = []

    def conv(call_group, args, scoped_name=None):
        m = re.match(r"^(f?)'([^']*)', priority=CallbackPriority\.(\w+), is_convention=True(, cond=SAME)?$", args)
        if not m:
            raise Untranslatable(f"_setup: arguments {args!r}")
        name = m.group(2)
        name = re.sub(r"\{(EVENT|self\.id)\}", "*", name)
        return f'⟨"{call_group}", "{name}", "{m.group(3)}", {B(bool(m.group(4)))}⟩'
    for x in _body(fn):
        t = ntext(x, env)
        m = re.match(r"^(\w+) = self\.(before|on|after)\.add$", t)
        if m:
            bind(env, m.group(1), m.group(2).upper() + "ADD")
            continue
        m = re.match(r"^(BEFORE|ON|AFTER)ADD\((.*)\)$", t, flags=re.S)
        if m:
            ts.append(conv(m.group(1).lower(), m.group(2)))
            continue
        if isinstance(x, ast.For) and ntext(x.iter, env) == "self._events" and isinstance(x.target, ast.Name) and not x.orelse:
            le = dict(env)
            le[x.target.id] = "EVENT"
            for b in x.body:
                bt = ntext(b, le)
                m = re.match(r"^(\w+) = EVENT\.is_same_event$", bt)
                if m:
                    le[m.group(1)] = "SAME"
                    continue
                m = re.match(r"^(BEFORE|ON|AFTER)ADD\((.*)\)$", bt, flags=re.S)
                if m:
                    ts.append(conv(m.group(1).lower(), m.group(2)))
                    continue
                raise Untranslatable(f"Transition._setup: loop statement at line {b.lineno}: {bt!r}")
            continue
        raise Untranslatable(f"Transition._setup: statement at line {x.lineno} not recognised: {t!r}")
    fn = M("statemachine/state.py", "State", "_setup")
    ss = []
    for x in _body(fn):
        t = ntext(x)
        m = re.match(r"^self\.(enter|exit)\.add\((.*)\)$", t, flags=re.S)
        if not m:
            raise Untranslatable(f"State._setup: statement at line {x.lineno} not recognised: {t!r}")
        ss.append(conv(m.group(1), m.group(2)))
    tree = ast.parse(_read(os.path.join(repo, cb), repo))
    prios = None
    for c in tree.body:
        if isinstance(c, ast.ClassDef) and c.name == "CallbackPriority":
            prios = [(a.targets[0].id, a.value.value) for a in c.body
                     if isinstance(a, ast.Assign) and isinstance(a.value, ast.Constant)]
    if not prios:
        raise Untranslatable("CallbackPriority: members")
    if _stmts(M(cb, "CallbackSpec", "__eq__"),
              {"return self.func == other.func and self.group == other.group and (self.expected_value == other.expected_value)": "k"},
              "CallbackSpec.__eq__") != "[k]":
        raise Untranslatable("CallbackSpec.__eq__")
    la = _stmts(M(cb, "CallbackSpecList", "_add"),
                {"if isinstance(func, CallbackSpec):\n    spec = func\nelse:\n    spec = self.factory(func, group, **kwargs)": ".specOrBuild",
                 "if spec in self.items:\n    return": ".returnIfEqualSpecPresent",
                 "self.items.append(spec)": ".append",
                 "if spec.is_convention:\n    self.conventional_specs.add(spec.func)": ".noteConvention",
                 "return spec": ".ret"}, "CallbackSpecList._add")
    key_ok = _stmts(M(cb, "CallbackGroup", "build_key"), {"return f'{self.name}@{id(specs)}'": "k"}, "CallbackGroup.build_key") == "[k]"
    fn = M("statemachine/event.py", "Event", "is_same_event")
    same_ok = _stmts(fn, {"return self == event": "k"}, "Event.is_same_event") == "[k]"
    pr = "[" + ", ".join(f'("{n}", {v})' for n, v in prios) + "]"
    return ("{\n  transitionSetup := [" + ", ".join(ts) + "],\n  stateSetup := [" + ", ".join(ss) + "],\n  priorities := " + pr
            + ",\n  specEq := .funcGroupExpected, listAdd := " + la + f",\n  groupKeyPerOwnerList := {B(key_ok)}, sameEventIsEquality := {B(same_ok)} }}")


# ----------------------------------------------------------------------------------------- special methods, identity

def tr_surface(repo):
    dunders = []
    for rel in sorted(_all_sources(repo)):
        try:
            tree = ast.parse(_read(os.path.join(repo, rel), repo))
        except SyntaxError as e:
            raise Untranslatable(f"cannot parse {rel}: {e}")
        for c in tree.body:
            if isinstance(c, ast.ClassDef):
                d = sorted(x.name for x in c.body if isinstance(x, (ast.FunctionDef, ast.AsyncFunctionDef))
                           and x.name.startswith("__") and x.name.endswith("__"))
                dunders.append((rel[len("statemachine/"):], c.name, d))
    M = lambda cls, name: method(repo, "statemachine/state.py", cls, name)

    def body(fn, table, what):
        t = "\n".join(ntext(x) for x in _body(fn))
        if t not in table:
            raise Untranslatable(f"{what}: {t!r}")
        return table[t]
    st_eq = body(M("State", "__eq__"), {"return isinstance(other, State) and self.name == other.name and (self.id == other.id)":
                                        ".stateEqByNameAndId"}, "State.__eq__")
    st_hash = body(M("State", "__hash__"), {"return hash(repr(self))": ".hashOfRepr"}, "State.__hash__")
    st_get = body(M("State", "__get__"), {"if machine is None:\n    return self\n"
                                          "return self.for_instance(machine=machine, cache=machine._states_for_instance)":
                                          ".classGivesStateInstanceGivesInstanceState"}, "State.__get__")
    fi = body(M("State", "for_instance"), {"if self not in cache:\n    cache[self] = InstanceState(self, machine)\nreturn cache[self]":
                                            ".oneInstanceStatePerMachine"}, "State.for_instance")
    sid = body(M("State", "_set_id"), {"self._id = id\nif self.value is None:\n    self.value = id\nif not self.name:\n"
                                        "    self.name = self._id.replace('_', ' ').capitalize()": ".idThenDefaultValueAndName"},
               "State._set_id")
    i_eq = body(M("InstanceState", "__eq__"), {"return self._state() == other": ".delegateEqToState"}, "InstanceState.__eq__")
    i_hash = body(M("InstanceState", "__hash__"), {"return hash(repr(self._state()))": ".hashOfStateRepr"}, "InstanceState.__hash__")
    fn = M("InstanceState", "is_active")
    if [ast.unparse(d) for d in fn.decorator_list] != ["property"]:
        raise Untranslatable("is_active is not a property")
    act = body(fn, {"return self._machine().current_state == self": ".activeIffCurrent"}, "InstanceState.is_active")
    eg = body(method(repo, "statemachine/event.py", "Event", "__get__"),
              {"if instance is None:\n    return self\nreturn BoundEvent(id=self.id, name=self.name, _sm=instance)":
               ".freshBoundEventPerAccess"}, "Event.__get__")
    dl = ",\n    ".join(f'("{r}", "{c}", {_strlist(d)})' for r, c, d in dunders)
    return ("{\n  dunders := [\n    " + dl + "],\n  stateEq := " + st_eq + ", stateHash := " + st_hash + ", stateGet := " + st_get
            + ",\n  forInstance := " + fi + ", setId := " + sid + ",\n  instEq := " + i_eq + ", instHash := " + i_hash
            + ", isActive := " + act + ", eventGet := " + eg + " }")


# ----------------------------------------------------------------------------------------- dispatcher: expressions

def tr_take(repo):
    M = lambda name: method(repo, "statemachine/dispatcher.py", "Listeners", name)

    def whole(fn, pats, what):
        t = "\n".join(ntext(x) for x in _body(_plain(fn)))
        for pat, val in pats:
            if re.match(pat, t, flags=re.S):
                return val
        raise Untranslatable(f"{what}: body not recognised: {t!r}")
    take = whole(M("_take_callback"), [(
        r"^callbacks = \[\]\nfor \(?key, builder\)? in self\.search_name\(name\):\n    callback = builder\(\)\n"
        r"    callback\.unique_key = key\n    callbacks\.append\(callback\)\n"
        r"if len\(callbacks\) == 0:\n    names_not_found_handler\(name\)\n    return allways_true\n"
        r"elif len\(callbacks\) == 1:\n    return callbacks\[0\]\nelse:\n    return reduce\(custom_and, callbacks\)$",
        "[.collectPerProvider, .noneReportAndAlwaysTrue, .oneItself, .severalReduceAnd]")], "_take_callback")
    build = whole(M("build"), [(
        r"^if not spec\.may_contain_boolean_expression:\n    yield from self\.search\(spec\)\n    return\n"
        r"names_not_found = set\(\)\n"
        r"take_callback_partial = partial\(self\._take_callback, names_not_found_handler=names_not_found\.add\)\n"
        r"try:\n    expression = parse_boolean_expr\(spec\.func, take_callback_partial, operator_mapping\)\n"
        r"except SyntaxError as err:\n    raise InvalidDefinition\(.*?\) from err\n"
        r"if not expression or names_not_found:\n    spec\.names_not_found = names_not_found\n    return\n"
        r"yield \(expression\.unique_key, lambda: expression\)$",
        "[.plainSpecsSearch, .prepareNotFound, .parseOrInvalidDefinition, .registerNothingIfNamesMissing, .yieldExpression]")],
        "Listeners.build")
    s1 = whole(M("search"), [(
        r"^if spec\.reference is SpecReference\.NAME:\n    yield from self\.search_name\(spec\.attr_name\)\n"
        r"elif spec\.reference is SpecReference\.CALLABLE:\n    yield from self\._search_callable\(spec\)\n"
        r"elif spec\.reference is SpecReference\.PROPERTY:\n    yield from self\._search_property\(spec\)\n"
        r"else:\n    raise ValueError\(.*\)$", ".dispatchOnReference")], "Listeners.search")
    s2 = whole(M("_search_callable"), [(
        r"^if not spec\.is_bounded:\n    for listener in self\.items:\n        func = getattr\(listener\.obj, spec\.attr_name, None\)\n"
        r"        if getattr\(func, '__func__', None\) is spec\.func:\n"
        r"            yield \(listener\.build_key\(spec\.attr_name\), partial\(callable_method, func\)\)\n            return\n"
        r"yield \(f'\{spec\.attr_name\}@\{id\(spec\.func\)\}', partial\(callable_method, spec\.func\)\)$",
        ".boundMethodOfFirstProviderElseFunction")], "_search_callable")
    s3 = whole(M("_search_property"), [(
        r"^attr_name = spec\.attr_name\nif attr_name not in self\.all_attrs:\n    return\nfor listener in self\.items:\n"
        r"    func = getattr\(type\(listener\.obj\), attr_name, None\)\n    if func is not None and func is spec\.func:\n"
        r"        yield \(listener\.build_key\(attr_name\), partial\(attr_method, attr_name, listener\.obj\)\)\n        return$",
        ".firstProviderWhoseClassHasThatProperty")], "_search_property")
    return "{\n  take := " + take + ",\n  build := " + build + ",\n  search := [" + ", ".join([s1, s2, s3]) + "] }"


# ----------------------------------------------------------------------------------------- glue

def tr_glue(repo):
    def mod_fn(rel, name):
        tree = ast.parse(_read(os.path.join(repo, rel), repo))
        return _fn(tree, name), tree

    def whole(fn, pats, what):
        t = "\n".join(ntext(x) for x in _body(_plain(fn)))
        for pat, val in pats:
            if re.match(pat, t, flags=re.S):
                return val
        raise Untranslatable(f"{what}: body not recognised: {t!r}")
    fn, tree = mod_fn("statemachine/utils.py", "run_async_from_sync")
    if not any(isinstance(n, ast.Assign) and ast.unparse(n) == "_cached_loop = threading.local()" for n in tree.body):
        raise Untranslatable("utils.py: `_cached_loop` is not `threading.local()`")
    ras = whole(fn, [(
        r"^global _cached_loop\ntry:\n    asyncio\.get_running_loop\(\)\n    return coroutine\nexcept RuntimeError:\n"
        r"    if not hasattr\(_cached_loop, 'loop'\):\n        _cached_loop\.loop = asyncio\.new_event_loop\(\)\n"
        r"    loop = _cached_loop\.loop\n    task = asyncio\.ensure_future\(coroutine, loop=loop\)\n"
        r"    try:\n        return loop\.run_until_complete\(task\)\n    except \(KeyboardInterrupt, SystemExit\):\n"
        r"        if not task\.done\(\):\n            task\.cancel\(\)\n            try:\n"
        r"                loop\.run_until_complete\(task\)\n            except BaseException:\n                pass\n        raise$",
        "[.insideLoopHandBackCoroutine, .perThreadLoopKept, .runToCompletion, .onInterruptCancelDrainReraise]")],
        "run_async_from_sync")
    fn, _t = mod_fn("statemachine/utils.py", "ensure_iterable")
    ei = whole(fn, [(r"^if isinstance\(obj, str\):\n    return \[obj\]\ntry:\n    return iter\(obj\)\nexcept TypeError:\n    return \[obj\]$",
                     "[.stringIsOneItem, .iteratorElseOneItem]")], "ensure_iterable")
    fn, _t = mod_fn("statemachine/utils.py", "qualname")
    qn = whole(fn, [(r"^return '\.'\.join\(\[cls\.__module__, cls\.__name__\]\)$", "true")], "qualname")
    mi = whole(method(repo, "statemachine/mixins.py", "MachineMixin", "__init__"), [(
        r"^super\(\)\.__init__\(\*args, \*\*kwargs\)\nif not self\.state_machine_name:\n    raise ValueError\(.*?\)\n"
        r"(\w+) = registry\.get_machine_cls\(self\.state_machine_name\)\n"
        r"(\w+) = \1\(self, state_field=self\.state_field_name\)\nsetattr\(self, self\.state_machine_attr, \2\)\n"
        r"if self\.bind_events_as_methods:\n    \2\.bind_events_to\(self\)$",
        "[.superInitFirst, .requireMachineName, .lookUpClass, .constructOverSelf, .attach, .bindEventsIfAsked]")],
        "MachineMixin.__init__")

    def carries(cls):
        fn = method(repo, "statemachine/exceptions.py", cls, "__init__")
        return _strlist(sorted(m.group(1) for x in _body(fn) for m in [re.match(r"^self\.(\w+) = \1$", ast.unparse(x))] if m))
    fn, _t = mod_fn("statemachine/registry.py", "register")
    keys = [m.group(1) for x in _body(fn) for m in [re.match(r"^_REGISTRY\[(.+)\] = cls$", ast.unparse(x))] if m]
    if len(keys) != len(_body(fn)) - 1 or ast.unparse(_body(fn)[-1]) != "return cls":
        raise Untranslatable("registry.register: body")
    return ("{\n  runAsyncFromSync := " + ras + ",\n  ensureIterable := " + ei + ",\n  mixinInit := " + mi
            + ",\n  notAllowedCarries := " + carries("TransitionNotAllowed") + ", invalidStateCarries := " + carries("InvalidStateValue")
            + ",\n  registryKeys := " + _strlist(keys) + ", qualnameIsModuleDotName := " + qn + " }")


# ----------------------------------------------------------------------------------------- declared objects

def tr_obj(repo):
    M = lambda rel, cls, name: method(repo, rel, cls, name)
    st, ss, ev, cb = "statemachine/state.py", "statemachine/states.py", "statemachine/event.py", "statemachine/callbacks.py"

    def params(fn, want, what):
        a = fn.args
        got = [x.arg for x in a.args] + [x.arg for x in a.kwonlyargs]
        if got != want or a.vararg or a.kwarg:
            raise Untranslatable(f"{what}: parameters {got}")
        return [ast.unparse(d) for d in a.defaults]
    fn = _plain(M(st, "State", "__init__"))
    if params(fn, ["self", "name", "value", "initial", "final", "enter", "exit"], "State.__init__") != \
            ["''", "None", "False", "False", "None", "None"]:
        raise Untranslatable("State.__init__: defaults")
    fields = {f"self.{a} = {b}": f'.field "{a}" "{b}"' for a, b in
              (("name", "name"), ("value", "value"), ("_initial", "initial"), ("_final", "final"))}
    si = _stmts(fn, dict(fields, **{
        "self._id = ''": ".emptyId", "self.transitions = TransitionList()": ".ownTransitionList",
        "self._specs = CallbackSpecList()": ".ownSpecList",
        "self.enter = self._specs.grouper(CallbackGroup.ENTER).add(enter, priority=CallbackPriority.INLINE)": ".enterInline",
        "self.exit = self._specs.grouper(CallbackGroup.EXIT).add(exit, priority=CallbackPriority.INLINE)": ".exitInline",
    }), "State.__init__")
    fn = M(st, "State", "_set_id")
    params(fn, ["self", "id"], "State._set_id")
    sid = _stmts(fn, {
        "self._id = id": ".assignId",
        "if self.value is None:\n    self.value = id": ".valueDefaultsToId .isNone",
        "if not self.value:\n    self.value = id": ".valueDefaultsToId .falsy",
        "self.value = self.value or id": ".valueDefaultsToId .falsy",
        "if not self.name:\n    self.name = self._id.replace('_', ' ').capitalize()": ".nameDefaultsFromId",
    }, "State._set_id")
    sg = _stmts(M(st, "State", "__get__"), {
        "if machine is None:\n    return self": ".classAccessItself",
        "return self.for_instance(machine=machine, cache=machine._states_for_instance)": ".instanceAccessCachedPerMachine",
    }, "State.__get__")
    sset = _stmts(M(st, "State", "__set__"), {"re:^raise StateMachineError\\(.*\\)$": ".raiseOverriding"}, "State.__set__")
    one = lambda cls, name, table: _stmts(_plain(M(ss, cls, name)), table, f"{cls}.{name}")
    states = [
        one("States", "__init__", {"self._states = states if states is not None else {}": ".ownDictUnlessGiven"}),
        one("States", "append", {"self._states[state.id] = state": ".appendKeyedById"}),
        one("States", "__iter__", {"return iter(self._states.values())": ".iterValuesInOrder"}),
        one("States", "__getattr__", {"if name in self._states:\n    return self._states[name]": ".getattrByKeyElseAttributeError",
                                      "re:^raise AttributeError\\(.*\\)$": ""}),
        one("States", "from_enum", {
            "final_set = set(ensure_iterable(final))": ".enumFinalSet",
            "return cls({X0.name: State(value=X0 if use_enum_instance else X0.value, initial=X0 is initial, "
            "final=X0 in final_set) for X0 in enum_type})": ".enumOneStatePerMember"}),
    ]
    for x, n in zip(states, (1, 1, 1, 1, 2)):
        if x.count(".") != n:
            raise Untranslatable(f"States: {x}")
    states = "[" + ", ".join(x[1:-1] for x in states) + "]"
    fn = _plain(M(ev, "Event", "__new__"))
    if params(fn, ["cls", "transitions", "id", "name", "_sm"], "Event.__new__") != ["None"] * 4:
        raise Untranslatable("Event.__new__: defaults")
    en = _stmts(fn, {
        "if isinstance(transitions, str):\n    id = transitions\n    transitions = None": ".stringFirstArgumentIsTheId",
        "_has_real_id = id is not None": ".realIdIffGiven",
        "id = str(id) if _has_real_id else f'__event__{uuid4().hex}'": ".idStrElseFresh",
        "instance = super().__new__(cls, id)": ".strOfId",
        "instance.id = id": ".assignId",
        "if name:\n    instance.name = name\nelif _has_real_id:\n    instance.name = str(id).replace('_', ' ').capitalize()\n"
        "else:\n    instance.name = ''": ".nameGivenElseFromRealIdElseEmpty",
        "if transitions:\n    instance._transitions = transitions": ".keepTransitionsIfAny",
        "instance._has_real_id = _has_real_id": ".assignHasRealId",
        "instance._sm = _sm": ".assignMachine",
        "return instance": ".ret",
    }, "Event.__new__")
    fn = _plain(M(cb, "CallbackSpec", "__init__"))
    if params(fn, ["self", "func", "group", "is_convention", "is_event", "cond", "priority", "expected_value"],
              "CallbackSpec.__init__") != ["False", "False", "None", "CallbackPriority.NAMING", "None"]:
        raise Untranslatable("CallbackSpec.__init__: defaults")
    fields = {f"self.{a} = {a}": f'.field "{a}" "{a}"' for a in
              ("func", "group", "is_convention", "is_event", "cond", "expected_value", "priority")}
    cs = _stmts(fn, dict(fields, **{
        "if isinstance(func, property):\n    self.reference = SpecReference.PROPERTY\n"
        "    self.attr_name = func and func.fget and func.fget.__name__ or ''\n"
        "elif callable(func):\n    self.reference = SpecReference.CALLABLE\n    self.is_bounded = hasattr(func, '__self__')\n"
        "    self.attr_name = func.__name__ if not self.is_event or self.is_bounded else f'_{func.__name__}_'\n"
        "    if not self.is_bounded:\n        func.attr_name = self.attr_name\n        func.is_event = is_event\n"
        "else:\n    self.reference = SpecReference.NAME\n    self.attr_name = func": ".referenceByKindOfFunc",
        "self.may_contain_boolean_expression = not self.is_convention and self.group == CallbackGroup.COND and "
        "(self.reference == SpecReference.NAME)": ".expressionOnlyInNamedConditionsNotConvention",
    }), "CallbackSpec.__init__")
    return ("{\n  stateInit := " + si + ",\n  setId := " + sid + ",\n  stateGet := " + sg + ", stateSet := " + sset
            + ",\n  states := " + states + ",\n  eventNew := " + en + ",\n  specInit := " + cs + " }")


TRANSLATORS = {"eventcall": tr_eventcall, "send": tr_send, "start": tr_start, "injected": tr_injected,
               "activate": tr_activate, "trigger": tr_trigger, "process": tr_process, "wrapper": tr_wrapper,
               "executor": tr_executor, "bind": tr_bind,
               "metainit": tr_metainit, "sminit": tr_sminit, "register": tr_register, "addlistener": tr_addlistener,
               "getstate": tr_getstate, "setstate": tr_setstate}


def _translate_one(repo, name, rel, cls, meth, key, ty):
    try:
        fn = method(repo, rel, cls, meth)
        if key == "reserved":
            return (ty, tr_reserved(fn), None)
        if key == "parser":
            return (ty, tr_parser(fn), None)
        if key == "callable":
            return (ty, tr_callable(fn), None)
        if key == "visit":
            return (ty, tr_visit(fn), None)
        if key == "check":
            return (ty, tr_check(fn, repo), None)
        if key == "transinit":
            return (ty, tr_transinit(fn), None)
        if key == "store":
            return (ty, tr_store(repo), None)
        if key == "allowed":
            return (ty, tr_allowed(repo), None)
        if key == "registry":
            return (ty, tr_registry(repo), None)
        if key == "decl":
            return (ty, tr_decl(repo), None)
        if key == "diagram":
            return (ty, tr_diagram(repo), None)
        if key == "eng":
            return (ty, tr_eng(repo), None)
        if key == "factory":
            return (ty, tr_factory(repo), None)
        if key == "specs":
            return (ty, tr_spec(repo), None)
        if key == "surface":
            return (ty, tr_surface(repo), None)
        if key == "take":
            return (ty, tr_take(repo), None)
        if key == "glue":
            return (ty, tr_glue(repo), None)
        if key == "obj":
            return (ty, tr_obj(repo), None)
        if key == "injected":
            if [ast.unparse(d) for d in fn.decorator_list] != ["property"]:
                raise Untranslatable("extended_kwargs is not a property")
            fn.decorator_list = []
        is_async = isinstance(fn, ast.AsyncFunctionDef)
        if is_async != (name in ASYNC_DEF):
            raise Untranslatable(f"{cls}.{meth}: {'async def' if is_async else 'def'}")
        return (ty, TRANSLATORS[key](fn), None)
    except Untranslatable as e:
        return (ty, None, str(e))
    except RecursionError as e:   # pathological source
        return (ty, None, f"{type(e).__name__}")


def translate(repo, only=None, reads=None):
    """-> {lean name: (lean type, term text | None, error | None)}; `only`: just these names; `reads` (a dict): filled
    with the files each name's translation read"""
    global _READS
    res = {}
    for name, rel, cls, meth, key, ty in FUNCS:
        if only is not None and name not in only:
            continue
        _READS = set() if reads is not None else None
        try:
            res[name] = _translate_one(repo, name, rel, cls, meth, key, ty)
        finally:
            if reads is not None:
                reads[name] = _READS
            _READS = None
    return res


def lean_defs(res, namespace):
    lines = [f"namespace {namespace}", ""]
    for name, (ty, term, err) in res.items():
        if term is not None:
            lines.append(f"def {name} : {ty} := {term}")
            lines.append("")
    lines.append(f"end {namespace}")
    return "\n".join(lines) + "\n"


def expected_terms():
    """the scripts committed in Expected.lean, by name (text between `def name : T := ` and the blank line)"""
    src = open(EXPECTED).read()
    out = {}
    for m in re.finditer(r"^def (\w+) : ([^\n]*?) := ((?:\[|\{).*?(?:\]|\}))\n\n", src, flags=re.S | re.M):
        out[m.group(1)] = (m.group(2), m.group(3))
    return out


# ----------------------------------------------------------------------------------------- is the translator blind?

SELFTEST_EDITS = [
    # (file, old text, new text): each edit changes what the code does; the translator must either refuse the file
    # or derive a different script
    ("statemachine/engines/sync.py", "        result += self.sm._callbacks.call(transition.on.key, *args, **kwargs)\n\n        self.sm.current_state = target\n",
     "        self.sm.current_state = target\n        result += self.sm._callbacks.call(transition.on.key, *args, **kwargs)\n\n"),
    ("statemachine/engines/sync.py", "        kwargs[\"state\"] = target\n", ""),
    ("statemachine/engines/sync.py", "        if source is not None and not transition.internal:\n", "        if source is not None:\n"),
    ("statemachine/engines/sync.py", "        result = self.sm._callbacks.call(transition.before.key, *args, **kwargs)", "        result = self.sm._callbacks.call(transition.after.key, *args, **kwargs)"),
    ("statemachine/engines/sync.py", "            if not executed:\n                continue\n\n            break", "            if not executed:\n                continue\n"),
    ("statemachine/engines/sync.py", "            if not transition.match(trigger_data.event):\n                continue\n", ""),
    ("statemachine/engines/sync.py", "                except BaseException:", "                except Exception:"),
    ("statemachine/engines/sync.py", "                    self._external_queue.clear()\n", ""),
    ("statemachine/engines/sync.py", "trigger_data = self._external_queue.popleft()\n                try:", "trigger_data = self._external_queue.pop()\n                try:"),
    ("statemachine/engines/sync.py", "        if self._external_queue:\n            # Another thread", "        if False:\n            # Another thread"),
    ("statemachine/engines/sync.py", "                    if first_result is self._sentinel:\n                        first_result = result", "                    first_result = result"),
    ("statemachine/engines/async_.py", "        result += await self.sm._callbacks.async_call(transition.on.key, *args, **kwargs)", "        result += self.sm._callbacks.async_call(transition.on.key, *args, **kwargs)"),
    ("statemachine/engines/async_.py", "        if not await self.sm._callbacks.async_all(transition.cond.key, *args, **kwargs):", "        if not self.sm._callbacks.async_all(transition.cond.key, *args, **kwargs):"),
    ("statemachine/engines/async_.py", "            executed, result = await self._activate(trigger_data, transition)", "            executed, result = await self._activate(trigger_data, state.transitions[0])"),
    ("statemachine/engines/async_.py", "        if trigger_data is self._activation:", "        if trigger_data.event == \"__initial__\":"),
    ("statemachine/callbacks.py", "            return bool(value) == self.expected_value\n        return value\n\n    def call", "            return value == self.expected_value\n        return value\n\n    def call"),
    ("statemachine/callbacks.py", "        if isawaitable(value):\n            value = await value", "        if self._iscoro:\n            value = await value"),
    ("statemachine/callbacks.py", "            callback.call(*args, **kwargs)\n            for callback in self\n            if callback.condition(*args, **kwargs)", "            callback.call(*args, **kwargs)\n            for callback in self"),
    ("statemachine/callbacks.py", "            if not condition.call(*args, **kwargs):\n                return False\n        return True", "            if condition.call(*args, **kwargs):\n                return True\n        return False"),
    ("statemachine/callbacks.py", "            for task in tasks:\n                task.cancel()\n", ""),
    ("statemachine/event.py", "        kwargs = {k: v for k, v in kwargs.items() if k not in _event_data_kwargs}\n", ""),
    ("statemachine/event.py", "    \"source\",\n", ""),
    ("statemachine/event.py", "        machine._put_nonblocking(trigger_data)\n        result = machine._processing_loop()", "        result = machine._processing_loop()\n        machine._put_nonblocking(trigger_data)"),
    ("statemachine/statemachine.py", "        if event in self.__class__._events:\n            event_instance: BoundEvent = getattr(self, event)\n        else:\n            event_instance = BoundEvent(id=event, name=event, _sm=self)",
     "        event_instance: BoundEvent = getattr(self, event, BoundEvent(id=event, name=event, _sm=self))"),
    ("statemachine/engines/base.py", "        self._activation = trigger_data\n", ""),
    ("statemachine/engines/base.py", "        if self.sm.current_state_value is not None:\n            return\n", ""),
    ("statemachine/spec_parser.py", "        return left(*args, **kwargs) and right(*args, **kwargs)", "        return bool(left(*args, **kwargs) and right(*args, **kwargs))"),
    ("statemachine/spec_parser.py", "            return bool(operator(left(*args, **kwargs), right(*args, **kwargs)))", "            return operator(left(*args, **kwargs), right(*args, **kwargs))"),
    ("statemachine/spec_parser.py", "            left_expr = right_expr\n", ""),
    ("statemachine/spec_parser.py", "    ast.Or: custom_or,", "    ast.Or: custom_and,"),
    ("statemachine/spec_parser.py", "    if expr.isidentifier() and not iskeyword(expr):", "    if \" \" not in expr:"),
    ("statemachine/event_data.py", "        kwargs[\"target\"] = self.target\n", ""),
    ("statemachine/signature.py", "                        # 'too many positional arguments' forgiven\n                        parameters_ex = (param,)\n", "                        # 'too many positional arguments' forgiven\n"),
    ("statemachine/signature.py", "                    if param.name in kwargs and param.kind != Parameter.POSITIONAL_ONLY:", "                    if param.name in kwargs:"),
    ("statemachine/signature.py", "                        values.extend(arg_vals)\n", ""),
    ("statemachine/signature.py", "                    if param.kind == Parameter.VAR_POSITIONAL:\n                        # That's OK, just empty *args.", "                    if param.kind == Parameter.VAR_KEYWORD:\n                        # That's OK, just empty *args."),
    ("statemachine/signature.py", "            if param.kind == Parameter.VAR_POSITIONAL:\n                # Named arguments don't refer to '*args'-like parameters.\n                # We only arrive here if the positional arguments ended\n                # before reaching the last parameter before *args.\n                continue\n", ""),
    ("statemachine/signature.py", "            if kwargs_param is not None:\n                # Process our '**kwargs'-like parameter\n                arguments[kwargs_param.name] = kwargs", "            if kwargs_param is not None:\n                # Process our '**kwargs'-like parameter\n                arguments[kwargs_param.name] = dict(kwargs, **arguments)"),
    ("statemachine/dispatcher.py", "            return a_callable(*ba.args, **ba.kwargs)\n\n    signature_adapter.__name__", "            return a_callable(*args, **ba.kwargs)\n\n    signature_adapter.__name__"),
    ("statemachine/dispatcher.py", "            return await a_callable(*ba.args, **ba.kwargs)", "            return a_callable(*ba.args, **ba.kwargs)"),
    ("statemachine/graph.py", "        if state in already_visited:\n            continue\n", ""),
    ("statemachine/graph.py", "state = visit.popleft()", "state = visit.pop()"),
    ("statemachine/graph.py", "visit.extend(t.target for t in state.transitions)", "visit.extend(t.target for t in state.transitions if not t.internal)"),
    ("statemachine/factory.py", "        cls._check_final_states()\n        cls._check_disconnected_state()\n", "        cls._check_disconnected_state()\n        cls._check_final_states()\n"),
    ("statemachine/factory.py", "        trap_states = [s for s in cls.states if not s.final and not s.transitions]", "        trap_states = [s for s in cls.states if not s.transitions]"),
    ("statemachine/factory.py", "        if len(initials) != 1:", "        if len(initials) > 1:"),
    ("statemachine/factory.py", "            if not state.final and not any(s.final for s in visit_connected_states(state))", "            if not any(s.final for s in visit_connected_states(state))"),
    ("statemachine/factory.py", "        return set(cls.states) - visitable_states", "        return visitable_states - set(cls.states)"),
    ("statemachine/factory.py", "        cls._check()\n        cls._setup()", "        cls._setup()\n        cls._check()"),
    ("statemachine/factory.py", "                warnings.warn(message, UserWarning, stacklevel=1)", "                pass"),
    ("statemachine/transition.py", "        if internal and source is not target:", "        if internal and source != target:"),
    ("statemachine/transition.py", ".add(unless, priority=CallbackPriority.INLINE, expected_value=False)", ".add(unless, priority=CallbackPriority.INLINE, expected_value=True)"),
    ("statemachine/statemachine.py", "        self.model = model if model is not None else Model()", "        self.model = model if model else Model()"),
    ("statemachine/statemachine.py", "            self.start_value if self.start_value is not None else self.initial_state.value", "            self.start_value if self.start_value else self.initial_state.value"),
    ("statemachine/statemachine.py", "        if value not in self.states_map:\n            raise InvalidStateValue(value)\n        setattr(self.model, self.state_field, value)", "        setattr(self.model, self.state_field, value)\n        if value not in self.states_map:\n            raise InvalidStateValue(value)"),
    ("statemachine/statemachine.py", "        self.current_state_value = value.value", "        setattr(self.model, self.state_field, value.value)"),
    ("statemachine/statemachine.py", "        return getattr(self.model, self.state_field, None)", "        return getattr(self.model, self.state_field, None) or None"),
    ("statemachine/statemachine.py", "        self._register_callbacks(listeners or [])\n\n        # Activate", "        self._engine = self._get_engine(rtc)\n        self._register_callbacks(listeners or [])\n\n        # Activate"),
    ("statemachine/statemachine.py", "        for late in passes[1:]:\n            self.add_listener(*late)\n", "        self.add_listener(*[x for late in passes[1:] for x in late])\n"),
    ("statemachine/statemachine.py", "        self._listener_passes.append(tuple(listeners))\n", ""),
    ("statemachine/statemachine.py", "        state[\"_state_value\"] = self.current_state_value\n", ""),
    ("statemachine/statemachine.py", "                    Listener.from_obj(self.model, skip_attrs={self.state_field}),", "                    Listener.from_obj(self.model, skip_attrs=self._protected_attrs),"),
    ("statemachine/statemachine.py", "            allowed_references=SPECS_SAFE,\n", ""),
    ("statemachine/statemachine.py", "        return [getattr(self, event) for event in self.current_state.transitions.unique_events]", "        return [getattr(self, event) for event in self.__class__._events]"),
    ("statemachine/callbacks.py", "        seen_key = (key, spec.expected_value)", "        seen_key = key"),
    ("statemachine/callbacks.py", "        self.items_already_seen.add(seen_key)\n", ""),
    ("statemachine/callbacks.py", "        insort(self.items, wrapper)", "        self.items.append(wrapper)"),
    ("statemachine/callbacks.py", "        return self.meta.priority < other.meta.priority", "        return self.meta.priority <= other.meta.priority"),
    ("statemachine/callbacks.py", "from bisect import insort\n", "from bisect import insort_left as insort\n"),
    ("statemachine/callbacks.py", "            if meta.is_convention:\n                continue\n", ""),
    ("statemachine/dispatcher.py", "            if name not in listener.all_attrs:\n                continue\n", "            if name not in listener.all_attrs:\n                break\n"),
    ("statemachine/dispatcher.py", "        return f\"{attr_name}@{self.resolver_id}\"", "        return f\"{attr_name}\""),
    ("statemachine/dispatcher.py", "            if (spec.reference not in allowed_references) or (", "            if (", ),
    ("statemachine/dispatcher.py", "            return cls(obj, all_attrs, str(id(obj)))", "            return cls(obj, all_attrs, type(obj).__name__)"),
    ("statemachine/events.py", "        return any(e == event for e in self)", "        return any(e.startswith(event) for e in self)"),
    ("statemachine/transition.py", "        return self._events.match(event)", "        return event in self.event"),
    ("statemachine/transition.py", "            new_spec = copy(spec)", "            new_spec = deepcopy(spec)"),
    ("statemachine/transition_list.py", "        return TransitionList(self.transitions).add_transitions(other)", "        return self.add_transitions(other)"),
    ("statemachine/transition_list.py", "                tmp_ordered_unique_events_as_keys_on_dict[event] = True\n\n        return list(tmp_ordered_unique_events_as_keys_on_dict.keys())", "                tmp_ordered_unique_events_as_keys_on_dict[event] = True\n\n        return sorted(tmp_ordered_unique_events_as_keys_on_dict.keys())"),
    ("statemachine/state.py", "            if state.final:\n                continue\n", ""),
    ("statemachine/state.py", "            new_transition = transition._copy_with_args(source=state, event=event)", "            new_transition = transition._copy_with_args(source=state)"),
    ("statemachine/state.py", "            origin.transitions.add_transitions(transition)\n", ""),
    ("statemachine/events.py", "                if event in self._items:\n                    continue\n", ""),
    ("statemachine/events.py", "            for event in events.split():", "            for event in events.split(\" \"):"),
    ("statemachine/contrib/diagram.py", "                if transition.internal:\n                    continue\n", ""),
    ("statemachine/contrib/diagram.py", "            peripheries=2 if state.final else 1,", "            peripheries=2 if state.final and not state.transitions else 1,"),
    ("statemachine/contrib/diagram.py", "        if state == self._current_state():", "        if state.value == getattr(self.machine, \"current_state_value\", None):"),
    ("statemachine/contrib/diagram.py", "            transition.source.id,\n            transition.target.id,", "            transition.source.id,\n            transition.target.value,"),
    ("statemachine/contrib/diagram.py", "        graph.add_edge(self._initial_edge())\n", ""),
    ("statemachine/contrib/diagram.py", "            label=f\"{transition.event}{cond}\",", "            label=f\"{transition.event}\","),
    ("statemachine/contrib/diagram.py", "            if transition.internal\n        )", "        )"),
    ("statemachine/engines/base.py", "class BaseEngine:\n", "class BaseEngine:\n    _processing = Lock()\n"),
    ("statemachine/engines/base.py", "        self._external_queue.append(trigger_data)", "        self._external_queue.appendleft(trigger_data)"),
    ("statemachine/engines/base.py", "        transition._specs.clear()\n", ""),
    ("statemachine/event_data.py", "        kwargs[\"source\"] = self.source", "        kwargs[\"source\"] = self.state"),
    ("statemachine/event_data.py", "        self.state = self.transition.source", "        self.state = self.transition.target"),
    ("statemachine/engines/sync.py", "        super().start()\n        self.activate_initial_state()", "        super().start()"),
    ("statemachine/factory.py", "            transitions._on_event_defined(event=event, states=list(cls.states))", "            transitions._on_event_defined(event=event, states=cls.states)"),
    ("statemachine/factory.py", "        cls.states_map[state.value] = state\n", "        cls.states_map.setdefault(state.value, state)\n"),
    ("statemachine/factory.py", "            if inherited and event._has_real_id:\n                event = Event(id=event.id, name=event.name)\n", ""),
    ("statemachine/factory.py", "            \"send\",\n", ""),
    ("statemachine/factory.py", "        if not hasattr(cls, id):\n            setattr(cls, id, state)", "        setattr(cls, id, state)"),
    ("statemachine/factory.py", "                cls.add_state(state.id, state, inherited=True)", "                cls.add_state(state.id, state)"),
    ("statemachine/transition.py", "                f\"on_{event}\",\n                priority=CallbackPriority.NAMING,\n                is_convention=True,\n                cond=same_event_cond,", "                f\"on_{event}\",\n                priority=CallbackPriority.NAMING,\n                is_convention=True,"),
    ("statemachine/transition.py", "            priority=CallbackPriority.AFTER,", "            priority=CallbackPriority.GENERIC,"),
    ("statemachine/callbacks.py", "            and self.expected_value == other.expected_value\n", ""),
    ("statemachine/callbacks.py", "        if spec in self.items:\n            return\n", ""),
    ("statemachine/callbacks.py", "    NAMING = 30", "    NAMING = 15"),
    ("statemachine/event.py", "        return self == event\n", "        return event is None or self == event\n"),
    ("statemachine/state.py", "        self.exit.add(f\"on_exit_{self.id}\", priority=CallbackPriority.NAMING, is_convention=True)", "        self.exit.add(f\"on_exit_{self.id}\", priority=CallbackPriority.GENERIC, is_convention=True)"),
    ("statemachine/event.py", "    def __repr__(self):\n        return f\"{type(self).__name__}({self.id!r})\"\n", "    def __repr__(self):\n        return f\"{type(self).__name__}({self.id!r})\"\n\n    def __deepcopy__(self, memo):\n        return self\n"),
    ("statemachine/transition_list.py", "    def _on_event_defined(self, event: str, states: List[\"State\"]):", "    def __ior__(self, other):\n        return self.add_transitions(other)\n\n    def _on_event_defined(self, event: str, states: List[\"State\"]):"),
    ("statemachine/state.py", "        return isinstance(other, State) and self.name == other.name and self.id == other.id", "        return (isinstance(other, State) and self.name == other.name and self.id == other.id) or other == self.value"),
    ("statemachine/state.py", "        return self._machine().current_state == self", "        return self._machine().current_state_value == self.value"),
    ("statemachine/event.py", "        return BoundEvent(id=self.id, name=self.name, _sm=instance)", "        return instance.__dict__.setdefault(\"_ev_\" + self.id, BoundEvent(id=self.id, name=self.name, _sm=instance))"),
    ("statemachine/dispatcher.py", "            return reduce(custom_and, callbacks)", "            return callbacks[-1]"),
    ("statemachine/dispatcher.py", "        if not expression or names_not_found:", "        if not expression:"),
    ("statemachine/dispatcher.py", "                if getattr(func, \"__func__\", None) is spec.func:", "                if getattr(type(listener.obj), spec.attr_name, None) is spec.func:"),
    ("statemachine/dispatcher.py", "            names_not_found_handler(name)\n", ""),
    ("statemachine/utils.py", "        return loop.run_until_complete(task)", "        return loop.run_until_complete(asyncio.wait_for(task, 30))"),
    ("statemachine/utils.py", "_cached_loop = threading.local()", "class _Holder:\n    pass\n\n\n_cached_loop = _Holder()"),
    ("statemachine/utils.py", "        return iter(obj)", "        return list(obj)[:1]"),
    ("statemachine/mixins.py", "        sm = machine_cls(self, state_field=self.state_field_name)", "        sm = machine_cls(self)"),
    ("statemachine/mixins.py", "        super().__init__(*args, **kwargs)\n        if not self.state_machine_name:", "        if not self.state_machine_name:"),
    ("statemachine/exceptions.py", "        self.event = event\n", "        self.event = str(event)\n"),
    ("statemachine/registry.py", "    _REGISTRY[cls.__name__] = cls\n", "    _REGISTRY.setdefault(cls.__name__, cls)\n"),
    ("statemachine/state.py", "        if self.value is None:\n            self.value = id", "        if not self.value:\n            self.value = id"),
    ("statemachine/state.py", "            enter, priority=CallbackPriority.INLINE", "            enter, priority=CallbackPriority.GENERIC"),
    ("statemachine/state.py", "        self.transitions = TransitionList()\n        self._specs", "        self.transitions = _EMPTY\n        self._specs"),
    ("statemachine/states.py", "initial=e is initial", "initial=e == initial"),
    ("statemachine/states.py", "        self._states[state.id] = state", "        self._states.setdefault(state.id, state)"),
    ("statemachine/event.py", "        _has_real_id = id is not None", "        _has_real_id = bool(id)"),
    ("statemachine/event.py", "        if transitions:\n            instance._transitions", "        if transitions is not None:\n            instance._transitions"),
    ("statemachine/callbacks.py", "            self.is_bounded = hasattr(func, \"__self__\")", "            self.is_bounded = inspect.ismethod(func)"),
    ("statemachine/callbacks.py", "            and self.group == CallbackGroup.COND\n", ""),
]


HARMLESS_EDITS = [
    # (file, old text, new text — every occurrence): edits that change nothing the code does (comments, names of
    # locals and comprehension variables, annotations); the translator must derive the very same scripts
    ("statemachine/signature.py", "        arguments = {}\n", "        # collected so far\n        arguments: dict = {}\n"),
    ("statemachine/signature.py", "arg_vals", "positional_values"),
    ("statemachine/signature.py", "kwargs_param", "varkw_param"),
    ("statemachine/graph.py", "already_visited", "seen"),
    ("statemachine/states.py", "        final_set = set(", "        # the finals\n        final_set = set("),
    ("statemachine/states.py", "{\n                e.name: State(\n                    value=(e if use_enum_instance else e.value),\n                    initial=e is initial,\n                    final=e in final_set,\n                )\n                for e in enum_type", "{\n                member.name: State(\n                    value=(member if use_enum_instance else member.value),\n                    initial=member is initial,\n                    final=member in final_set,\n                )\n                for member in enum_type"),
    ("statemachine/utils.py", "        task = asyncio.ensure_future", "        # schedule it\n        task = asyncio.ensure_future"),
    ("statemachine/mixins.py", " sm = machine_cls(", " sm: object = machine_cls("),
    ("statemachine/graph.py", "    visit = deque()", "    # breadth first\n    visit = deque()"),
    ("statemachine/factory.py", "        trap_states = [s for s in cls.states if not s.final and not s.transitions]",
     "        trap_states = [st for st in cls.states if not st.final and not st.transitions]  # no way out"),
    ("statemachine/factory.py", "        has_states = bool(cls.states)", "        has_states = bool(cls.states)  # any state at all?"),
    ("statemachine/statemachine.py", "        listeners = state.pop(\"_listeners\")",
     "        # what the original remembered\n        listeners = state.pop(\"_listeners\")"),
    ("statemachine/callbacks.py", "        seen_key = (key, spec.expected_value)", "        seen_key = (key, spec.expected_value)  # cond and unless differ"),
    ("statemachine/contrib/diagram.py", "        actions = self._state_actions(state)\n\n        node = pydot.Node(",
     "        actions = self._state_actions(state)\n        # the node itself\n        node = pydot.Node("),
    ("statemachine/transition_list.py", "tmp_ordered_unique_events_as_keys_on_dict", "ordered"),
    ("statemachine/dispatcher.py", "            func = getattr(listener.obj, name)\n", "            func = getattr(listener.obj, name)  # may be anything\n"),
    ("statemachine/engines/sync.py", "        executed = False\n", "        executed = False  # nothing ran yet\n"),
    ("statemachine/engines/async_.py", "first_result", "first"),
    ("statemachine/event_data.py", "        kwargs = self.trigger_data.kwargs.copy()\n", "        kwargs = self.trigger_data.kwargs.copy()  # the user's own\n"),
]


def harmless(repo):
    """every edit of HARMLESS_EDITS applied (alone) to a scratch copy: the derived scripts must stay the same.
    -> (applied, unchanged, [edits that changed something])"""
    import shutil
    import tempfile
    reads = {}
    base = translate(repo, reads=reads)
    applied, same, changed = 0, 0, []
    tmp = tempfile.mkdtemp(prefix="srcgen_harmless_")
    try:
        for rel in _all_sources(repo):
            os.makedirs(os.path.dirname(os.path.join(tmp, rel)), exist_ok=True)
            shutil.copy(os.path.join(repo, rel), os.path.join(tmp, rel))
        for rel, old, new in HARMLESS_EDITS:
            src = _read(os.path.join(repo, rel), repo)
            if old not in src:
                continue
            applied += 1
            with open(os.path.join(tmp, rel), "w") as f:
                f.write(src.replace(old, new))
            got = translate(tmp, only={k for k in base if rel in reads[k]})
            if all(got[k][1] == base[k][1] and got[k][2] == base[k][2] for k in got):
                same += 1
            else:
                changed.append((rel, old.strip()[:60]))
            shutil.copy(os.path.join(repo, rel), os.path.join(tmp, rel))
    finally:
        shutil.rmtree(tmp, ignore_errors=True)
    return applied, same, changed


def _all_sources(repo):
    out = []
    for root, _d, fs in os.walk(os.path.join(repo, "statemachine")):
        for f in fs:
            if f.endswith(".py"):
                out.append(os.path.relpath(os.path.join(root, f), repo))
    return out


def selftest(repo):
    """every edit of SELFTEST_EDITS applied (alone) to a scratch copy of the files the translator reads: it has to
    notice each of them. -> (applied, detected, [edits it did not notice])"""
    import shutil
    import tempfile
    reads = {}
    base = translate(repo, reads=reads)
    applied, detected, blind = 0, 0, []
    tmp = tempfile.mkdtemp(prefix="srcgen_selftest_")
    try:
        # (all sources: several translators read more than the file they are listed under)
        for rel in _all_sources(repo):
            os.makedirs(os.path.dirname(os.path.join(tmp, rel)), exist_ok=True)
            shutil.copy(os.path.join(repo, rel), os.path.join(tmp, rel))
        same = translate(tmp)
        if any(same[k][1] != base[k][1] or same[k][2] != base[k][2] for k in base):
            raise RuntimeError("translator self-test: the unedited scratch copy translates differently")
        for rel, old, new in SELFTEST_EDITS:
            src = _read(os.path.join(repo, rel), repo)
            if src.count(old) != 1:
                continue            # the tree under test no longer has that text: nothing to edit
            applied += 1
            with open(os.path.join(tmp, rel), "w") as f:
                f.write(src.replace(old, new))
            got = translate(tmp, only={k for k in base if rel in reads[k]})   # (what read the edited file)
            if any(got[k][1] != base[k][1] or got[k][2] != base[k][2] for k in got):
                detected += 1
            else:
                blind.append((rel, old.strip()[:60]))
            shutil.copy(os.path.join(repo, rel), os.path.join(tmp, rel))
    finally:
        shutil.rmtree(tmp, ignore_errors=True)
    return applied, detected, blind


HEADER = """import SMV.Src.IR
import SMV.Src.IRBind
import SMV.Src.IRCheck
import SMV.Src.IRStore
import SMV.Src.IRReg
import SMV.Src.IRDecl
import SMV.Src.IRDiagram
import SMV.Src.IREng
import SMV.Src.IRFactory
import SMV.Src.IRSpec
import SMV.Src.IRSurface
import SMV.Src.IRTake
import SMV.Src.IRGlue
import SMV.Src.IRObj
/-! GENERATED by `harness/srcgen.py --write-expected` from the tree the theorems of `SMV/Src/Tie.lean` were
proved for. Do not edit by hand. -/
"""


def main(argv):
    repo = os.environ.get("VERIF_REPO", "/repo")
    if "--repo" in argv:
        repo = argv[argv.index("--repo") + 1]
    res = translate(repo)
    bad = {k: v[2] for k, v in res.items() if v[2]}
    if "--selftest" in argv:
        a, d, blind = selftest(repo)
        print(f"translator self-test: {d}/{a} edits noticed")
        for b in blind:
            print("  not noticed:", b)
        ha, hs, hc = harmless(repo)
        print(f"harmless edits: {hs}/{ha} leave the scripts unchanged")
        for b in hc:
            print("  changed the scripts:", b)
        return 0 if a == d and ha == hs else 1
    if "--write-expected" in argv:
        if bad:
            print("untranslatable:", bad, file=sys.stderr)
            return 1
        with open(EXPECTED, "w") as f:
            f.write(HEADER + lean_defs(res, "SMV.Src.Expected"))
        print("wrote", EXPECTED)
        return 0
    sys.stdout.write(lean_defs(res, "SMV.Src.Gen"))
    for k, v in bad.items():
        print(f"-- untranslatable {k}: {v}")
    return 1 if bad else 0


if __name__ == "__main__":
    sys.exit(main(sys.argv[1:]))
