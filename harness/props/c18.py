"""C18 — the generated diagram is a faithful picture of the machine.

Lean: `SMV.Props.C18` (theorems about `getGraph`, the model of `DotGraphMachine.get_graph`).
Correspondence: generated machine definitions -> real class from /repo -> `DotGraphMachine(x)()` /
`x._graph()` for the class and for instances in every state (after random walks with `send`, and with
`current_state_value` assigned directly) -> pydot objects read with get_nodes/get_edges/
get_attributes/get_source/get_destination, in `add_*` call order -> compared item by item with the
output of the Lean driver `drv_diagram`.  Second view: the DOT *text* (`to_string()`) read with the
semantics of the DOT language.  Independently, the Spec (`diagram_spec.check`, written from the
English property) is evaluated on both views of the implementation's graph.
"""
from __future__ import annotations

import multiprocessing as mp
import os
import random
import subprocess

import diagram_corr as dc
import diagram_gen as dg
from common import LEAN, VERIF
from framework import known_findings, lean_obligations, scn_hash

TAG = "C18"
CORPUS = os.path.join(VERIF, "corpus", "C18")
# known-finding probes: exclusion key -> (replay file, id lists of further probe machines)
PROBES = {
    "state-id-i": ("state_id_i.txt", [["a", "i"], ["i", "b"], ["s0", "i", "s1"]]),
    "state-id-dot-keyword": ("state_id_node.txt", [["a", "node"], ["Edge", "b"], ["a", "GRAPH", "c"]]),
}


def _gen(seed, i):
    return dg.gen_scenario(random.Random(f"{seed}:{TAG}:{i}"), f"{TAG}-{seed}-{i}")


def _summ(r: dc.Result):
    s = r.s
    return dict(
        name=s.name, json=dg.to_json(s), deferr=r.deferr, graphs=r.graphs,
        hash=scn_hash(dc.machine_text(s)), nontrivial=dc.nontrivial(s),
        subjects=sorted(r.subjects), spec=len(r.spec_fails), diff=len(r.diffs), walk_steps=r.walk_steps,
        dist=dict(
            states=len(s.states), trans=len(s.trans),
            internal=sum(t.internal for t in s.trans), finals=sum(st.final for st in s.states),
            guarded=sum(bool(t.cond or t.unless) for t in s.trans),
            unless=sum(bool(t.unless) for t in s.trans),
            multi_event=sum(len(dg.trans_events(t)) > 1 for t in s.trans),
            parallel=_parallel(s), self_ext=sum((not t.internal) and t.src == t.tgt for t in s.trans),
            named=sum(bool(st.name) for st in s.states), valued=sum(st.value is not None for st in s.states),
            custom_style=int(s.fill is not None or s.pen is not None),
            model_cbs=len(s.model_methods), subclass=int(s.subclass), via_graph=int(s.via == "graph" and s.fill is None and s.pen is None),
        ),
    )


def _parallel(s):
    pairs = {}
    for t in s.trans:
        if not t.internal:
            pairs[(t.src, t.tgt)] = pairs.get((t.src, t.tgt), 0) + 1
    return sum(1 for v in pairs.values() if v > 1)


def _chunk(args):
    seed, lo, hi = args
    return [_summ(r) for r in dc.evaluate([_gen(seed, i) for i in range(lo, hi)])]


def _line_coverage(seed):
    """which lines of the anchored functions the generated machines execute (measured on 60 machines)"""
    import sys
    from statemachine.contrib import diagram as D
    fn = D.__file__
    hit = set()

    def local(frame, ev, arg):
        if ev == "line":
            hit.add(frame.f_lineno)
        return local

    def tr(frame, ev, arg):
        if frame.f_code.co_filename != fn:
            return None
        hit.add(frame.f_lineno)
        return local

    def lines_of(code):
        out = {l for _, _, l in code.co_lines() if l is not None and l != code.co_firstlineno}
        for c in code.co_consts:
            if hasattr(c, "co_lines"):
                out |= lines_of(c)
        return out

    want = set()
    for name in ("get_graph", "_get_graph", "_initial_node", "_initial_edge", "_actions_getter",
                 "_state_actions", "_state_as_node", "_transition_as_edge"):
        want |= lines_of(getattr(D.DotGraphMachine, name).__code__)
    sys.settrace(tr)
    try:
        dc.evaluate([dg.gen_scenario(random.Random(f"{seed}:{TAG}:cov:{i}"), f"{TAG}-cov-{i}") for i in range(60)])
    finally:
        sys.settrace(None)
    missed = sorted(want - hit)
    return dict(lines=len(want), executed=len(want & hit), missed=missed)


# ----------------------------------------------------------------------------- reporting

def _spec_bad(c):
    return bool(dc.evaluate_one(c).spec_fails)


def _diff_bad(c):
    r = dc.evaluate_one(c)
    return bool(r.diffs) and not r.spec_fails


def _report(ctx, s):
    """`s` disagreed with the model or failed the Spec: shrink, widen, write the replay, record."""
    r = dc.evaluate_one(s)
    if r.spec_fails:
        small = dc.shrink(s, _spec_bad)
        r2 = dc.evaluate_one(small)
        why = sorted({f"[{v}] {m}" for v, _, m in r2.spec_fails})[:6]
        h = scn_hash(dc.machine_text(small))
        path = ctx.write_replay(f"{h}.replay.txt", dc.replay_text(r2, "spec-fails-on-implementation", why))
        ctx.violation(path, why[0] if why else "spec fails")
        return
    if not r.diffs:
        return
    small = dc.shrink(s, _diff_bad)
    # widen: does the Spec fail on a neighbour of the disagreeing machine?
    rng = random.Random(scn_hash(dg.to_json(small)))
    found = None
    for k in range(80):
        c = dc.perturb(rng, small if k % 2 else s)
        c.name = f"{small.name}-w{k}"
        try:
            rc = dc.evaluate_one(c)
        except Exception:
            continue
        if rc.deferr is None and rc.spec_fails:
            found = c
            break
    if found is not None:
        found = dc.shrink(found, _spec_bad)
        r2 = dc.evaluate_one(found)
        why = sorted({f"[{v}] {m}" for v, _, m in r2.spec_fails})[:6]
        h = scn_hash(dc.machine_text(found))
        path = ctx.write_replay(f"{h}.replay.txt", dc.replay_text(r2, "spec-fails-on-implementation", why))
        ctx.violation(path, why[0] if why else "spec fails")
        return
    r2 = dc.evaluate_one(small)
    v, sj, d = r2.diffs[0]
    why = [f"correspondence corr:C18:get_graph[{v}] no longer checks (theorems of SMV.Props.C18 speak about the "
           f"model only): first difference at item {d[0]}: implementation {d[1]!r} vs model {d[2]!r}; the Spec "
           f"holds on this machine and on 80 neighbours"]
    h = scn_hash(dc.machine_text(small))
    path = ctx.write_replay(f"{h}.replay.txt", dc.replay_text(r2, "model-implementation-disagreement", why))
    ctx.violation(path, "correspondence", no_input=True)


def _replay(ctx):
    path = ctx.replay if os.path.isabs(ctx.replay) else os.path.join(VERIF, ctx.replay)
    s = dc.load_replay(path)
    r = dc.evaluate_one(s)
    print(dc.replay_text(r, "replay", [f"[{v}] {m}" for v, _, m in r.spec_fails][:8] or ["no Spec failure"]))
    ctx.coverage.update(evaluations=r.graphs, distinct_nontrivial=int(dc.nontrivial(s)),
                        rule="replay of one scenario", samples=[])
    if r.deferr:
        print(f"scenario is not a valid machine: {r.deferr}")
        return
    known = {k.get("exclusion"): k for k in known_findings(ctx.prop) if k.get("status") == "known"}
    ids = {st.id for st in s.states}
    excl = None
    if "i" in ids:
        excl = "state-id-i"
    elif any(x.lower() in dg.EXCLUDED_IDS_CI for x in ids):
        excl = "state-id-dot-keyword"
    if r.spec_fails:
        if excl in known:
            ctx.known_printed.append(known[excl].get("what", excl))
        else:
            ctx.violation(os.path.relpath(path, VERIF), r.spec_fails[0][2])
    elif r.diffs:
        ctx.violation(os.path.relpath(path, VERIF), "correspondence", no_input=True)


def _probes(ctx, stats):
    """the two recorded defects: still failing -> KNOWN-FINDING (if listed) / VIOLATION (if not)"""
    known = {k.get("exclusion"): k for k in known_findings(ctx.prop) if k.get("status") == "known"}
    for key, (fn, idlists) in PROBES.items():
        scns = []
        p = os.path.join(CORPUS, fn)
        if os.path.exists(p):
            scns.append(dc.load_replay(p))
        for ids in idlists:
            scns.append(dg.gen_scenario(random.Random(f"{ctx.seed}:{TAG}:probe:{key}:{ids}"),
                                        f"{TAG}-probe-{'-'.join(ids)}", ids=ids))
        failing = []
        for r in dc.evaluate(scns):
            stats["probe_graphs"] = stats.get("probe_graphs", 0) + r.graphs
            if r.deferr is None and r.spec_fails:
                failing.append(r)
        stats[f"probe:{key}"] = f"{len(failing)}/{len(scns)} machines fail the Spec"
        if not failing:
            continue
        if key in known:
            ctx.known_printed.append(known[key].get("what", key))
        else:
            r = failing[0]
            why = sorted({f"[{v}] {m}" for v, _, m in r.spec_fails})[:6]
            rel = os.path.relpath(p, VERIF)
            if not os.path.exists(p) or r.s.name != scns[0].name:
                rel = ctx.write_replay(f"probe_{key}.replay.txt",
                                       dc.replay_text(r, "spec-fails-on-implementation", why))
            ctx.violation(rel, why[0])


# ----------------------------------------------------------------------------- the check

def run(ctx):
    lean_obligations(ctx)
    b = subprocess.run(["lake", "build", "drv_diagram"], cwd=LEAN, capture_output=True, text=True)
    if b.returncode != 0:
        ctx.lean["failed"].append("build drv_diagram:" + (b.stdout + b.stderr)[-800:])
        return
    if ctx.replay:
        _replay(ctx)
        return
    from framework import run_py_corpus
    ctx.coverage["corpus_programs"] = run_py_corpus(ctx)
    ctx.coverage["rule"] = (
        "seeded random machine definitions (1-6 states; finals; self, internal, multi-event and parallel "
        "transitions; cond/unless guards by name, callable and boolean expression; entry/exit/on actions by "
        "name/callable/convention from machine and model; explicit names/values; custom colours); each machine: "
        "its class + an instance after construction, after every send of 1-3 random walks, with "
        "current_state_value set to every state, and with an invalid stored value. evaluations = graphs compared; "
        "non-trivial = the machine has an internal transition, a final state, a guard or a multi-event "
        "transition; distinct = distinct (hash of the machine text, subject)")
    stats = {}
    _probes(ctx, stats)
    stats["anchored_line_coverage_diagram_py"] = _line_coverage(ctx.seed)
    target = 800 if ctx.tier == "quick" else 80000
    nproc = 1 if ctx.tier == "quick" else min(16, os.cpu_count() or 1)
    chunk = 100 if ctx.tier == "quick" else 250
    summaries, bad = [], []
    # corpus: regression scenarios that must pass
    corpus = []
    if os.path.isdir(CORPUS):
        for fn in sorted(os.listdir(CORPUS)):
            if fn.endswith(".json"):
                corpus.append(dg.from_json(open(os.path.join(CORPUS, fn)).read()))
    for r in dc.evaluate(corpus):
        summaries.append(_summ(r))
    jobs = [(ctx.seed, lo, min(lo + chunk, target)) for lo in range(0, target, chunk)]
    reserve = 8 if ctx.tier == "quick" else 45

    def consume(batch):
        for sm in batch:
            summaries.append(sm)
            if (sm["spec"] or sm["diff"]) and sm["deferr"] is None:
                bad.append(sm)

    if nproc == 1:
        for j in jobs:
            if ctx.left() < reserve or len(bad) >= 3:
                stats["stopped_early"] = f"at scenario {j[1]}"
                break
            consume(_chunk(j))
    else:
        with mp.Pool(nproc) as pool:
            for batch in pool.imap(_chunk, jobs):
                consume(batch)
                if ctx.left() < reserve or len(bad) >= 3:
                    stats["stopped_early"] = "time budget or 3 failures"
                    pool.terminate()
                    break
    for sm in bad[:3]:
        _report(ctx, dg.from_json(sm["json"]))
    ok = [sm for sm in summaries if sm["deferr"] is None]
    dist = {}
    for sm in ok:
        for k, v in sm["dist"].items():
            if k in ("states",):
                dist[f"states={v}"] = dist.get(f"states={v}", 0) + 1
            elif k == "trans":
                dist[f"trans={min(v, 9)}"] = dist.get(f"trans={min(v, 9)}", 0) + 1
            else:
                dist["machines_with_" + k] = dist.get("machines_with_" + k, 0) + int(v > 0)
    nontriv = {(sm["hash"], tuple(sj)) for sm in ok if sm["nontrivial"] for sj in sm["subjects"]}
    graphs = sum(sm["graphs"] for sm in ok) + stats.get("probe_graphs", 0)
    disagree = sum(1 for sm in ok if sm["diff"])
    samples = []
    for sm in ok[:3]:
        s = dg.from_json(sm["json"])
        r = dc.evaluate_one(s)
        sub, items, _, err, text = r.ob.subjects[min(1, len(r.ob.subjects) - 1)]
        samples.append(dict(machine=dg.model_lines(s, [sub])[:14], subject=list(sub),
                            implementation=[dc.di.item_line(it) for it in (items or [])][:12],
                            dot_text=text.split("\n")[:14]))
    ctx.coverage.update(
        evaluations=graphs, machines=len(ok), distinct_machines=len({sm["hash"] for sm in ok}),
        distinct_nontrivial=len(nontriv), invalid_definitions=len(summaries) - len(ok),
        traces_validated_against_impl=graphs - sum(sm["diff"] for sm in ok),
        machines_disagreeing=disagree, machines_failing_spec=sum(1 for sm in ok if sm["spec"]),
        walk_steps=sum(sm["walk_steps"] for sm in ok), corpus=len(corpus), samples=samples,
        distribution=dist, views=["pydot objects in add_node/add_edge order", "DOT text with DOT-language semantics"],
        excluded_from_generation=["state id 'i' (known finding state-id-i)",
                                  "state ids node/edge/graph in any letter case (known finding state-id-dot-keyword)",
                                  "backslash or newline in state names (escString interpretation of labels)"],
        processes=nproc, **stats)
