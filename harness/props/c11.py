"""C11 — initial activation happens once; a stored state is resumed untouched."""
import gen
from engcorr import c11_monitor, engine_check, split_ops
from framework import lean_obligations

PROFILE = gen.Profile(
    max_states=5, extra_trans=(1, 6),
    p_group=dict(validators=0.1, cond=0.2, unless=0.1, before=0.25, on=0.3, after=0.3, enter=0.7, exit=0.3),
    p_conv=0.3, p_nested=0.5, max_nested_rows=3, p_raise=0.05, p_validator_raise=0.05, p_unknown_event=0.05,
    n_ops=(2, 9), p_rtc_off=0.4, p_allow=0.3, p_cur0=0.5, p_start=0.4, p_activate=0.2, p_reconstruct=0.2,
    p_write=0.07, p_fresh=0.12,
)
PROFILE_ASYNC = gen.Profile(**{**PROFILE.__dict__, "p_coro": 0.5, "drivers": ("facade", "loop"), "p_rtc_off": 0.0})


def nontrivial(s, a, rt):
    """the stored state is not the initial one, or an enter callback of the start state sent an
    event during activation, or activation/construction is repeated"""
    init = [st.val for st in s.states if st.initial]
    if s.cur0 is not None and init and s.cur0 != init[0]:
        return True
    if sum(1 for o in s.ops if o[0] in ("activate", "reconstruct")) >= 1:
        return True
    return any(l.startswith("S 0 enter") for l in a)


def mutate(rng, s):
    # nested sends from the start state's enter callbacks at the initial trigger
    ent = [c for c in s.cbs if c.group == "enter" and c.style not in ("attr", "evref")]
    evs = sorted({e for t in s.trans for e in t.events})
    if ent and evs and rng.random() < 0.4 and s.cur0 is None:
        c = rng.choice(ent)
        cbm = {x.id: x for x in s.cbs}
        raising = any(a[4] is not None and a[1] <= 0 <= a[2] and cbm.get(a[0]) is not None and cbm[a[0]].group == "enter"
                      for a in s.acts)      # (siblings of a raising callback: unconstrained, DESIGN 3.2)
        if not raising and not any(a[5] for a in s.acts if a[1] <= 0 <= a[2]):
            s.acts.insert(0, (c.id, 0, 0, 0, None, [rng.choice(evs)]))
    elif ent and evs and s.cur0 is None and rng.random() < 0.25:
        # the first activation *fails*: an enter callback of the start state raises (after the state was stored); the
        # machine is used on — activated again, sent events: the activation is not repeated, nothing stale is left
        init = [k for k, st in enumerate(s.states) if st.initial]
        start_k = init[0] if init else None
        if s.start is not None:
            ks = [k for k, st in enumerate(s.states) if st.val == s.start]
            start_k = ks[0] if ks else None
        mine = [c for c in ent if c.at == ("s", start_k) or c.style == "conv" and c.name == "on_enter_state"]
        sib = gen.sibling_map(s)
        cbm = {x.id: x for x in s.cbs}
        mine = [c for c in mine if all(cbm[x].yields == 0 for x in sib.get(c.id, ()) if x != c.id)]
        if mine and start_k is not None and not any(a[1] <= 0 <= a[2] for a in s.acts):
            c = rng.choice(mine)
            s.acts.insert(0, (c.id, 0, 0, 0, rng.randint(1, 19), []))
            s.ops = list(s.ops) + [("activate",), ("send", rng.choice(evs)), ("send", rng.choice(evs))]


def probe_created_inside_callback(seed, cases=40):
    """A machine created while another machine is in the middle of a transition (from one of its callbacks, any
    group): the new machine enters its initial (or start) state exactly once, at once, runs only that state's enter
    callbacks, and an event sent to it right away is processed before the constructor's caller goes on — whatever the
    other machine is doing. Direct Spec on the implementation (the model has one machine per operation)."""
    import random
    import warnings
    from statemachine import State, StateMachine
    fails = []
    for k in range(cases):
        rng = random.Random(f"{seed}:created-inside:{k}")
        grp = rng.choice(["before", "on", "after", "enter", "exit", "cond", "validators"])
        rtc_parent, rtc_child = rng.random() < 0.8, rng.random() < 0.8
        use_start = rng.random() < 0.3
        stored = rng.random() < 0.25
        same_class = rng.random() < 0.3
        log = []

        class Child(StateMachine):
            c0 = State(initial=True)
            c1 = State()
            c2 = State(final=True)
            step = c0.to(c1) | c1.to(c2)

            def on_enter_c0(self):
                log.append(("child-enter", "c0"))

            def on_enter_c1(self):
                log.append(("child-enter", "c1"))

            def on_step(self):
                return "stepped"

        class Rec:
            state = None

        made = {}

        def body(self, *a, **kw):
            if "child" in made:
                return True
            log.append(("parent-cb", grp))
            m = Rec()
            if stored:
                m.state = "c1"
            kwargs = dict(rtc=rtc_child)
            if use_start and not stored:
                kwargs["start_value"] = "c1"
            cls = type(self) if same_class else Child
            if same_class:
                kwargs = dict(rtc=rtc_child)
                m = Rec()
            ch = cls(m, **kwargs)
            made["child"] = ch
            made["state_right_after"] = ch.current_state.id
            if not same_class:
                made["step_result"] = ch.send("step")
                made["state_after_step"] = ch.current_state.id
            log.append(("parent-cb-end", grp))
            return True

        ns = {}
        a, b = State(initial=True), State()
        kw = {grp: "cb"} if grp in ("before", "on", "after", "cond", "validators") else {}
        ns.update(a=a, b=b, go=a.to(b, **kw), back=b.to(a), cb=body)
        if grp == "enter":
            ns["on_enter_b"] = body
        if grp == "exit":
            ns["on_exit_a"] = body
        with warnings.catch_warnings():
            warnings.simplefilter("ignore")
            try:
                P = type(StateMachine)("Parent", (StateMachine,), ns)
                sm = P(rtc=rtc_parent)
                sm.send("go")
            except Exception as e:  # noqa: BLE001
                fails.append(f"case {k} (callback group {grp}): {type(e).__name__}: {e}")
                continue
        what = f"case {k} (group {grp}, parent rtc={rtc_parent}, child rtc={rtc_child}, start_value={use_start}, stored={stored}, same class={same_class})"
        if "child" not in made:
            fails.append(f"{what}: the callback did not run")
            continue
        if same_class:
            if made["state_right_after"] != "a":
                fails.append(f"{what}: the machine created inside the callback is in {made['state_right_after']!r} right after its constructor")
            continue
        want0 = "c1" if (stored or use_start) else "c0"
        if made["state_right_after"] != want0:
            fails.append(f"{what}: right after its constructor the new machine is in {made['state_right_after']!r}, expected {want0!r}")
            continue
        enters = [x for x in log if x[0] == "child-enter"]
        want_enters = ([] if stored else [("child-enter", want0)]) + [("child-enter", "c1")] * (want0 == "c0")
        if enters != want_enters:
            fails.append(f"{what}: enter callbacks of the new machine {enters}, expected {want_enters}")
        want_after = "c1" if want0 == "c0" else "c2"
        if made["step_result"] != "stepped" or made["state_after_step"] != want_after:
            fails.append(f"{what}: its first event returned {made['step_result']!r} and left it in {made['state_after_step']!r}, "
                         f"expected 'stepped' / {want_after!r}")
        if sm.current_state.id != "b":
            fails.append(f"{what}: the outer machine ended in {sm.current_state.id!r}")
    return fails


def probe_mixed_instances_of_one_class(seed, cases=30):
    """Instances of ONE class that differ in what their listeners / models provide — some with coroutine callbacks,
    some without — created in any order. Each instance for itself: without coroutine callbacks it is activated by its
    constructor (initial state entered once, enter callbacks run); with them the activation happens before its first
    event, the coroutine callbacks are awaited, exactly once."""
    import asyncio
    import random
    import warnings
    from statemachine import State, StateMachine
    fails = []
    for k in range(cases):
        rng = random.Random(f"{seed}:mixed-instances:{k}")

        class M(StateMachine):
            a = State(initial=True)
            b = State()
            go = a.to(b)
            back = b.to(a)

            def on_enter_a(self):
                self.seen.append("machine:enter_a")

            def __init__(self, *args, **kw):
                self.seen = []
                super().__init__(*args, **kw)

        class AL:
            def __init__(self):
                self.seen = []

            async def on_enter_state(self, state):
                await asyncio.sleep(0)
                self.seen.append(f"async:enter_{state.id}")

        class SL:
            def __init__(self):
                self.seen = []

            def on_enter_state(self, state):
                self.seen.append(f"sync:enter_{state.id}")

        kinds = [rng.choice(["plain", "async", "sync"]) for _ in range(rng.randint(2, 5))]
        if "async" not in kinds:
            kinds[rng.randrange(len(kinds))] = "async"
        if all(x == "async" for x in kinds):
            kinds[rng.randrange(len(kinds))] = "plain"
        made = []
        with warnings.catch_warnings():
            warnings.simplefilter("error", RuntimeWarning)       # a coroutine that is never awaited
            try:
                for kind in kinds:
                    lst = AL() if kind == "async" else SL() if kind == "sync" else None
                    sm = M(listeners=[lst]) if lst is not None else M()
                    made.append((kind, sm, lst, sm.current_state_value))
                for kind, sm, lst, _v in made:
                    sm.send("go")
            except Exception as e:  # noqa: BLE001
                fails.append(f"case {k} kinds={kinds}: {type(e).__name__}: {e}")
                continue
        for idx, (kind, sm, lst, v0) in enumerate(made):
            what = f"case {k} kinds={kinds}: instance {idx} ({kind})"
            if kind == "async":
                if v0 is not None:
                    fails.append(f"{what}: activated by its constructor although it has coroutine callbacks (state {v0!r})")
                if lst.seen != ["async:enter_a", "async:enter_b"]:
                    fails.append(f"{what}: its coroutine callbacks ran as {lst.seen}, expected each state entered once")
            else:
                if v0 != "a":
                    fails.append(f"{what}: not activated by its constructor (stored {v0!r})")
                if kind == "sync" and lst.seen != ["sync:enter_a", "sync:enter_b"]:
                    fails.append(f"{what}: its listener saw {lst.seen}")
            if sm.seen != ["machine:enter_a"]:
                fails.append(f"{what}: the initial state's own enter callback ran {sm.seen.count('machine:enter_a')} times")
            if sm.current_state.id != "b":
                fails.append(f"{what}: ended in {sm.current_state.id!r}")
    return fails


def probe_mixin_resume(seed, cases=24):
    """A domain model that gets its machine from `MachineMixin`, its fields — the stored state among them — from its own
    initialiser, with the mixin before or after the class that loads them in the MRO, or from a class attribute. A record
    that holds a state is *resumed*: no callback runs, the stored value is left alone; a record without one is activated
    exactly once."""
    import random
    import sys
    import warnings
    from statemachine import State, StateMachine
    from statemachine.mixins import MachineMixin
    try:
        from store_impl import _django
        _django()
    except Exception:  # noqa: BLE001
        pass
    fails = []
    mod = sys.modules[__name__]
    for k in range(cases):
        rng = random.Random(f"{seed}:mixin-resume:{k}")
        log = []
        stored = rng.choice([None, "draft", "paid", "shipped"])
        order = rng.choice(["mixin-first", "record-first", "class-attribute"])
        field = rng.choice(["state", "status"])
        bind = rng.random() < 0.4
        name = f"_MixinMachine{k}_{abs(hash(str(seed))) % 1000}"
        with warnings.catch_warnings():
            warnings.simplefilter("ignore")

            def on_enter_state(self, state, event):
                log.append(("machine", state.id, str(event)))
            M = type(StateMachine)(name, (StateMachine,), dict(
                draft=(d := State(initial=True)), paid=(pd := State()), shipped=(sh := State(final=True)),
                pay=d.to(pd), ship=pd.to(sh), on_enter_state=on_enter_state, __module__=__name__))
            setattr(mod, name, M)

            class Record:
                def __init__(self, **fields):
                    for n, v in fields.items():
                        setattr(self, n, v)
                    super().__init__()

            ns = dict(state_machine_name=f"{__name__}.{name}", state_field_name=field, bind_events_as_methods=bind,
                      on_enter_draft=lambda self: log.append(("model", "enter draft")),
                      on_enter_paid=lambda self: log.append(("model", "enter paid")))
            try:
                if order == "class-attribute":
                    ns[field] = stored
                    Order = type("Order", (MachineMixin,), ns)
                    o = Order()
                else:
                    bases = (MachineMixin, Record) if order == "mixin-first" else (Record, MachineMixin)
                    Order = type("Order", bases, ns)
                    o = Order(**{field: stored})
                at_creation = list(log)
                value = getattr(o, field)
                o.statemachine.activate_initial_state()
                after_activate = list(log)
            except Exception as e:  # noqa: BLE001
                fails.append(f"case {k} ({order}, field {field!r}, stored {stored!r}): {type(e).__name__}: {e}")
                continue
        what = f"case {k}: MachineMixin model ({order}, field {field!r}) created over a record that stores {stored!r}"
        if stored is None:
            want = [("machine", "draft", "__initial__"), ("model", "enter draft")]
            if sorted(at_creation) != sorted(want) or value != "draft":
                fails.append(f"{what}: callbacks at creation {at_creation}, field {value!r}; expected the initial state entered once")
        else:
            if at_creation or value != stored:
                fails.append(f"{what}: callbacks ran while resuming {at_creation}, field now {value!r}")
        if after_activate != at_creation:
            fails.append(f"{what}: activating again ran {after_activate[len(at_creation):]}")
    return fails


def run(ctx):
    lean_obligations(ctx)
    from framework import safe_probe
    for nm, fn in (("created_inside_callback", probe_created_inside_callback), ("mixed_instances_of_one_class", probe_mixed_instances_of_one_class), ("mixin_resume", probe_mixin_resume)):
        pf = safe_probe(fn, ctx.seed)
        ctx.coverage[nm + "_cases"] = 40 if nm.startswith("created") else 24 if nm.startswith("mixin_") else 30
        if pf:
            ctx.violation(ctx.write_replay(nm + ".txt", "\n".join(pf[:12]) + "\n"), pf[0][:200])
    from framework import run_py_corpus
    ctx.coverage["corpus_programs"] = run_py_corpus(ctx)
    ctx.coverage["rule"] = ("seeded random machines; every state value (and invalid ones) as the stored value with "
                            "probability 1/2, start_value with probability 0.4, re-activation and re-construction over "
                            "the same model at random points of the history, enter callbacks of the start state that "
                            "send events, rtc on/off, sync/async (facade and in-loop, events before/after explicit "
                            "activation); non-trivial = stored state differs from the initial one, or activation / "
                            "construction repeated, or the initial enter callbacks sent an event")
    engine_check(ctx, PROFILE, 900, 20000, nontrivial, monitor=c11_monitor, tag="C11s", mutate=mutate, share=0.62)
    cov1 = dict(ctx.coverage)
    engine_check(ctx, PROFILE_ASYNC, 300, 8000, nontrivial, monitor=c11_monitor, tag="C11a", mutate=mutate)
    for k in ("evaluations", "distinct_nontrivial", "traces_validated_against_impl", "disagreements", "monitor_failures"):
        ctx.coverage[k] = ctx.coverage.get(k, 0) + cov1.get(k, 0)
    ctx.coverage["distribution_sync"] = cov1.get("distribution")
