"""C11 — initial activation happens once; a stored state is resumed untouched."""
import gen
from engcorr import c11_monitor, engine_check, split_ops
from framework import lean_obligations

PROFILE = gen.Profile(
    max_states=5, extra_trans=(1, 6),
    p_group=dict(validators=0.1, cond=0.2, unless=0.1, before=0.25, on=0.3, after=0.3, enter=0.7, exit=0.3),
    p_conv=0.3, p_nested=0.5, max_nested_rows=3, p_raise=0.05, p_validator_raise=0.05, p_unknown_event=0.05,
    n_ops=(2, 9), p_rtc_off=0.4, p_allow=0.3, p_cur0=0.5, p_start=0.4, p_activate=0.2, p_reconstruct=0.2,
    p_write=0.07, p_fresh=0.12,
)
PROFILE_ASYNC = gen.Profile(**{**PROFILE.__dict__, "p_coro": 0.5, "drivers": ("facade", "loop"), "p_rtc_off": 0.0})


def nontrivial(s, a, rt):
    """the stored state is not the initial one, or an enter callback of the start state sent an
    event during activation, or activation/construction is repeated"""
    init = [st.val for st in s.states if st.initial]
    if s.cur0 is not None and init and s.cur0 != init[0]:
        return True
    if sum(1 for o in s.ops if o[0] in ("activate", "reconstruct")) >= 1:
        return True
    return any(l.startswith("S 0 enter") for l in a)


def mutate(rng, s):
    # nested sends from the start state's enter callbacks at the initial trigger
    ent = [c for c in s.cbs if c.group == "enter" and c.style not in ("attr", "evref")]
    evs = sorted({e for t in s.trans for e in t.events})
    if ent and evs and rng.random() < 0.4 and s.cur0 is None:
        c = rng.choice(ent)
        cbm = {x.id: x for x in s.cbs}
        raising = any(a[4] is not None and a[1] <= 0 <= a[2] and cbm.get(a[0]) is not None and cbm[a[0]].group == "enter"
                      for a in s.acts)      # (siblings of a raising callback: unconstrained, DESIGN 3.2)
        if not raising and not any(a[5] for a in s.acts if a[1] <= 0 <= a[2]):
            s.acts.insert(0, (c.id, 0, 0, 0, None, [rng.choice(evs)]))
    elif ent and evs and s.cur0 is None and rng.random() < 0.25:
        # the first activation *fails*: an enter callback of the start state raises (after the state was stored); the
        # machine is used on — activated again, sent events: the activation is not repeated, nothing stale is left
        init = [k for k, st in enumerate(s.states) if st.initial]
        start_k = init[0] if init else None
        if s.start is not None:
            ks = [k for k, st in enumerate(s.states) if st.val == s.start]
            start_k = ks[0] if ks else None
        mine = [c for c in ent if c.at == ("s", start_k) or c.style == "conv" and c.name == "on_enter_state"]
        sib = gen.sibling_map(s)
        cbm = {x.id: x for x in s.cbs}
        mine = [c for c in mine if all(cbm[x].yields == 0 for x in sib.get(c.id, ()) if x != c.id)]
        if mine and start_k is not None and not any(a[1] <= 0 <= a[2] for a in s.acts):
            c = rng.choice(mine)
            s.acts.insert(0, (c.id, 0, 0, 0, rng.randint(1, 19), []))
            s.ops = list(s.ops) + [("activate",), ("send", rng.choice(evs)), ("send", rng.choice(evs))]


def run(ctx):
    lean_obligations(ctx)
    from framework import run_py_corpus
    ctx.coverage["corpus_programs"] = run_py_corpus(ctx)
    ctx.coverage["rule"] = ("seeded random machines; every state value (and invalid ones) as the stored value with "
                            "probability 1/2, start_value with probability 0.4, re-activation and re-construction over "
                            "the same model at random points of the history, enter callbacks of the start state that "
                            "send events, rtc on/off, sync/async (facade and in-loop, events before/after explicit "
                            "activation); non-trivial = stored state differs from the initial one, or activation / "
                            "construction repeated, or the initial enter callbacks sent an event")
    engine_check(ctx, PROFILE, 900, 20000, nontrivial, monitor=c11_monitor, tag="C11s", mutate=mutate, share=0.62)
    cov1 = dict(ctx.coverage)
    engine_check(ctx, PROFILE_ASYNC, 300, 8000, nontrivial, monitor=c11_monitor, tag="C11a", mutate=mutate)
    for k in ("evaluations", "distinct_nontrivial", "traces_validated_against_impl", "disagreements", "monitor_failures"):
        ctx.coverage[k] = ctx.coverage.get(k, 0) + cov1.get(k, 0)
    ctx.coverage["distribution_sync"] = cov1.get("distribution")
