"""C14 — event results come only from before/on return values, by the documented rule."""
import gen
from engcorr import c14_monitor, engine_check, split_ops
from framework import lean_obligations

PROFILE = gen.Profile(
    max_states=4, extra_trans=(1, 6), p_multi_event=0.45, p_internal=0.2,
    p_group=dict(validators=0.15, cond=0.2, unless=0.1, before=0.6, on=0.6, after=0.35, enter=0.35, exit=0.35),
    max_per_group=3, p_conv=0.3, p_nested=0.05, p_raise=0.03, p_validator_raise=0.1, p_unknown_event=0.1,
    n_ops=(3, 12), p_rtc_off=0.25, p_allow=0.4,
)
PROFILE_ASYNC = gen.Profile(**{**PROFILE.__dict__, "p_coro": 0.5, "drivers": ("facade", "loop"), "p_rtc_off": 0.0})


def nontrivial(s, a, rt):
    """>=2 contributing callbacks, or exactly one returning None/list/tuple, or an event-scoped
    callback present on a multi-event transition"""
    for entries, R in split_ops(a):
        rets = [l.split(" ", 4)[4] for l in entries if l.startswith("E ") and l.split(" ")[2] in ("before", "on")]
        if len(rets) >= 2 or (len(rets) == 1 and rets[0][0] in "N[({"):
            return True
    return False


def run(ctx):
    lean_obligations(ctx)
    ctx.coverage["rule"] = ("seeded random machines with 0-3 before x 0-3 on callbacks in every attachment style and "
                            "provider, return pool None/0/''/[]/[1,2]/()/{}/str/float, internal/self/multi-event "
                            "transitions, both engines; non-trivial = an executed transition had >=2 contributing "
                            "callbacks or a single one returning None/a container")
    engine_check(ctx, PROFILE, 900, 20000, nontrivial, monitor=c14_monitor, tag="C14s")
    cov1 = dict(ctx.coverage)
    engine_check(ctx, PROFILE_ASYNC, 300, 8000, nontrivial, monitor=c14_monitor, tag="C14a")
    for k in ("evaluations", "distinct_nontrivial", "traces_validated_against_impl", "disagreements", "monitor_failures"):
        ctx.coverage[k] = ctx.coverage.get(k, 0) + cov1.get(k, 0)
    ctx.coverage["distribution_sync"] = cov1.get("distribution")
