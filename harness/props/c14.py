"""C14 — event results come only from before/on return values, by the documented rule."""
import gen
from engcorr import c14_monitor, engine_check, split_ops
from framework import lean_obligations

PROFILE = gen.Profile(
    max_states=4, extra_trans=(1, 6), p_multi_event=0.45, p_internal=0.2,
    p_group=dict(validators=0.15, cond=0.2, unless=0.1, before=0.6, on=0.6, after=0.35, enter=0.35, exit=0.35),
    max_per_group=3, p_conv=0.3, p_nested=0.3, max_nested_rows=3, p_raise=0.03, p_validator_raise=0.1, p_unknown_event=0.1,
    n_ops=(3, 12), p_rtc_off=0.25, p_allow=0.4,
)
# few result-bearing callbacks, many nested sends: an outer event whose own result is None while a
# chained event returns a value (the outermost call must still return None)
PROFILE_SPARSE = gen.Profile(**{**PROFILE.__dict__, "p_nested": 0.8, "max_nested_rows": 4, "p_rtc_off": 0.3,
                                "p_group": dict(validators=0.1, cond=0.15, unless=0.05, before=0.2, on=0.25, after=0.5,
                                                enter=0.5, exit=0.3)})
# (p_write: the model field assigned from outside — e.g. the record loaded after the machine was created, before its
# activation: the first event then runs behind the engine's own resumed activation and must still hand back its result)
PROFILE_ASYNC = gen.Profile(**{**PROFILE.__dict__, "p_coro": 0.5, "drivers": ("facade", "loop"), "p_rtc_off": 0.0,
                               "p_write": 0.12})
PROFILE_CHAIN = gen.Profile(**{**PROFILE.__dict__, "p_rtc_off": 0.5, "p_nested": 0.0, "p_raise": 0.0, "p_validator_raise": 0.0,
                               "p_unknown_event": 0.05, "p_coro": 0.15, "p_sync_scn": 0.6, "drivers": ("sync", "facade", "loop"),
                               "max_events": 5})


def nontrivial(s, a, rt):
    """>=2 contributing callbacks, or exactly one returning None/list/tuple, or an event-scoped
    callback present on a multi-event transition"""
    for entries, R in split_ops(a):
        rets = [l.split(" ", 4)[4] for l in entries if l.startswith("E ") and l.split(" ")[2] in ("before", "on")]
        if len(rets) >= 2 or (len(rets) == 1 and rets[0][0] in "N[({"):
            return True
    return False


def second_providers(rng, s):
    """mutate: a before/on action referenced by name is offered by a second provider too — both are called,
    both results count"""
    import copy
    import eng
    nid = max([c.id for c in s.cbs] + [0]) + 1
    aliased = {c.alias_of for c in s.cbs if c.alias_of} | {c.id for c in s.cbs if c.alias_of}
    provs = ["machine", "model"] + list(s.listeners_ctor)
    sharing = {c.name for c in s.cbs if c.same_as}
    for c in list(s.cbs):
        if c.style == "name" and c.group in ("before", "on") and c.id not in aliased and c.name not in sharing and rng.random() < 0.35:
            others = [p for p in provs if p != c.provider and not any(x.name == c.name and x.provider == p for x in s.cbs)]
            if others:
                d = copy.deepcopy(c)
                d.id, d.provider = nid, rng.choice(others)
                nid += 1
                s.cbs.append(d)
                s.acts.append((d.id, 0, 10**9, rng.choice(eng.RET_TOKS), None, []))


def chained_variants(rng, s):
    """expand: the scenario itself plus variants in which a callback of an event whose own result is
    None sends another event (the outermost call must still return None, whatever the chained event
    returns)."""
    import copy
    import eng
    impl, rt = eng.run_impl(s)
    if impl and impl[0].startswith("DEFERR"):
        return [s]
    evs = sorted({e for t in s.trans for e in t.events})
    spots = []
    for entries, R in split_ops(eng.canon(impl)):
        if len(R) > 3 and R[2] == "ok" and R[3] == "None" and s.ops[int(R[1])][0] == "send":
            kv = dict(p.split("=", 1) for p in R if "=" in p)
            for l in entries:
                p = l.split(" ")
                if p[0] == "B" and p[1] == kv.get("tid") and p[2] in ("before", "on", "after", "enter", "exit"):
                    c = rt.cbmap.get(int(p[3]))
                    if c is not None and not c.alias_of and int(p[3]) not in rt.aliases:
                        spots.append((int(p[3]), int(p[1])))
    out = [s]
    rng.shuffle(spots)
    for k, (cb, tid) in enumerate(spots[:2]):
        c = copy.deepcopy(s)
        c.name = f"{s.name}-n{k}"
        ret, rz, sends = rt.act(cb, tid)
        if rz is not None or sends:
            continue
        c.acts.insert(0, (cb, tid, tid, ret, None, [rng.choice(evs)]))
        out.append(c)
    return out


def probe_shared_declarations(seed, n):
    """one declaration that expands to several transitions — `t.from_(s1, s2, …, before=[…], on=(…))`,
    `s.to(t1, t2, …, on=[…])`, `t.from_.any(on=[…])` — gives every one of them the callbacks that were written:
    fired through the second or a later transition the event returns what C14 says, as through the first"""
    import random
    import warnings
    from statemachine import State, StateMachine

    rng = random.Random(f"{seed}:C14:shared")
    fails, cases = [], 0
    for i in range(n):
        k = rng.randint(2, 4)
        nb, no = rng.randint(0, 2), rng.randint(0, 3)
        if nb + no == 0:
            no = 1
        kind = rng.choice(["from", "to", "any"])
        cont = rng.choice([list, tuple])
        is_async = rng.random() < 0.3
        rets = {f"b{j}": rng.choice([None, j, f"b{j}", [j]]) for j in range(nb)}
        rets.update({f"o{j}": rng.choice([None, 10 + j, f"o{j}", (j,)]) for j in range(no)})
        ns = {}
        for name, val in rets.items():
            def cb(self, _v=val):
                return _v
            if is_async and name == "o0":
                async def cb(self, _v=val):     # noqa: F811
                    return _v
            ns[name] = cb
        hub = State("hub", initial=(kind == "to"))
        others = [State(f"S{j}", initial=(kind != "to" and j == 0)) for j in range(k)]
        ns["hub"] = hub
        for j, st in enumerate(others):
            ns[f"s{j}"] = st
        kw = {}
        if nb:
            kw["before"] = cont(f"b{j}" for j in range(nb))
        if no:
            kw["on"] = cont(f"o{j}" for j in range(no))
        if kind == "from":
            ns["go"] = hub.from_(*others, **kw)
            ns["back"] = hub.to(*others, cond="pick") if False else hub.to(others[0])
            for j in range(1, k):
                ns[f"back{j}"] = hub.to(others[j])
        elif kind == "any":
            ns["go"] = hub.from_.any(**kw)
            ns["back"] = hub.to(others[0])
            for j in range(1, k):
                ns[f"back{j}"] = hub.to(others[j])
        else:
            # from the hub to the first target whose guard holds: the guard picks the j-th transition
            ns["pick"] = -1
            for j in range(k):
                ns[f"is{j}"] = property(lambda self, _j=j: self.pick == _j)
            ns["go"] = hub.to(*others, **kw)      # every transition of the declaration gets the same callbacks…
            for j, st in enumerate(others):
                ns[f"back{j}"] = st.to(hub)
        want_list = [rets[f"b{j}"] for j in range(nb)] + [rets[f"o{j}"] for j in range(no)]
        want = None if not want_list else want_list[0] if len(want_list) == 1 else want_list
        try:
            with warnings.catch_warnings():
                warnings.simplefilter("ignore")
                cls = type(StateMachine)("Shared", (StateMachine,), ns)
                sm = cls()
                if is_async:
                    sm.activate_initial_state()
        except Exception as e:  # noqa: BLE001
            fails.append(f"[{kind} k={k} {cont.__name__}] construction raised {type(e).__name__}: {e}")
            continue
        cases += 1
        where = f"[{kind}, {k} transitions from one declaration, before={kw.get('before')} on={kw.get('on')} given as " \
                f"{cont.__name__}, {'async' if is_async else 'sync'}]"
        try:
            with warnings.catch_warnings():
                warnings.simplefilter("ignore")
                if kind == "to":
                    # (only the first target is reachable without guards: the per-transition callbacks are read off
                    # the declared transitions instead)
                    got = [[sp.func for sp in t._specs if sp.group.name in ("BEFORE", "ON") and not sp.is_convention]
                           for t in cls.hub.transitions]
                    exp = [list(kw.get("before", ())) + list(kw.get("on", ()))] * k
                    if got != exp:
                        fails.append(f"{where} the transitions carry {got}, declared {exp}")
                    continue
                for j in range(k):
                    if j:
                        sm.send(f"back{j}")
                    r = sm.send("go")
                    if r != want:
                        fails.append(f"{where} fired from S{j}: returned {r!r}, the callbacks return {want_list!r}")
                        break
                    if sm.current_state.id != "hub":
                        fails.append(f"{where} fired from S{j}: state {sm.current_state.id}")
                        break
        except Exception as e:  # noqa: BLE001
            fails.append(f"{where} raised {type(e).__name__}: {e}")
        if len(fails) >= 3:
            break
    return cases, fails


def probe_d45():
    """a plain callback of a machine without coroutine callbacks *returns* an awaitable as its value: `send()` takes
    the event's result for the engine's own coroutine, runs it and hands back what it returns"""
    import inspect
    import warnings
    from statemachine import State, StateMachine
    with warnings.catch_warnings():
        warnings.simplefilter("ignore")

        class M(StateMachine):
            a = State(initial=True)
            b = State()
            go = a.to(b)

            def on_go(self):
                async def later():
                    return 42
                return later()
        r = M().go()
    bad = not inspect.isawaitable(r)
    if not bad:
        r.close()
    return bad, f"sm.go() returned {r!r} instead of the coroutine object the only `on` callback returned"


def run(ctx):
    lean_obligations(ctx)
    from framework import known_findings
    known = {k.get("exclusion"): k for k in known_findings("C14") if k.get("status") == "known"}
    bad, what = probe_d45()
    if bad:
        if "callback-returning-an-awaitable" in known:
            ctx.known_printed.append(known["callback-returning-an-awaitable"]["what"] + " [" + what + "]")
        else:
            ctx.violation(ctx.write_replay("callback_returning_an_awaitable.txt", what + "\n"), what[:160])
    from framework import safe_probe
    from props.c12 import probe_names_like_machine_attributes
    pf = safe_probe(probe_names_like_machine_attributes, f"{ctx.seed}:c14")
    ctx.coverage["names_like_machine_attributes_cases"] = 30
    if pf:
        ctx.violation(ctx.write_replay("names_like_machine_attributes.txt", "\n".join(pf[:12]) + "\n"), pf[0][:200])
    ncases, sf = safe_probe(probe_shared_declarations, ctx.seed, 120 if ctx.tier == "quick" else 3000, pair=True)
    ctx.coverage["shared_declaration_cases"] = ncases
    if sf:
        ctx.violation(ctx.write_replay("shared_declarations.txt", "\n".join(sf[:12]) + "\n"), sf[0][:200])
    ctx.coverage["rule"] = ("seeded random machines with 0-3 before x 0-3 on callbacks in every attachment style and "
                            "provider, return pool None/0/''/[]/[1,2]/()/{}/str/float, internal/self/multi-event "
                            "transitions, both engines; non-trivial = an executed transition had >=2 contributing "
                            "callbacks or a single one returning None/a container")
    # four families, each with a share of what is left of the time budget; the chain family second: it is small, and the
    # only one in which a callback's value is another event's result (`rtc=False`)
    KEYS = ("evaluations", "distinct_nontrivial", "traces_validated_against_impl", "disagreements", "monitor_failures")
    acc = dict.fromkeys(KEYS, 0)
    fams = [
        ("sync", PROFILE, 600, 16000, dict(monitor=c14_monitor, tag="C14s", share=0.35,
                                           mutate=lambda rng, s: (second_providers(rng, s), gen.late_listeners(rng, s)))),
        # events used as callbacks (`before="other_event"`): under rtc=False the callback's value — hence a part of the
        # outer result — is the chained event's own result; under run-to-completion None (model: Act.retSend)
        ("chain", PROFILE_CHAIN, 260, 6000, dict(tag="C14c", mutate=gen.plant_evrefs, share=0.3)),
        ("nested", PROFILE_SPARSE, 300, 8000, dict(monitor=c14_monitor, tag="C14n", expand=chained_variants, share=0.5)),
        ("async", PROFILE_ASYNC, 280, 8000, dict(monitor=c14_monitor, tag="C14a", mutate=gen.late_listeners)),
    ]
    for label, prof, target, cap, kw in fams:
        engine_check(ctx, prof, target, cap, gen.chain_nontrivial if label == "chain" else nontrivial, **kw)
        ctx.coverage["distribution_" + label] = ctx.coverage.get("distribution")
        if label == "chain":
            ctx.coverage["chain_scenarios"] = ctx.coverage.get("evaluations", 0)
        for k in KEYS:
            acc[k] += ctx.coverage.get(k, 0)
    ctx.coverage.update(acc)
    ctx.coverage["distribution"] = ctx.coverage.get("distribution_sync")
