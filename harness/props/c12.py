"""C12 — listeners and the model are first-class callback providers, attached once."""
import copy

import eng
import gen
from engcorr import c02_monitor, engine_check, split_ops
from framework import known_findings, lean_obligations

PROFILE = gen.Profile(
    max_states=4, extra_trans=(1, 6), p_multi_event=0.3,
    p_group=dict(validators=0.25, cond=0.4, unless=0.2, before=0.4, on=0.4, after=0.4, enter=0.4, exit=0.4),
    max_per_group=2, p_conv=0.45, styles=("name", "name", "callable", "decorator"),
    providers=("machine", "model", "L0", "L1", "L2"),
    p_nested=0.15, p_raise=0.05, p_validator_raise=0.1, p_unknown_event=0.05, n_ops=(4, 12),
    p_rtc_off=0.2, p_allow=0.3,
    # the record is reloaded behind the machine's back: a late listener hears the states the machine had left too
    p_write=0.08,
)
PROFILE_ASYNC = gen.Profile(**{**PROFILE.__dict__, "p_coro": 0.4, "drivers": ("facade", "loop"), "p_rtc_off": 0.0})


def mutate(rng, s):
    nid = max([c.id for c in s.cbs] + [0]) + 1
    # the same name offered by a second provider (guards: `cond` only — a multi-provider `unless`
    # is a conjunction *inside* one entry, which the engine model's entry list does not express)
    aliased = {c.alias_of for c in s.cbs if c.alias_of} | {c.id for c in s.cbs if c.alias_of}
    sharing = {c.name for c in s.cbs if c.same_as}      # (one function referred to from several transitions)
    for c in list(s.cbs):
        if c.style == "name" and c.group != "unless" and c.id not in aliased and c.name not in sharing and rng.random() < 0.3:
            others = [p for p in PROFILE.providers[:4] if p != c.provider
                      and not any(x.name == c.name and x.provider == p for x in s.cbs)]
            if others:
                d = copy.deepcopy(c)
                d.id, d.provider = nid, rng.choice(others)
                d.sig = rng.choice(("ed", "kwargs", "named", "bare"))
                nid += 1
                if c.group == "cond":      # D10 class: a coroutine guard inside a provider conjunction is never awaited
                    c.coro = d.coro = False
                    c.yields = d.yields = 0
                s.cbs.append(d)
                for a in list(s.acts):
                    if a[0] == c.id and a[4] is None and not a[5] and c.group in ("cond",):
                        s.acts.append((d.id,) + tuple(a[1:3]) + (rng.choice(eng.TRUTHY_TOKS + eng.FALSY_TOKS), None, []))
    used = sorted({c.provider for c in s.cbs if c.provider.startswith("L")})
    s.listeners_ctor = list(used)
    was_async = s.is_async()
    multi_guard = {c.provider for c in s.cbs if c.group in ("cond", "unless")
                   and sum(1 for x in s.cbs if x.name == c.name and x.at == c.at) > 1}
    ops = list(s.ops)
    for L in used:
        # a listener can be attached late when nothing *depends* on it at construction: its callbacks are
        # convention names, or named callbacks that some constructor-time provider offers as well
        def has_ctor_twin(c):
            return any(x.name == c.name and x.at == c.at and x.group == c.group and x.provider != L
                       and x.provider in ("machine", "model") for x in s.cbs)
        conv_only = all(c.style == "conv" or (c.style == "name" and not c.alias_of and has_ctor_twin(c)
                                              and c.group not in ("cond", "unless"))
                        for c in s.cbs if c.provider == L)
        if conv_only and rng.random() < 0.6:
            s.listeners_ctor.remove(L)
            pos = rng.randint(1, len(ops))
            ops.insert(pos, ("add_listener", L))
            if not was_async or not any(c.coro and c.wrap != "lazy" for c in s.cbs
                                        if c.provider != L and s._cb_live_at_ctor(c) and s._cb_bound(c)):
                for c in s.cbs:
                    if c.provider == L:       # D12: an async listener attached late to a sync machine
                        c.coro, c.yields = False, 0
            for _ in range(rng.choice([0, 0, 1, 2])):   # attached again later
                ops.insert(rng.randint(pos + 1, len(ops)), ("add_listener", L))
        elif L not in multi_guard and rng.random() < 0.4:
            for _ in range(rng.choice([1, 2])):          # a constructor listener attached again
                ops.insert(rng.randint(1, len(ops)), ("add_listener", L))
    for prov in ("model", "machine"):
        # an object that is a provider already, attached as a listener as well: nothing of it is registered twice
        if prov not in multi_guard and rng.random() < 0.15:
            ops.insert(rng.randint(1, len(ops)), ("add_listener", prov))
    s.ops = ops
    if s.is_async():
        s.rtc = True
        if s.driver == "sync":
            s.driver = "facade"
    elif s.driver != "sync":
        s.driver = "sync"


def nontrivial(s, a, rt):
    """some callback name is provided by >=2 providers, or a listener is attached after >=1 event"""
    names = {}
    for c in s.cbs:
        if c.style in ("conv", "name"):
            names.setdefault((c.name, c.at if c.style == "name" else None), set()).add(c.provider)
    if any(len(v) >= 2 for v in names.values()):
        return True
    seen_send = False
    for op in s.ops:
        if op[0] == "send":
            seen_send = True
        if op[0] == "add_listener" and seen_send:
            return True
    return False


def monitor(s, a, rt):
    """Spec on the implementation's observation: no callback is invoked twice for one trigger in an
    action group (attaching again never duplicates); a listener's callbacks run only while it is
    attached; plus the C02 order/view monitor."""
    fails = list(c02_monitor(s, a, rt))
    live = set(s.providers())
    cbm = rt.cbmap
    per = {}
    for l in a:
        p = l.split(" ")
        if p[0] == "R":
            i = int(p[1])
            if i < len(s.ops) and s.ops[i][0] == "add_listener" and p[2] == "ok":
                live.add(s.ops[i][1])
        if p[0] == "B":
            c = cbm.get(int(p[3]))
            if c is None:
                continue
            if c.provider.startswith("L") and c.provider not in live:
                # the attach op's R line comes after its own entries: attaching runs nothing, so fine
                fails.append(f"C12: callback of listener {c.provider} ran before it was attached: {l}")
            if p[2] not in ("validators", "cond"):
                k = (p[1], p[2], p[3])
                per[k] = per.get(k, 0) + 1
                if per[k] == 2 and s.rtc:
                    fails.append(f"C12: callback {c.name} of {c.provider} ran twice in group {p[2]} of trigger {p[1]}: {l}")
    return fails


def post(s, a, rt):
    """isolation: a second instance of the same class, created without listeners while the first
    still has its own attached, never invokes them"""
    fails = []
    if rt.sm is None or not any(c.provider.startswith("L") for c in s.cbs) or s.driver == "loop":
        return fails
    if any(c.provider.startswith("L") and c.style != "conv" for c in s.cbs):
        return fails   # the class cannot be instantiated without a listener that provides a named callback
    import warnings
    start = len(rt.lines)
    first, old_model = rt.sm, rt.model
    try:
        with warnings.catch_warnings():
            warnings.simplefilter("ignore")
            model_b = rt.model_cls()
            old_model, rt.model = rt.model, model_b
            rt.initial_tid = rt.next_tid
            rt.next_tid += 1
            b = rt.cls(model_b, rtc=s.rtc, allow_event_without_transition=True)
            for op in s.ops:
                if op[0] == "send":
                    tid = rt.next_tid
                    rt.next_tid += 1
                    try:
                        r = b.send(eng.EVENTS[op[1]] if op[1] < len(eng.EVENTS) else "unk", _tid=tid)
                    except Exception:
                        pass
            rt.model = old_model
            rt.sm = first
    except BaseException as e:
        if isinstance(e, (KeyboardInterrupt, SystemExit)):
            raise
        rt.model, rt.sm = old_model, first
        del rt.lines[start:]
        if isinstance(e, (eng.UserExc, eng._Tagged)):
            return fails      # a scripted callback failure during the second instance's activation: not our subject
        return [f"C12: second instance could not be driven: {type(e).__name__}: {e}"]
    for l in rt.lines[start:]:
        p = l.split(" ")
        if p[0] == "B":
            c = rt.cbmap.get(int(p[3]))
            if c is not None and c.provider.startswith("L"):
                fails.append(f"C12: listener {c.provider} attached to one instance was invoked by another: {l}")
                break
    del rt.lines[start:]
    fails += copies_alongside(s, rt)
    return fails


def copies_alongside(s, rt):
    """isolation across copies: a shallow copy of the machine gets a listener of its own; a deep copy of the
    original taken afterwards and driven through the same events never invokes it"""
    import copy
    import warnings
    import world as W
    first, old_model = rt.sm, rt.model
    start = len(rt.lines)
    del W.SPY_LOG[:]
    try:
        with warnings.catch_warnings():
            warnings.simplefilter("ignore")
            twin = copy.copy(first)
            twin.add_listener(W.Spy())
            other = copy.deepcopy(first)
            rt.sm, rt.model = other, other.model
            other.allow_event_without_transition = True
            for op in s.ops:
                if op[0] == "send":
                    tid = rt.next_tid
                    rt.next_tid += 1
                    try:
                        other.send(eng.EVENTS[op[1]] if op[1] < len(eng.EVENTS) else "unk", _tid=tid)
                    except Exception:
                        pass
    except BaseException as e:
        if isinstance(e, (KeyboardInterrupt, SystemExit)):
            raise
        return []          # the copy itself is C17's subject
    finally:
        rt.sm, rt.model = first, old_model
        del rt.lines[start:]
    if W.SPY_LOG:
        return [f"C12: a listener attached to a shallow copy only was invoked by a later deep copy of the original: {W.SPY_LOG[0]}"]
    return []


# ---- recorded findings ------------------------------------------------------------------------

def probe_d12():
    """a coroutine method on a listener attached late to a machine that runs the sync engine is
    never awaited"""
    import warnings
    from statemachine import State, StateMachine
    log = []
    with warnings.catch_warnings(record=True) as w:
        warnings.simplefilter("always")

        class M(StateMachine):
            a = State(initial=True)
            b = State()
            go = a.to(b)

        class L:
            async def on_enter_b(self):
                log.append("enter_b")
        sm = M()
        sm.add_listener(L())
        sm.go()
        import gc
        gc.collect()
        never = [x for x in w if "never awaited" in str(x.message)]
    return (log != ["enter_b"]), f"callback log {log}, never-awaited warnings {len(never)}"


def probe_d13():
    """a guard provided by machine and listener; the listener attached again: its guard is evaluated
    once per attachment"""
    import warnings
    from statemachine import State, StateMachine
    calls = []
    with warnings.catch_warnings():
        warnings.simplefilter("ignore")

        class M(StateMachine):
            a = State(initial=True)
            b = State()
            go = a.to(b, cond="ok") | a.to(a)

            def ok(self):
                calls.append("m")
                return True

        class L:
            def ok(self):
                calls.append("l")
                return True
        l1 = L()
        sm = M(listeners=[l1])
        sm.add_listener(l1)
        sm.go()
    return calls.count("l") != 1, f"guard calls {calls}"


def probe_d41():
    """an `unless` guard name provided by the machine (falsy) and by a listener (truthy): attached at construction the
    transition fires (`not (machine and listener)`), attached later it is refused (`not machine and not listener`)"""
    import warnings
    from statemachine import State, StateMachine
    from statemachine.exceptions import TransitionNotAllowed
    with warnings.catch_warnings():
        warnings.simplefilter("ignore")

        def mk():
            class M(StateMachine):
                a = State(initial=True)
                b = State()
                go = a.to(b, unless="blocked")

                def blocked(self):
                    return False
            return M

        class L:
            def blocked(self):
                return True

        def fires(sm):
            try:
                sm.go()
                return True
            except TransitionNotAllowed:
                return False
        at_ctor = fires(mk()(listeners=[L()]))
        sm = mk()()
        sm.add_listener(L())
        late = fires(sm)
    return at_ctor != late, f"constructor listener: fires={at_ctor}; the same listener attached later: fires={late}"


def probe_d41b():
    """a late listener that provides only one of the two names of a guard expression is ignored; as a constructor
    listener it takes part"""
    import warnings
    from statemachine import State, StateMachine
    from statemachine.exceptions import TransitionNotAllowed
    with warnings.catch_warnings():
        warnings.simplefilter("ignore")

        def mk():
            class M(StateMachine):
                a = State(initial=True)
                b = State()
                go = a.to(b, cond="ok and fine")

                def ok(self):
                    return True

                def fine(self):
                    return True
            return M

        class L:
            def ok(self):
                return False

        def fires(sm):
            try:
                sm.go()
                return True
            except TransitionNotAllowed:
                return False
        at_ctor = fires(mk()(listeners=[L()]))
        sm = mk()()
        sm.add_listener(L())
        late = fires(sm)
    return at_ctor != late, f"constructor listener: fires={at_ctor}; the same listener attached later: fires={late}"


def probe_names_like_machine_attributes(seed, cases=30):
    """Callback names that happen to be names the machine class uses itself — the ids of its states, `model`, `send`,
    `states`, `initial_state` … — given explicitly (`on="s1"`, `before="states"`) and provided by the model and by a
    listener: both providers are called like for any other name, and what they return is the event's result
    (C12: the model and listeners receive the same callbacks as the machine would; C14: built from before / on)."""
    import random
    import warnings
    from statemachine import State, StateMachine
    fails = []
    # (the names the metaclass protects: what the machine itself never offers as a callback)
    reserved = ["model", "send", "states", "states_map", "initial_state", "final_states", "start_value", "state_field"]
    for k in range(cases):
        rng = random.Random(f"{seed}:names-like-attrs:{k}")
        # (ids that look like convention names — of events / states this machine does not have)
        ids = rng.sample(["a", "b", "on_hold", "before_stop", "after_halt", "on_enter_zz", "x1"], 3)
        pool = ids + reserved
        n_on, n_before = rng.sample(pool, 2)
        field = rng.choice(["state", "st"])
        who = rng.choice(["model", "listener", "both"])
        log = []

        def mk(tag):
            def f(self, *a, **kw):
                log.append(tag)
                return tag
            return f
        ns = {}
        sts = [State(initial=True), State(), State(final=True)]
        for i, st in zip(ids, sts):
            ns[i] = st
        ns["go"] = sts[0].to(sts[1], on=n_on, before=n_before)
        ns["fin"] = sts[1].to(sts[2])
        with warnings.catch_warnings():
            warnings.simplefilter("ignore")
            try:
                M = type(StateMachine)("NamesLikeAttrs", (StateMachine,), ns)
                Mdl = type("Mdl", (), dict({field: None}, **({n_on: mk("model:on"), n_before: mk("model:before")}
                                                             if who in ("model", "both") else {})))
                Lst = type("Lst", (), {n_on: mk("listener:on"), n_before: mk("listener:before")}
                           if who in ("listener", "both") else {})
                sm = M(Mdl(), state_field=field, listeners=[Lst()])
                res = sm.send("go")
            except Exception as e:  # noqa: BLE001
                fails.append(f"case {k}: state ids {ids}, on={n_on!r} before={n_before!r} provided by {who}: "
                             f"{type(e).__name__}: {e}")
                continue
        provs = ["model", "listener"] if who == "both" else [who]
        want = sorted(f"{p}:before" for p in provs) + sorted(f"{p}:on" for p in provs)
        got = res if isinstance(res, list) else [res]
        got = sorted(x for x in got if str(x).endswith(":before")) + sorted(x for x in got if str(x).endswith(":on"))
        if got != want or sorted(log) != sorted(want):
            fails.append(f"case {k}: state ids {ids}, go = a.to(b, on={n_on!r}, before={n_before!r}) with these names "
                         f"provided by {who}: result {res!r}, called {log}; expected {want}")
    return fails


def run_corpus(ctx):
    """regression inputs of fixed findings: plain programs with asserts"""
    import os
    import runpy
    import warnings
    from common import VERIF
    cdir = os.path.join(VERIF, "corpus", "C12")
    for fn in sorted(os.listdir(cdir)) if os.path.isdir(cdir) else []:
        if fn.endswith(".py"):
            try:
                with warnings.catch_warnings():
                    warnings.simplefilter("ignore")
                    runpy.run_path(os.path.join(cdir, fn))
            except Exception as e:
                ctx.violation(os.path.join("corpus", "C12", fn), f"regression input fails: {type(e).__name__}: {e}")


def guard_expression_passes(ctx, n):
    """guards given as boolean expressions whose names are provided by listeners attached *late*: every attachment
    pass that provides all names of an entry contributes that entry once more, over its own providers (model:
    `GExpr.constructPasses`; Spec: CPython's `eval` pass by pass; same three-way comparison as C08)"""
    import random
    import expr_gen as G
    from props import c08 as C8
    scns, i = [], 0
    while len(scns) < n and i < 20 * n:
        s = G.gen_scenario(random.Random(f"{ctx.seed}:C12late:{i}"), f"C12late{i}")
        i += 1
        if s.get("late"):
            scns.append(s)
    stats, problems = C8.process(scns)
    ctx.coverage["late_guard_expression_scenarios"] = len(scns)
    ctx.coverage["late_guard_expression_events"] = stats["events"]
    C8.report(ctx, problems)


def run(ctx):
    lean_obligations(ctx)
    run_corpus(ctx)
    from framework import safe_probe
    pf = safe_probe(probe_names_like_machine_attributes, ctx.seed)
    ctx.coverage["names_like_machine_attributes_cases"] = 30
    if pf:
        ctx.violation(ctx.write_replay("names_like_machine_attributes.txt", "\n".join(pf[:12]) + "\n"), pf[0][:200])
    import subprocess
    from common import LEAN
    subprocess.run(["lake", "build", "drv_expr"], cwd=LEAN, capture_output=True, text=True)
    guard_expression_passes(ctx, 250 if ctx.tier == "quick" else 4000)
    ctx.coverage["rule"] = ("seeded random machines whose callbacks (conventions, names, guards, validators) are "
                            "distributed over machine, model, constructor listeners and late listeners; the same name "
                            "offered by 1-3 providers; listeners attached at random points of the history and attached "
                            "again 0-2 times; async listener methods; a second instance of the same class without "
                            "listeners driven alongside; non-trivial = a name has >=2 providers or a listener is "
                            "attached after an event")
    engine_check(ctx, PROFILE, 800, 20000, nontrivial, monitor=monitor, post=post, tag="C12s", mutate=mutate, share=0.62)
    cov1 = dict(ctx.coverage)
    engine_check(ctx, PROFILE_ASYNC, 300, 8000, nontrivial, monitor=monitor, post=post, tag="C12a", mutate=mutate)
    for k in ("evaluations", "distinct_nontrivial", "traces_validated_against_impl", "disagreements", "monitor_failures"):
        ctx.coverage[k] = ctx.coverage.get(k, 0) + cov1.get(k, 0)
    ctx.coverage["distribution_sync"] = cov1.get("distribution")
    known = {k.get("exclusion"): k for k in known_findings("C12") if k.get("status") == "known"}
    for key, probe, title in (("late-async-listener-on-sync-machine", probe_d12, "async listener attached late is never awaited"),
                              ("guard-reevaluated-per-reattachment", probe_d13, "guard of a re-attached listener evaluated more than once"),
                              ("unless-name-several-providers-ctor-vs-late", probe_d41,
                               "an unless guard provided by machine and listener decides differently for a constructor listener and a late one"),
                              ("late-listener-providing-part-of-a-guard-expression", probe_d41b,
                               "a listener providing one name of a guard expression counts at construction, not when attached later")):
        bad, what = probe()
        if bad:
            if key in known:
                ctx.known_printed.append(known[key]["what"] + " [" + what + "]")
            else:
                rp = ctx.write_replay(key + ".txt", title + ": " + what + "\n")
                ctx.violation(rp, title)
