"""C09 — class-definition validation accepts exactly the well-formed machines.

Real classes are built from enumerated / sampled definitions (namespace handed to
StateMachineMetaclass, or a real `class` statement), the exception type, the warnings (state ids
named) and instantiability are observed and compared with (a) the Lean model `Validate.check`
through `drv_validate` and (b) an independent oracle written from the English statement
(Warshall closure). (b) failing = the implementation violates the property on that input."""
import multiprocessing
import os
import random
import time

import validate_defs as vd
import validate_impl as vi
from common import VERIF
from framework import lean_obligations, scn_hash

RULE = ("exhaustive cores: A = every definition with n states (quick n<=3, thorough n<=4), every "
        "initial/final flag assignment (4^n), every multiset of <= K transitions (quick K=3, thorough K=4) over "
        "{explicit src->tgt incl. self-loops and parallel edges, tgt.from_.any()}, strict_states on/off, plus the "
        "no-event and empty-event variants; B = every multiset of <= 2 transitions with >= 1 internal=True flag "
        "(valid internal self-loops, invalid internal non-self, internal from_.any()); grouping of transitions into "
        "events, to/from_/to.itself spelling and class-statement vs metaclass-call are drawn per definition from the "
        "seed. Sampled streams: early (events declared before some states, loose transitions, empty events, 1-4 "
        "states), random (4-5 states, <=5 transitions), wf (3-6 states, biased to accepted machines, perturbed), "
        "big (6-9 states). non-trivial = >= 2 states and >= 1 transition; enumerated definitions are distinct by "
        "construction, sampled ones are counted once per distinct scenario text and only if outside the "
        "enumerated space")

RESTRICTIONS = [
    "no inheritance, no States container, no State object registered twice, all transition endpoints declared in the class",
    "an early-declared event holding a from_.any() holds no explicit transition whose source is declared after it "
    "(the library re-expands the placeholder when such a state is registered: declaration-order behaviour, C15)",
]


def _text(d, impl, model, orc, why):
    return "\n".join(
        ["# C09 replay: ./check C09 --replay <this file>", f"# {why}"]
        + vd.scn_lines(d, "replay")
        + [("# class statement equivalent:" if vd.exec_ok(d) else
            "# namespace handed to StateMachineMetaclass, in this order (objects created beforehand):")]
        + ["#   " + l for l in vi.render_source(d).rstrip("\n").split("\n")]
        + ["# implementation: " + " | ".join(impl), "# lean model:     " + " | ".join(model),
           "# spec oracle:    " + " | ".join(orc)]) + "\n"


def _status(d):
    st, probs = vi.run_batch([d])
    return probs[0] if probs else None


def _drop_state(d, j):
    """remove state j if no transition mentions it; re-index"""
    specs = [s for _, ss in d.events for s in ss] + list(d.loose)
    for s in specs:
        if (s[0] == "e" and j in (s[1], s[2])) or (s[0] == "a" and s[1] == j):
            return None
    f = lambda x: x - 1 if x > j else x
    m = lambda s: ("e", f(s[1]), f(s[2]), s[3]) if s[0] == "e" else ("a", f(s[1]), s[2])
    n = len(d.states)
    return d._replace(states=d.states[:j] + d.states[j + 1:],
                      events=tuple((p - 1 if p > j else p, tuple(m(s) for s in ss)) for p, ss in d.events),
                      loose=tuple(m(s) for s in d.loose), mode="meta")


def _variants(d):
    """smaller definitions (for shrinking)"""
    si = 0
    for ei, (p, ss) in enumerate(d.events):
        for k in range(len(ss)):
            st = list(d.styles)
            if ss[k][0] == "e":
                idx = si + sum(1 for s in ss[:k] if s[0] == "e")
                del st[idx]
            ev = list(d.events)
            ev[ei] = (p, ss[:k] + ss[k + 1:])
            yield d._replace(events=tuple(ev), styles="".join(st))
        si += sum(1 for s in ss if s[0] == "e")
        if not ss and len(d.events) > 1:
            yield d._replace(events=d.events[:ei] + d.events[ei + 1:])
    for k in range(len(d.loose)):
        st = list(d.styles)
        if d.loose[k][0] == "e":
            del st[si + sum(1 for s in d.loose[:k] if s[0] == "e")]
        yield d._replace(loose=d.loose[:k] + d.loose[k + 1:], styles="".join(st))
    for j in reversed(range(len(d.states))):
        v = _drop_state(d, j)
        if v is not None:
            yield v
    for j, (i, f) in enumerate(d.states):
        if f:
            yield d._replace(states=d.states[:j] + ((i, False),) + d.states[j + 1:])


def shrink(d, kind):
    cur = d
    for _ in range(60):
        for v in _variants(cur):
            try:
                p = _status(v)
            except Exception:  # noqa: BLE001
                p = None
            if p and p[0] == kind:
                cur = v
                break
        else:
            return cur
    return cur


def _neighbours(d, rng, limit=300):
    """definitions one or two edits away (flag flips, strict toggle, edge add/redirect/reverse/drop)"""
    n = len(d.states)
    out = []
    for _ in range(limit):
        states = list(d.states)
        specs = [s for _, ss in d.events for s in ss]
        strict = d.strict
        for _ in range(rng.randint(1, 2)):
            r = rng.random()
            if r < 0.15:
                strict = not strict
            elif r < 0.4 and n:
                j = rng.randrange(n)
                i, f = states[j]
                states[j] = (i, not f) if rng.random() < 0.7 else (not i, f)
            elif r < 0.6 and n:
                specs.append(("e", rng.randrange(n), rng.randrange(n), False))
            elif specs:
                k = rng.randrange(len(specs))
                s = specs[k]
                if s[0] == "e" and r < 0.8:
                    specs[k] = ("e", s[2], s[1], s[3])
                elif s[0] == "e" and r < 0.9:
                    specs[k] = ("e", s[1], rng.randrange(n), False)
                else:
                    del specs[k]
        ev = vd.group(rng, specs, n) or (((n, ()),) if d.events else ())
        out.append(vd.decorate(rng, tuple(states), ev, d.loose, strict))
    return out


def handle(ctx, problems, rng_tag):
    """Turn disagreements into verdicts (at most a few replays)."""
    seen = set()
    problems = sorted(problems, key=lambda p: (p[0] != "spec", any(q < len(p[1].states) for q, _ in p[1].events),
                                               len(p[1].states) + vd.n_specs(p[1])))
    for kind, d, impl, model, orc in problems[:6]:
        if len(ctx.violations) >= 3:
            break
        if kind == "spec":
            small = shrink(d, "spec")
            p = _status(small) or (kind, d, impl, model, orc)
            _, sd, si, sm, so = p
            h = scn_hash(vd.canon(sd))
            if h in seen:
                continue
            seen.add(h)
            rp = ctx.write_replay(f"{h}.replay.txt", _text(
                sd, si, sm, so, "the implementation's outcome differs from the specification of C09 "
                "(independent oracle written from the statement) on this class definition"))
            ctx.violation(rp, f"impl {si} vs spec {so}")
        else:
            rng = random.Random(f"{ctx.seed}:C09:{rng_tag}:{vd.canon(d)}")
            near = _neighbours(d, rng)
            _, probs = vi.run_batch(near) if near else ({}, [])
            bad = [p for p in probs if p[0] == "spec"]
            if bad:
                handle(ctx, bad[:1], rng_tag)
                continue
            small = shrink(d, "corr")
            p = _status(small) or (kind, d, impl, model, orc)
            _, sd, si, sm, so = p
            h = scn_hash(vd.canon(sd))
            if h in seen:
                continue
            seen.add(h)
            rp = ctx.write_replay(f"{h}.replay.txt", _text(
                sd, si, sm, so, "correspondence corr:C09:validate no longer checks: the Lean model "
                "`SMV.Validate.check` (theorems C09_iff / C09_strict) and the implementation disagree, while the "
                "implementation still agrees with the spec oracle here and on 300 neighbouring definitions"))
            ctx.violation(rp, f"model {sm} vs impl {si}", no_input=True)


def load_file(path):
    lines = [l for l in open(path).read().split("\n") if l and not l.startswith("#")]
    return vd.parse_scn(lines)


def run(ctx):
    lean_obligations(ctx)
    vi.build_driver()
    ctx.coverage["rule"] = RULE
    ctx.coverage["generator_restrictions"] = RESTRICTIONS
    total = {}
    problems = []

    if ctx.replay:
        name, d = load_file(ctx.replay)
        st, probs = vi.run_batch([d])
        impl, orc = vi.observe(d), vi.oracle(d)
        print(f"[C09] replay {ctx.replay}: implementation={impl} oracle={orc}")
        vi.merge(total, st)
        handle(ctx, probs, "replay")
        ctx.coverage.update(evaluations=1, distinct_nontrivial=total.get("nontrivial", 0),
                            traces_validated_against_impl=1, exhaustive=False)
        return

    # 1. corpus
    cdir = os.path.join(VERIF, "corpus", "C09")
    corpus = []
    if os.path.isdir(cdir):
        for fn in sorted(os.listdir(cdir)):
            if fn.endswith(".scn"):
                corpus.append(load_file(os.path.join(cdir, fn))[1])
    if corpus:
        st, probs = vi.run_batch(corpus)
        vi.merge(total, st)
        problems += probs
    n_corpus = len(corpus)
    corpus_nontrivial = total.get("nontrivial", 0)

    # 2. exhaustive cores + sampled streams
    tasks = vd.core_tasks(ctx.tier)
    random.Random(f"{ctx.seed}:C09:order").shuffle(tasks)
    expected = sum(vd.core_size(t) for t in tasks)
    quick = ctx.tier == "quick"
    n_samples = dict(anyfinal=1500, early=4000, random=1000, wf=6000, big=600, orphan=1500) if quick else \
        dict(anyfinal=40000, early=120000, random=150000, wf=200000, big=30000, orphan=40000)
    reserve = 6 if quick else 30
    deadline = time.time() + ctx.left() - reserve
    sample_share = 0.18          # part of the time budget kept for the sampled streams
    core_deadline = time.time() + (ctx.left() - reserve) * (1 - sample_share)
    enumerated = 0
    enum_nontrivial = 0
    incomplete = 0
    sampled_seen = set()
    sampled_nontrivial = 0
    enum_n = 3 if quick else 4
    enum_k = 3 if quick else 4

    def outside_enumerated(d):
        n = len(d.states)
        specs = [s for _, ss in d.events for s in ss]
        return (n > enum_n or len(specs) > enum_k or bool(d.loose) or any(p < n for p, _ in d.events)
                or (any(s[-1] for s in specs) and len(specs) > 2))

    if quick:
        for t in tasks:
            if time.time() > core_deadline:
                incomplete += 1
                continue
            defs = list(vd.core_defs(ctx.seed, t))
            st, probs = vi.run_batch(defs, want_samples=1 if len(total.get("samples", [])) < 4 else 0)
            enumerated += st["evaluations"]
            enum_nontrivial += st["nontrivial"]
            vi.merge(total, st)
            problems += probs
            if len(problems) > 50:
                break
        for tag, cnt in n_samples.items():
            lo = 0
            while lo < cnt and time.time() < deadline and len(problems) <= 50:
                defs = [vd.sample(ctx.seed, tag, i) for i in range(lo, min(cnt, lo + 500))]
                lo += 500
                st, probs = vi.run_batch(defs, want_samples=1 if tag in ("wf", "early") and lo == 500 else 0)
                vi.merge(total, st)
                problems += probs
                for d in defs:
                    c = vd.canon(d)
                    if c not in sampled_seen:
                        sampled_seen.add(c)
                        if len(d.states) >= 2 and vd.n_specs(d) >= 1 and outside_enumerated(d):
                            sampled_nontrivial += 1
    else:
        jobs = [("core", ctx.seed, t, core_deadline) for t in tasks]
        for tag, cnt in n_samples.items():
            for lo in range(0, cnt, 5000):
                jobs.append(("sample", ctx.seed, (tag, lo, min(cnt, lo + 5000)), deadline))
        # biggest first inside each class keeps the pool busy to the end; samples interleaved
        procs = min(16, os.cpu_count() or 1)
        with multiprocessing.get_context("fork").Pool(procs) as pool:
            for st, probs, kind, payload in pool.imap_unordered(vi.work, jobs, chunksize=1):
                if st.get("skipped"):
                    incomplete += 1
                    continue
                incomplete += st.pop("incomplete_tasks", 0)
                if kind == "core":
                    enumerated += st.get("evaluations", 0)
                    enum_nontrivial += st.get("nontrivial", 0)
                else:
                    tag, lo, hi = payload
                    for i in range(lo, hi):
                        d = vd.sample(ctx.seed, tag, i)
                        c = hash(vd.canon(d))
                        if c not in sampled_seen:
                            sampled_seen.add(c)
                            if len(d.states) >= 2 and vd.n_specs(d) >= 1 and outside_enumerated(d):
                                sampled_nontrivial += 1
                if len(total.get("samples", [])) >= 6:
                    st["samples"] = []
                vi.merge(total, st)
                problems += probs
                if len(problems) > 50:
                    pool.terminate()
                    break

    handle(ctx, problems, "near")

    evaluations = total.get("evaluations", 0)
    sampled_evals = evaluations - enumerated - n_corpus
    sampled_total = len(sampled_seen)
    ctx.coverage.update(
        evaluations=evaluations,
        traces_validated_against_impl=evaluations,
        exhaustive=(incomplete == 0 and enumerated == expected),
        enumerated=enumerated, enumerated_expected=expected, core_tasks=len(tasks), core_tasks_incomplete=incomplete,
        sampled_evaluations=sampled_evals, sampled_distinct=sampled_total, corpus=n_corpus,
        disagreements=len(problems),
        distribution=dict(states=total.get("by_n"), transitions=total.get("by_specs"),
                          model_outcome=total.get("by_outcome"), written_as=total.get("mode"),
                          strict=total.get("strict"), with_from_any=total.get("with_any"),
                          with_internal_flag=total.get("with_internal"), with_loose_transition=total.get("with_loose"),
                          with_early_event=total.get("early_event"), with_warning=total.get("warned")),
        samples=total.get("samples", [])[:6],
    )
    # counted: enumerated definitions are pairwise distinct by construction (flags x strict x multiset);
    # sampled ones are de-duplicated by scenario text and counted only outside the enumerated space
    ctx.coverage["distinct_nontrivial"] = enum_nontrivial + sampled_nontrivial
    ctx.coverage["enumerated_nontrivial"] = enum_nontrivial
    ctx.coverage["sampled_nontrivial_outside_enumerated_space"] = sampled_nontrivial
