"""C08 — Guards: cond/unless conjunction and Python-faithful boolean expressions.

Three sides per scenario: the real library (a machine `a.to(b, cond=[…], unless=[…])` built through
the public API and driven with `sm.send`), CPython's own `eval` of the canonical rendering (the Spec:
"as Python evaluates it"), and the Lean model through `drv_expr` (both its library side and its
specification side, which theorem `C08_end_to_end` proves equal).
"""
from __future__ import annotations

import json
import multiprocessing as mp
import os
import random
import subprocess
import time

import expr_gen as G
import expr_run as R
from common import LEAN, VERIF, run_driver
from framework import known_findings, lean_obligations, scn_hash

RULE = ("seeded grammar-directed guard lists (1-5 entries: expressions of depth <=5 in both operator spellings "
        "with random optional blanks, callables, properties, methods; names on machine/model/listeners, "
        "several providers; 2-6 valuations each); non-trivial = some expression entry has >=2 operators of "
        ">=2 kinds, or a chained comparison, or an alternate spelling / comparison written without "
        "surrounding blanks; distinct = hash of the canonical scenario (entries, providers, valuations)")



def nontrivial(scn):
    for en in scn["entries"]:
        if en["kind"] != "expr":
            continue
        cls, node = G.classify(en["canon"])
        if cls != "ok":
            continue
        kinds, n, chain = set(), 0, False
        import ast
        for x in ast.walk(node):
            if isinstance(x, ast.BoolOp):
                kinds.add(type(x.op).__name__)
                n += len(x.values) - 1
            elif isinstance(x, ast.UnaryOp):
                kinds.add("not")
                n += 1
            elif isinstance(x, ast.Compare):
                kinds.add("cmp")
                n += len(x.ops)
                chain = chain or len(x.ops) > 1
        if (n >= 2 and len(kinds) >= 2) or chain or en.get("tight"):
            return True
    return False


def canonical_text(scn):
    return json.dumps({k: scn.get(k) for k in ("names", "entries", "rounds", "force_async", "via_any", "same_free_names", "falsy_callables", "event_deco", "late")}, sort_keys=True)


# ----------------------------------------------------------------------------- one batch


def process(scns):
    """run a batch of scenarios on all three sides -> (stats, problems)
    problems: [(scn, spec_failures, disagreements)]"""
    lays, lines, impls, specs = [], [], [], []
    for s in scns:
        lay = R.Layout(s)
        lays.append(lay)
        dl = R.driver_lines(s, lay)       # may extend lay with names met only in the text
        impls.append(R.run_impl(s, lay))
        specs.append(R.spec_expectation(s, lay))
        if dl is not None:
            lines += dl
    out = run_driver(lines, exe="drv_expr", root="DrvExpr.lean") if lines else {}
    stats = dict(evaluations=0, events=0, nontrivial=set(), constructs={}, outcomes={}, kinds={},
                 providers={}, tight=0, chains=0, async_=0, depth_ops={}, reads_checked=0, model_compared=0,
                 malformed={}, reread_events=0)
    problems = []
    for s, lay, impl, spec in zip(scns, lays, impls, specs):
        obs = out.get(s["id"])
        model = R.parse_model(obs, lay) if obs is not None else None
        fails, diffs = R.judge(s, lay, impl, spec, model)
        if impl.get("second") is not None:
            want2 = R.second_instance_expectation(s)
            if want2 is not None and impl["second"] != want2:
                fails.append(f"a second instance of the class over the default model, without listeners: "
                             f"instantiation gave {impl['second']}, expected {want2} (names without a provider are "
                             f"rejected per instance, at instantiation)")
            stats["second_instances"] = stats.get("second_instances", 0) + 1
        if model is not None:
            diffs += R.check_preps(s, model)
            stats["model_compared"] += 1
            stats["reread_events"] += sum(1 for m in model["rounds"] if len(m[1]) != len(m[2]))
        stats["evaluations"] += 1
        stats["events"] += len(impl["rounds"])
        stats["reads_checked"] += sum(len(r[1]) for r in impl["rounds"])
        if nontrivial(s):
            stats["nontrivial"].add(scn_hash(canonical_text(s)))
        stats["constructs"][impl["construct"]] = stats["constructs"].get(impl["construct"], 0) + 1
        stats["malformed"][str(s.get("malformed"))] = stats["malformed"].get(str(s.get("malformed")), 0) + 1
        for o, _ in impl["rounds"]:
            stats["outcomes"][o] = stats["outcomes"].get(o, 0) + 1
        for en in s["entries"]:
            k = en["group"] + ":" + en["kind"]
            stats["kinds"][k] = stats["kinds"].get(k, 0) + 1
            if en.get("tight"):
                stats["tight"] += 1
        for n, ps in s["names"].items():
            key = "+".join(p for p, _ in ps) or "none"
            stats["providers"][key] = stats["providers"].get(key, 0) + 1
            for _, kind in ps:
                stats["kinds"]["slot:" + kind] = stats["kinds"].get("slot:" + kind, 0) + 1
        if s.get("force_async") or any(k == "coro" for ps in s["names"].values() for _, k in ps):
            stats["async_"] += 1
        if fails or diffs:
            problems.append((s, fails, diffs))
    return stats, problems


def _merge(a, b):
    for k, v in b.items():
        if isinstance(v, set):
            a.setdefault(k, set()).update(v)
        elif isinstance(v, dict):
            d = a.setdefault(k, {})
            for kk, vv in v.items():
                d[kk] = d.get(kk, 0) + vv
        else:
            a[k] = a.get(k, 0) + v
    return a


def _random_batch(args):
    seed, tag, lo, hi, kw = args
    scns = [G.gen_scenario(random.Random(f"{seed}:{tag}:{i}"), f"{tag}{i}", **kw) for i in range(lo, hi)]
    return process(scns)


_FAMILY_CACHE = {}


def family(kind, size):
    """small-scope families enumerated completely: ("bool", k) every tree with <= k operators from
    {not, and, or} over 3 names; ("chain", k) every comparison chain with <= k links over {x, y, 1}"""
    key = (kind, size)
    if key not in _FAMILY_CACHE:
        if kind == "bool":
            memo, trees = {}, []
            for k in range(size + 1):
                trees += G.enum_trees(k, ["x", "vy", "z"], memo)
        else:
            trees = G.enum_chains(size)
        _FAMILY_CACHE[key] = trees
    return _FAMILY_CACHE[key]


def _exhaustive_batch(args):
    import ast
    kind, size, lo, hi = args
    trees = family(kind, size)
    provs = {"x": [["model", "prop"]], "vy": [["machine", "method"]], "z": [["L0", "attr"]], "y": [["L0", "method"]]}
    scns = []
    for idx in range(lo, min(hi, len(trees))):
        text, canon, tight = G.render_plain(trees[idx], idx)
        used = set(G.names_of(ast.parse(canon, mode="eval")))
        names = {n: provs[n] for n in provs if n in used}
        slots = [f"{ps[0][0]}.{n}" for n, ps in names.items()]
        rounds = []
        if kind == "bool":
            tv, fv = [("i7", "s"), ("T", "F"), ("s61", "l0")][idx % 3]
            for m in range(2 ** len(slots)):
                rounds.append({s: (tv if (m >> j) & 1 else fv) for j, s in enumerate(slots)})
        else:
            vals = ["i0", "i1", "i2"]
            for m in range(3 ** len(slots)):
                rounds.append({s: vals[(m // 3 ** j) % 3] for j, s in enumerate(slots)})
        group = "cond" if idx % 2 == 0 else "unless"
        scns.append(dict(id=f"X{kind}{idx}", names=names, rounds=rounds, force_async=False, malformed=None,
                         entries=[dict(group=group, kind="expr", text=text, canon=canon, tight=tight)]))
    return process(scns)


# ----------------------------------------------------------------------------- reporting


def widen(scn):
    """a model/implementation disagreement whose Spec still holds: look for a Spec failure on the same
    guards under other valuations"""
    lay = R.Layout(scn)
    slots = [f"{p}.{n}" for n, ps in scn["names"].items() for p, _ in ps]
    rng = random.Random(scn_hash(canonical_text(scn)))
    rounds = []
    pool = G.TRUTHY + G.FALSY
    for _ in range(200):
        rounds.append({s: rng.choice(pool) for s in slots})
    s2 = dict(scn, rounds=rounds, id=scn["id"] + "w")
    impl = R.run_impl(s2, lay)
    spec = R.spec_expectation(s2, lay)
    fails, _ = R.judge(s2, lay, impl, spec, None)
    if fails:
        # keep only the first failing valuation
        for i in range(len(rounds)):
            s3 = dict(scn, rounds=[rounds[i]], id=scn["id"] + "w")
            lay3 = R.Layout(s3)
            f3, _ = R.judge(s3, lay3, R.run_impl(s3, lay3), R.spec_expectation(s3, lay3), None)
            if f3:
                return s3, f3
        return s2, fails
    return None, []


def shrink(scn):
    """drop entries / rounds while the Spec still fails"""
    def failing(s):
        lay = R.Layout(s)
        try:
            f, _ = R.judge(s, lay, R.run_impl(s, lay), R.spec_expectation(s, lay), None)
        except Exception:  # noqa: BLE001
            return False
        return bool(f)
    cur = scn
    changed = True
    while changed:
        changed = False
        for i in range(len(cur["rounds"])):
            if len(cur["rounds"]) > 1:
                c = dict(cur, rounds=cur["rounds"][:i] + cur["rounds"][i + 1:])
                if failing(c):
                    cur, changed = c, True
                    break
        if changed:
            continue
        for i in range(len(cur["entries"])):
            if len(cur["entries"]) > 1:
                c = dict(cur, entries=cur["entries"][:i] + cur["entries"][i + 1:])
                if failing(c):
                    cur, changed = c, True
                    break
    return cur


def report(ctx, problems, limit=3):
    n = 0
    for scn, fails, diffs in problems:
        if n >= limit:
            break
        if fails:
            small = shrink(scn)
            lay = R.Layout(small)
            f2, _ = R.judge(small, lay, R.run_impl(small, lay), R.spec_expectation(small, lay), None)
            text = ("# C08 violation: the implementation's observation contradicts the property (CPython oracle)\n"
                    + "".join(f"# {x}\n" for x in (f2 or fails)) + G.dump(small) + "\n")
            p = ctx.write_replay(f"viol_{scn_hash(canonical_text(small))}.json", text)
            ctx.violation(p, (f2 or fails)[0][:120])
        else:
            w, wf = widen(scn)
            if w is not None:
                text = ("# C08 violation found while widening a model/implementation disagreement\n"
                        + "".join(f"# {x}\n" for x in wf) + G.dump(w) + "\n")
                p = ctx.write_replay(f"viol_{scn_hash(canonical_text(w))}.json", text)
                ctx.violation(p, wf[0][:120])
            else:
                text = ("# C08: correspondence corr:C08:guards (model vs implementation vs CPython) no longer checks;\n"
                        "# theorems C08_eval / C08_end_to_end speak about a model that this input separates from the code\n"
                        + "".join(f"# {x}\n" for x in diffs) + G.dump(scn) + "\n")
                p = ctx.write_replay(f"corr_{scn_hash(canonical_text(scn))}.json", text)
                ctx.violation(p, "corr:" + diffs[0][:110], no_input=True)
        n += 1


# ----------------------------------------------------------------------------- known findings (probes)

FINDING_PROBES = {
    # replay name -> scenario; these input classes are excluded from random generation
    # D35: the same guard twice in one list, spelled differently: the second wrapper is dropped as a duplicate key
    # and the constructor's check then reports the spec as unresolved
    "findings/C08_same_guard_twice_in_one_list.json": dict(
        id="D35", names={"x": [["model", "attr"]]}, force_async=False, malformed=None,
        entries=[dict(group="cond", kind="expr", text="x", canon="x"),
                 dict(group="cond", kind="expr", text="x ", canon="x ")],
        rounds=[{"model.x": "T"}]),
    # D10 (C05/C08): a coroutine guard used as an operand is called but never awaited
    "findings/C08_coroutine_guard_in_expression.json": dict(
        id="D10", names={"p": [["model", "coro"]], "q": [["model", "attr"]]}, force_async=False, malformed=None,
        entries=[dict(group="cond", kind="expr", text="p and q", canon="p and q")],
        rounds=[{"model.p": "F", "model.q": "T"}]),
}


def run_findings(ctx):
    listed = {k.get("replay"): k for k in known_findings(ctx.prop) if k.get("status") == "known"}
    seen = {}
    for name, scn in FINDING_PROBES.items():
        lay = R.Layout(scn)
        fails, _ = R.judge(scn, lay, R.run_impl(scn, lay), R.spec_expectation(scn, lay), None)
        seen[name] = fails[:1]
        if fails and name in listed:
            ctx.known_printed.append(f"{name}: {fails[0][:140]}")
    ctx.coverage["finding_probes"] = seen


# ----------------------------------------------------------------------------- anchored-line coverage


def line_coverage(seed, n=400):
    """lines of statemachine/spec_parser.py (and of the guard paths in dispatcher/callbacks) executed while
    building and driving the first n random scenarios; measured with sys.settrace in this process"""
    import sys
    import statemachine.spec_parser as sp
    import statemachine.dispatcher as dp
    import statemachine.callbacks as cb
    targets = {sp.__file__: None, dp.__file__: ("build", "_take_callback", "search_name", "attr_method", "method"),
               cb.__file__: ("all", "async_all", "call", "__call__", "check")}
    hit = {f: set() for f in targets}

    def tracer(frame, event, arg):
        f = frame.f_code.co_filename
        if f not in hit:
            return None
        only = targets[f]
        if only is not None and frame.f_code.co_name not in only:
            return None
        if event == "line":
            hit[f].add(frame.f_lineno)
        return tracer

    scns = [G.gen_scenario(random.Random(f"{seed}:r:{i}"), f"c{i}") for i in range(n)]
    sys.settrace(tracer)
    try:
        for s in scns:
            R.run_impl(s, R.Layout(s))
    finally:
        sys.settrace(None)

    def code_lines(code, only):
        out = set()
        if only is None or code.co_name in only:
            out |= {l for _, _, l in code.co_lines() if l is not None and l != code.co_firstlineno}
            only_inner = None
        else:
            only_inner = only
        for c in code.co_consts:
            if hasattr(c, "co_lines"):
                out |= code_lines(c, only_inner)
        return out

    res = {}
    for f, only in targets.items():
        src = open(f).read()
        allc = code_lines(compile(src, f, "exec"), only)
        if only is None:
            # module-level statements run at import time, not under the tracer
            allc -= {l for _, _, l in compile(src, f, "exec").co_lines() if l is not None}
        allc = {l for l in allc if "pragma: no cover" not in src.split("\n")[l - 1]}
        missed = sorted(allc - hit[f])
        res[os.path.basename(f)] = dict(executable=len(allc), hit=len(allc & hit[f]), missed_lines=missed[:40])
    return res


# ----------------------------------------------------------------------------- entry


def replay_file(ctx, path):
    txt = "\n".join(l for l in open(path).read().split("\n") if not l.startswith("#"))
    scn = json.loads(txt)
    stats, problems = process([scn])
    if ctx.replay:
        for s, fails, diffs in problems:
            for x in fails + diffs:
                print("  ", x)
    return stats, problems


def run(ctx):
    lean_obligations(ctx)
    b = subprocess.run(["lake", "build", "drv_expr"], cwd=LEAN, capture_output=True, text=True)
    if b.returncode != 0:
        raise RuntimeError("drv_expr does not build: " + (b.stdout + b.stderr)[-1500:])
    ctx.coverage["rule"] = RULE
    total = {}
    all_problems = []

    if ctx.replay:
        stats, all_problems = replay_file(ctx, ctx.replay)
        _merge(total, stats)
        report(ctx, all_problems)
    else:
        corpus = os.path.join(VERIF, "corpus", "C08")
        if os.path.isdir(corpus):
            for fn in sorted(os.listdir(corpus)):
                if fn.endswith(".json"):
                    stats, problems = replay_file(ctx, os.path.join(corpus, fn))
                    _merge(total, stats)
                    all_problems += problems
                    ctx.coverage["corpus_replayed"] = ctx.coverage.get("corpus_replayed", 0) + 1
        run_findings(ctx)
        thorough = ctx.tier == "thorough"
        n_random = 600000 if thorough else 20000
        step = 500
        jobs = [(ctx.seed, "r", lo, min(lo + step, n_random), {}) for lo in range(0, n_random, step)]
        nproc = min(16, os.cpu_count() or 1) if thorough else min(4, os.cpu_count() or 1)
        fams = [("bool", 4), ("chain", 3)] if thorough else [("bool", 3), ("chain", 2)]
        t0 = time.time()
        with mp.Pool(nproc) as pool:
            for stats, problems in pool.imap_unordered(_random_batch, jobs):
                _merge(total, stats)
                all_problems += problems
                if ctx.left() < (150 if thorough else 25):      # keep room for the small-scope families
                    ctx.coverage["random_cut_short_by_budget"] = True
                    break
            small = {}
            for kind, size in fams:
                n = len(family(kind, size))
                ejobs = [(kind, size, lo, lo + 1000) for lo in range(0, n, 1000)]
                ex_total = {}
                for stats, problems in pool.imap_unordered(_exhaustive_batch, ejobs):
                    _merge(ex_total, stats)
                    all_problems += problems
                small[f"{kind}<={size}"] = dict(
                    expressions=ex_total.get("evaluations", 0), events=ex_total.get("events", 0),
                    complete=ex_total.get("evaluations", 0) == n)
                _merge(total, ex_total)
            ctx.coverage["exhaustive_small_scope"] = dict(
                what="bool<=k: every expression with <=k operators from {not, and, or} over 3 names under every "
                     "truthy/falsy valuation of the names it uses; chain<=k: every comparison chain with <=k links "
                     "over operands {x, y, 1} and all six operators under every valuation of x, y in {0, 1, 2}; "
                     "one guard entry (cond or unless) per machine, spelling and blanks varied by index",
                families=small)
        ctx.coverage["generation_s"] = round(time.time() - t0, 1)
        try:
            ctx.coverage["anchored_line_coverage"] = line_coverage(ctx.seed)
        except Exception as e:  # noqa: BLE001  (coverage is informative only)
            ctx.coverage["anchored_line_coverage"] = "unavailable: " + repr(e)[:100]
        ctx.coverage["exhaustive"] = False   # the property's input space is infinite; see exhaustive_small_scope
        report(ctx, sorted(all_problems, key=lambda p: (not p[1], len(json.dumps(p[0])))), limit=4)

    ctx.coverage["evaluations"] = total.get("evaluations", 0)
    ctx.coverage["distinct_nontrivial"] = len(total.get("nontrivial", ()))
    ctx.coverage["traces_validated_against_impl"] = total.get("model_compared", 0)
    ctx.coverage["events_sent"] = total.get("events", 0)
    ctx.coverage["name_reads_compared"] = total.get("reads_checked", 0)
    ctx.coverage["events_with_chain_rereads"] = total.get("reread_events", 0)
    ctx.coverage["disagreements"] = len(all_problems)
    ctx.coverage["distribution"] = dict(
        construct=total.get("constructs"), outcomes=total.get("outcomes"), entry_and_slot_kinds=total.get("kinds"),
        providers_per_name=total.get("providers"), malformed=total.get("malformed"),
        entries_written_tight=total.get("tight"), async_scenarios=total.get("async_"))
    rng = random.Random(f"{ctx.seed}:samples")
    samples = []
    for i in rng.sample(range(1000), 6):
        sc = G.gen_scenario(random.Random(f"{ctx.seed}:r:{i}"), f"r{i}")
        lay = R.Layout(sc)
        impl = R.run_impl(sc, lay)
        first = impl["rounds"][0] if impl["rounds"] else None
        samples.append(dict(
            id=sc["id"],
            cond=[en.get("text", en.get("name")) for en in sc["entries"] if en["group"] == "cond"],
            unless=[en.get("text", en.get("name")) for en in sc["entries"] if en["group"] == "unless"],
            providers={n: [p for p, _ in ps] for n, ps in sc["names"].items()},
            construct=impl["construct"],
            first_event=None if first is None else dict(
                values=sc["rounds"][0], outcome=first[0],
                reads=[f"{lay.slots[j][0]}.{lay.slots[j][1]}" for j in first[1]])))
    ctx.coverage["samples"] = samples
    ctx.assumptions += [
        "guards do not change what other guards read during one evaluation (the library evaluates the middle "
        "operand of a chained comparison twice; with pure reads this is unobservable except in the read log)",
        "coroutine guards appear only as a bare name with one provider (finding D10: inside an expression they "
        "are never awaited)",
        "entries of one guard list (`cond`, or `unless`) of a transition are pairwise different and have different "
        "de-duplication keys (the same entry twice in one list is one guard); the same entry once in `cond` and once "
        "in `unless` is generated (D20, repaired)",
        "ASCII identifiers and single-line string literals without prefixes",
    ]
