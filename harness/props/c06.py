"""C06 — Concurrent senders: mutual exclusion, exactly-once, nothing stranded.

Proof: `lean/SMV/Props/C06.lean` (protocol model `lean/SMV/Model/Protocol.lean`, any number of senders,
any interleaving). Correspondence: two controlled schedulers over the REAL engines, no source hooks
(`sched_threads.py`: baton + `sys.settrace`, one decision per source line of the dispatch code and per
callback begin/end; `sched_asyncio.py`: an event loop that runs one ready handle per iteration), with
schedules enumerated CHESS-style under a deviation bound in `multiprocessing` workers
(`sched_explore.py`). Per schedule: (i) the Spec monitor `sched_common.spec_check`, written from the
English statement, on the implementation's observation; (ii) the schedule is mapped to the protocol
steps it realises and `drv_protocol` checks that they are a valid `Step` sequence whose outcome equals
the observed one; (iii) for small scenarios the observed outcomes are compared with the model's
enumerated outcome set.

Bounds: threads — at most `bound` preemptions (switching away from a thread that could continue);
asyncio — at most `bound` switches away from a sender whose chain of tasks has a ready handle; choosing
who runs after a sender finished/blocked is free. Beyond the enumerated space, seeded random schedules
with up to 3-4 deviations are sampled for the larger scenarios.

Granularity (partial claim for the runtime): a source line is the unit of preemption and
`Lock.acquire(blocking=False)`, `deque.append/popleft`, `Lock.release` are atomic; bytecode-level
preemption inside a line and real GIL/loop timing are not explored.
"""
from __future__ import annotations

import glob
import json
import os
import random
import subprocess
import time

from common import LEAN, VERIF, run_driver
from framework import lean_obligations, scn_hash, safe_probe
from sched_common import Scenario, enum_lines, model_outcome_matches
from sched_explore import (Acc, devs_parse, devs_str, explore, explore_parallel, make_pool,
                           sample_parallel)

CB = ("before", "exit", "on", "enter", "after")


# ----------------------------------------------------------------------------- scenario plans

def plan(tier, seed):
    """(scenario, deviation bound, share of the time budget, number of sampled schedules, enumerate model?)"""
    rnd = random.Random(f"{seed}:C06:plan")
    at = lambda: rnd.choice(CB)  # noqa: E731
    y = lambda hi=2: {c: rnd.randint(0, hi) for c in CB}  # noqa: E731
    T = lambda **kw: Scenario(kind="threads", yields={}, **kw)  # noqa: E731
    A = lambda **kw: Scenario(kind="asyncio", **kw)  # noqa: E731
    P = []
    if tier == "quick":
        # small exhaustive ones first (they contain every known race window), the big one after them
        P.append((T(name="t2x1e", progs=[[1], [2]], nest={}, nest_at={}, gran="engine"), 2, 0.08, 0, True))
        P.append((A(name="a2", progs=[[1, 2], [3]], nest={}, nest_at={}, yields={"on": 1, "after": 1}, split=[3], gaps=[0, 1], attach=[1]), 2, 0.06, 0, True))
        P.append((T(name="t2x21n", progs=[[1, 2], [3]], nest={1: [7]}, nest_at={1: at()}, gran="engine"), 2, 0.12, 0, True))
        P.append((A(name="a3n", progs=[[1], [2], [3]], nest={1: [7]}, nest_at={1: at()}, yields={**y(1), "on": 1}, split=[2], gaps=[0, 1, 2], attach=[1, 2]), 2, 0.08, 0, True))
        P.append((T(name="t2x1", progs=[[1], [2]], nest={}, nest_at={}, gran="full"), 2, 0.20, 0, True))
        P.append((T(name="t2x2", progs=[[1, 2], [3, 4]], nest={3: [8]}, nest_at={3: at()}, gran="engine"), 2, 0.15, 300, False))
        P.append((T(name="t3x1", progs=[[1], [2], [3]], nest={}, nest_at={}, gran="engine"), 1, 0.06, 300, True))
        P.append((A(name="a4", progs=[[1, 2], [3], [4, 5], [6]], nest={3: [8]}, nest_at={3: at()}, yields=y(2), split=[4, 6], gaps=[0, 1, 1, 2]), 1, 0.05, 200, False))
    else:
        P.append((T(name="t2x1", progs=[[1], [2]], nest={}, nest_at={}, gran="full"), 2, 0.03, 0, True))
        P.append((T(name="t2x1e3", progs=[[1], [2]], nest={}, nest_at={}, gran="engine"), 3, 0.10, 0, True))
        P.append((T(name="t2x1f3", progs=[[1], [2]], nest={}, nest_at={}, gran="full"), 3, 0.10, 0, True))
        P.append((T(name="t2x2n", progs=[[1, 2], [3, 4]], nest={1: [7]}, nest_at={1: at()}, gran="full"), 2, 0.10, 0, True))
        P.append((T(name="t2x2e", progs=[[1, 2], [3, 4]], nest={3: [8]}, nest_at={3: at()}, gran="engine"), 3, 0.08, 0, True))
        P.append((T(name="t3x1n", progs=[[1], [2], [3]], nest={2: [7, 8]}, nest_at={2: at()}, gran="engine"), 2, 0.10, 2000, True))
        P.append((T(name="t3x2", progs=[[1, 2], [3, 4], [5]], nest={3: [8]}, nest_at={3: at()}, gran="engine"), 2, 0.08, 3000, False))
        P.append((T(name="t4x1n", progs=[[1], [2], [3], [4]], nest={1: [7], 7: [8]}, nest_at={1: at(), 7: at()}, gran="engine"), 2, 0.08, 4000, False))
        P.append((T(name="t4x2", progs=[[1, 2], [3, 4], [5, 6], [7]], nest={}, nest_at={}, gran="engine"), 1, 0.04, 4000, False))
        P.append((A(name="a2", progs=[[1, 2], [3, 4]], nest={1: [7]}, nest_at={1: at()}, yields=y(2), split=[3], gaps=[0, 1], attach=[1]), 3, 0.03, 0, True))
        P.append((A(name="a3n", progs=[[1, 2], [3], [4]], nest={1: [7], 3: [8]}, nest_at={1: at(), 3: at()}, yields={**y(2), "on": 2}, split=[3], gaps=[0, 1, 2]), 3, 0.04, 0, True))
        P.append((A(name="a4", progs=[[1, 2], [3, 4], [5, 6], [7]], nest={3: [8]}, nest_at={3: at()}, yields={**y(2), "after": 1}, split=[5, 7], gaps=[1, 0, 2, 1]), 3, 0.04, 3000, False))
        P.append((A(name="a4s", progs=[[1], [2], [3], [4]], nest={1: [7, 8]}, nest_at={1: at()}, yields=y(2), split=[2, 3, 4], gaps=[0, 2, 1, 0]), 3, 0.03, 2000, False))
    # seeded random families: 2-4 senders x 1-2 events, nested sends anywhere, yields 0-2, split sends
    nA, nT = (6, 2) if tier == "quick" else (40, 12)
    shareA, shareT = (0.02, 0.03) if tier == "quick" else (0.002, 0.004)
    for j in range(nA + nT):
        r = random.Random(f"{seed}:C06:family:{j}")
        n = r.randint(2, 4)
        uid = iter(range(1, 100))
        progs = [[next(uid) for _ in range(r.randint(1, 2))] for _ in range(n)]
        tops = [u for p in progs for u in p]
        nest, nest_at = {}, {}
        for _ in range(r.randint(0, 2)):
            parent = r.choice(tops + [k for v in nest.values() for k in v])
            if parent in nest:
                continue
            nest[parent] = [50 + next(uid) for _ in range(r.randint(1, 2))]
            nest_at[parent] = r.choice(CB)
        if j < nA:
            sc = A(name=f"ra{j}", progs=progs, nest=nest, nest_at=nest_at, yields={c: r.randint(0, 2) for c in CB},
                   split=[u for u in tops if r.random() < 0.4], gaps=[r.randint(0, 2) for _ in range(n)])
            P.append((sc, 2, shareA, 60 if tier == "quick" else 300, False))
        else:
            sc = T(name=f"rt{j - nA}", progs=progs, nest=nest, nest_at=nest_at, gran="engine")
            P.append((sc, 1, shareT, 100 if tier == "quick" else 600, False))
    return P


def sampled(scn, count, seed, decisions, max_dev):
    """Seeded random schedules with up to `max_dev` deviations at random decisions (choices wrap)."""
    out = []
    for i in range(count):
        r = random.Random(f"{seed}:C06:{scn.name}:{i}")
        d = {-1: 1}
        for _ in range(r.randint(1, max_dev)):
            d[r.randrange(0, max(1, decisions))] = r.randint(1, 3)
        out.append(d)
    return out


# ----------------------------------------------------------------------------- replay files

def replay_text(scn, ds, what, out, extra=None):
    d = dict(property="C06", scenario=json.loads(scn.to_json()), schedule=ds, what=what, outcome=out,
             how="./check C06 --replay <this file>: the scenario is run against the real engine under the "
                 "controlled scheduler with exactly this deviation map (decision index:choice)")
    if extra:
        d.update(extra)
    return json.dumps(d, indent=1, sort_keys=True) + "\n"


def run_one(pool, scn, devs):
    import multiprocessing as mp
    r = pool.apply_async(explore, ((scn.to_json(), [devs], 0, time.time() + 60, False, 0),))
    try:
        acc, _ = r.get(timeout=150)
    except mp.TimeoutError:       # (a worker that never answers: rebuild the pool, nothing was evaluated)
        pool.reset()
        acc = Acc()
        acc.cut = True
        acc.stalled = 1
    return acc


def do_replay(ctx, pool, path, quiet=False):
    d = json.load(open(path))
    scn = Scenario.from_json(json.dumps(d["scenario"]))
    devs = devs_parse(d["schedule"])
    acc = run_one(pool, scn, devs)
    bad = False
    if acc.spec_fail:
        ds, fails, out, det = acc.spec_fail[0]
        rp = ctx.write_replay(f"replay_{scn_hash(scn.to_json() + ds)}.json", replay_text(scn, ds, fails, out, dict(observed=det)))
        ctx.violation(rp, fails[0])
        bad = True
    elif acc.map_fail and not (quiet and "diverged" in acc.map_fail[0][1]):
        ds, msg, labels = acc.map_fail[0]
        rp = ctx.write_replay(f"corr_{scn_hash(scn.to_json() + ds)}.json",
                              replay_text(scn, ds, [msg], "-", dict(correspondence="corr:C06:schedule->Step sequence", labels=labels)))
        ctx.violation(rp, msg, no_input=True)
        bad = True
    if not quiet:
        print(f"[C06] replay {os.path.basename(path)}: spec_failures={len(acc.spec_fail)} map_failures={len(acc.map_fail)}")
    return acc, bad


# ----------------------------------------------------------------------------- main

def probe_detached_sends():
    """Directed family (asyncio): a sender issues `c1 = sm.send(..)` and, *before awaiting it*, awaits a second
    send; other tasks send concurrently; callbacks yield 0-2 times. An event is accepted when `send` is called:
    each sender's events are processed in the order it sent them, exactly once, nothing stranded."""
    import asyncio
    import warnings
    from statemachine import State, StateMachine
    fails, cases = [], 0
    for y_on in (0, 1, 2):
        for y_after in (0, 1):
            for delay_b in (0, 1, 2):
                for third in (False, True):
                    log = []

                    class D(StateMachine):
                        s0 = State(initial=True)
                        s1 = State()
                        go = s0.to(s1) | s1.to(s0)

                        async def on_go(self, uid=None):
                            log.append(("B", uid))
                            for _ in range(y_on):
                                await asyncio.sleep(0)
                            log.append(("E", uid))

                        async def after_go(self, uid=None):
                            for _ in range(y_after):
                                await asyncio.sleep(0)

                    async def main():
                        sm = D()
                        await sm.activate_initial_state()

                        async def a():
                            c1 = sm.send("go", uid="a1")      # accepted now
                            await sm.send("go", uid="a2")
                            await c1

                        async def b():
                            for _ in range(delay_b):
                                await asyncio.sleep(0)
                            await sm.send("go", uid="b1")
                            if third:
                                c = sm.send("go", uid="b2")
                                await sm.send("go", uid="b3")
                                await c
                        await asyncio.gather(a(), b())
                        return len(sm._engine._external_queue) if hasattr(sm._engine, "_external_queue") else 0
                    with warnings.catch_warnings():
                        warnings.simplefilter("ignore")
                        try:
                            left = asyncio.run(main())
                        except Exception as e:
                            fails.append(f"yields on={y_on} after={y_after} delay={delay_b}: {type(e).__name__}: {e}")
                            continue
                    cases += 1
                    begun = [u for k, u in log if k == "B"]
                    want = ["a1", "a2", "b1"] + (["b2", "b3"] if third else [])
                    what = f"yields on={y_on} after={y_after} delay_b={delay_b} third={third}: processed {begun}"
                    if sorted(begun) != sorted(want):
                        fails.append(what + f", sent {want} (exactly once)")
                    elif [u for u in begun if u[0] == "a"] != ["a1", "a2"] or \
                            [u for u in begun if u[0] == "b"] != [u for u in want if u[0] == "b"]:
                        fails.append(what + " — a sender's events out of the order it sent them")
                    elif left:
                        fails.append(what + f", {left} left in the queue")
                    else:
                        for i in range(0, len(log), 2):
                            if log[i][0] != "B" or log[i + 1] != ("E", log[i][1]):
                                fails.append(what + f" — callback sequences overlap: {log}")
                                break
    return cases, fails


def probe_release_window(seed, cases=12):
    """Directed schedules (threads, sync engine): every time the draining thread is about to release the processing
    lock — after its last emptiness test — another thread performs one complete `send()` (it finds the lock taken,
    leaves its event in the queue and returns). This is repeated k times in a row (k = 1 … 5: the window is hit again
    by the pass that picked up the previous straggler), with 1–3 events per hit. When every sender has returned,
    every event must have been processed exactly once, in the order put. (The explorer enumerates schedules with a
    bounded number of preemptions; this family goes deep along the one line that matters for `nothing stranded`.)"""
    import random
    import sys
    import threading
    import warnings
    from statemachine import State, StateMachine
    import statemachine.engines.sync as sync_mod
    fails = []
    fn = sync_mod.__file__
    try:
        rel = {i + 1 for i, l in enumerate(open(fn)) if "_processing.release()" in l}
    except OSError:
        return ["engines/sync.py has no source"]
    if not rel:
        return []     # (no such line: nothing to aim at; the explorer's schedules remain)
    for i in range(cases):
        rng = random.Random(f"{seed}:relwin:{i}")
        k = 1 + i % 5
        per_hit = rng.randint(1, 3)
        processed = []
        with warnings.catch_warnings():
            warnings.simplefilter("ignore")

            class RW(StateMachine):
                s = State(initial=True)
                ev = s.to.itself(internal=True)

                def on_ev(self, tag):
                    processed.append(tag)
            sm = RW()
        hits = [0]
        sent = ["A"]
        returned = []

        def straggler(tag):
            returned.append((tag, sm.send("ev", tag=tag)))

        def local(frame, event, arg):
            if event == "line" and frame.f_lineno in rel and hits[0] < k:
                hits[0] += 1
                sys.settrace(None)
                for j in range(per_hit):
                    tag = f"H{hits[0]}.{j}"
                    sent.append(tag)
                    th = threading.Thread(target=straggler, args=(tag,))
                    th.start()
                    th.join(10)
                sys.settrace(tracer)
            return local

        def tracer(frame, event, arg):
            if event == "call" and frame.f_code.co_filename == fn:
                return local
            return None
        sys.settrace(tracer)
        try:
            sm.send("ev", tag="A")
        finally:
            sys.settrace(None)
        if processed != sent:
            fails.append(f"release window hit {hits[0]} times in a row ({per_hit} event(s) each): sent {sent}, processed "
                         f"{processed} — stranded: {[t for t in sent if t not in processed]}")
    return fails


def run(ctx):
    lean_obligations(ctx)
    from props.c03 import probe_burst
    pb = safe_probe(probe_burst, f"{ctx.seed}:c06", 4 if ctx.tier == "quick" else 30)
    ctx.coverage["burst_cases"] = 4 if ctx.tier == "quick" else 30
    if pb:
        ctx.violation(ctx.write_replay("burst.txt", "\n".join(pb) + "\n"), pb[0][:160])
    pr = safe_probe(probe_release_window, ctx.seed, 15 if ctx.tier == "quick" else 200)
    ctx.coverage["release_window_cases"] = 15 if ctx.tier == "quick" else 200
    if pr:
        ctx.violation(ctx.write_replay("release_window.txt", "\n".join(pr[:10]) + "\n"), pr[0][:200])
    b = subprocess.run(["lake", "build", "drv_protocol"], cwd=LEAN, capture_output=True, text=True)
    if b.returncode != 0:
        raise RuntimeError("drv_protocol does not build: " + (b.stdout + b.stderr)[-800:])
    # mutual exclusion around a *cancelled* sender (cancellation is not a step of the protocol model: the Spec —
    # callbacks of two events never overlap, an abandoned transition does not go on in the background — is checked
    # on the implementation directly)
    from props.c03 import probe_cancelled_sender
    pc = safe_probe(probe_cancelled_sender, f"{ctx.seed}:c06", cases=40)
    ctx.coverage["cancelled_sender_cases"] = 40
    if pc:
        ctx.violation(ctx.write_replay("cancelled_sender.txt", "\n".join(pc[:12]) + "\n"), pc[0])
    from props.c04 import probe_orphan_sibling
    ncases, of = safe_probe(probe_orphan_sibling, f"{ctx.seed}:c06", 80 if ctx.tier == "quick" else 1500, pair=True)
    ctx.coverage["orphan_sibling_cases"] = ncases
    if of:
        # (a sibling that is still cleaning up when `send()` reports the failure overlaps with the next event's callbacks)
        ctx.violation(ctx.write_replay("orphan_sibling.txt", "\n".join(of[:12]) + "\n"), of[0][:200])
    ncases, pf = safe_probe(probe_detached_sends, pair=True)
    ctx.coverage["detached_send_cases"] = ncases
    if pf:
        ctx.violation(ctx.write_replay("detached_sends.txt", "\n".join(pf[:12]) + "\n"), pf[0])
    procs = min(16, os.cpu_count() or 4)
    pool = make_pool(procs)
    try:
        _run(ctx, pool, procs)
    finally:
        pool.terminate()
        pool.join()


def _run(ctx, pool, procs):
    t_start = time.time()
    ctx.coverage["rule"] = (
        "one evaluation = one schedule of one scenario run against the real engine under the controlled "
        "scheduler; distinct = distinct (scenario, deviation map); non-trivial = the schedule contains at "
        "least one deviation from the default (a preemption / a non-FIFO loop choice) taken while some "
        "sender had enqueued its event and not yet returned from send()")
    ctx.assumptions += [
        "preemption granularity = one source line of statemachine/{event,statemachine,engines/sync,engines/base}.py "
        "plus callback begin/end; bytecode-level preemption inside a line is not explored",
        "threading.Lock.acquire(blocking=False), Lock.release, deque.append, deque.popleft are atomic",
        "asyncio: scheduling points are exactly the awaits that suspend; one ready handle runs per loop iteration",
        "failure path (a raising callback clears the queue) is outside C06 and not exercised",
    ]
    if ctx.replay:
        do_replay(ctx, pool, ctx.replay)
        ctx.coverage.update(evaluations=1, distinct_nontrivial=0, samples=[ctx.replay])
        return

    total = Acc()
    dist = {}
    # 1. corpus first
    corpus = sorted(glob.glob(os.path.join(VERIF, "corpus", "C06", "*.json")))
    for p in corpus:
        acc, _ = do_replay(ctx, pool, p, quiet=True)
        total.merge(acc)
    dist["corpus"] = len(corpus)

    budget = min(ctx.left() - 10, 38) if ctx.tier == "quick" else ctx.left() - 120
    t0 = time.time()
    plans = plan(ctx.tier, ctx.seed)
    model_sets = {}
    realised = {}
    any_spec = []
    any_map = []
    for scn, bound, share, nsample, do_enum in plans:
        deadline = min(time.time() + share * budget, t0 + budget)
        t1 = time.time()
        acc = explore_parallel(pool, scn, bound, deadline, procs,
                               total_cap=(None if ctx.tier != "quick" or do_enum else 250))
        exhaustive = not acc.cut
        n_enum = acc.runs
        if nsample and time.time() < t0 + budget:
            devs_list = sampled(scn, nsample, ctx.seed, acc.max_decisions, 3 if scn.kind == "threads" else 4)
            acc.merge(sample_parallel(pool, scn, devs_list, min(time.time() + share * budget, t0 + budget)))
        info = dict(scenario=scn.describe(), bound=bound, enumerated=n_enum, sampled=acc.runs - n_enum,
                    exhaustive_within_bound=exhaustive, max_decisions=acc.max_decisions,
                    deviations_hist=acc.preempt_hist, outcomes=len(acc.outcomes),
                    distinct_step_sequences_validated=acc.label_seqs, mapping_unavailable=acc.map_unavailable,
                    wall_s=round(time.time() - t1, 1))
        # model outcome set (bounded search in the driver; validates the model, proves nothing)
        if do_enum:
            res = run_driver(enum_lines(scn.name, scn), exe="drv_protocol", root="DrvProtocol.lean").get(scn.name, [])
            mouts = [l for l in res if l.startswith("out ")]
            complete = any(l.startswith("states ") and "complete=1" in l for l in res)
            info["model_outcomes"] = len(mouts)
            info["model_enum_complete"] = complete
            if complete:
                hit = set()
                for o, ds in acc.outcomes.items():
                    ms = [m for m in mouts if model_outcome_matches(o, m)]
                    if ms:
                        hit.update(ms)
                    elif not any(ds == f[0] for f in acc.spec_fail):
                        acc.map_fail.append((ds, f"outcome `{o}` is not in the model's outcome set ({len(mouts)} outcomes)", []))
                info["model_outcomes_realised"] = len(hit)
                if scn.name in ("t2x1", "t2x1e", "t2x1e3") and exhaustive and len(hit) < len(mouts) and not acc.spec_fail:
                    miss = [m for m in mouts if m not in hit]
                    acc.map_fail.append(("-", f"model outcome never realised by the implementation within the bound: `{miss[0]}` "
                                              f"({len(hit)}/{len(mouts)} realised)", []))
                realised[scn.name] = (len(hit), len(mouts))
        dist[scn.name] = info
        for ds, fails, out, det in acc.spec_fail:
            any_spec.append((scn, ds, fails, out, det))
        for ds, msg, labels in acc.map_fail:
            any_map.append((scn, ds, msg, labels))
        total.merge(acc)
        if any_spec and ctx.tier == "quick":
            break

    # verdicts: a Spec failure of the implementation is a violation with a replay;
    # a model/implementation disagreement without any Spec failure anywhere in this run: no-input
    seen = set()
    for scn, ds, fails, out, det in any_spec[:3]:
        key = (scn.name, fails[0].split(":")[0])
        if key in seen:
            continue
        seen.add(key)
        rp = ctx.write_replay(f"violation_{scn.name}_{scn_hash(scn.to_json() + ds)}.json", replay_text(scn, ds, fails, out, dict(observed=det)))
        ctx.violation(rp, fails[0])
    if any_map and not any_spec:
        scn, ds, msg, labels = any_map[0]
        rp = ctx.write_replay(f"corr_{scn.name}_{scn_hash(scn.to_json() + ds)}.json",
                              replay_text(scn, ds, [msg], "-", dict(
                                  correspondence="corr:C06:implementation schedule -> Step sequence / outcome set of SMV.Protocol",
                                  theorems=["SMV.Protocol.step?_sound", "SMV.Protocol.reach_run"], labels=labels)))
        ctx.violation(rp, msg, no_input=True)

    if ctx.tier == "thorough" and not any_spec:
        from common import REPO
        from sched_selftest import run_selftest
        st = run_selftest(REPO, seconds=25.0)
        ctx.coverage["harness_selftest"] = st
        print(f"[C06] harness self-test: {st['caught']}/{st['expected']} seeded mutants caught"
              + (f"; MISSED: {st['missed']}" if st["missed"] else ""))
    if total.map_unavailable:
        print(f"[C06] note: the protocol's source lines could not be identified in {total.map_unavailable} schedule(s); "
              "for those only the Spec monitor and the outcome-set comparison were applied")
    ctx.coverage.update(
        stalled_tasks_abandoned=total.stalled, pool_rebuilt=getattr(pool, "resets", 0),
        mapping_unavailable=total.map_unavailable,
        evaluations=total.runs,
        distinct_nontrivial=len(total.nontrivial),
        samples=total.samples[:6],
        distribution=dist,
        traces_validated_against_impl=total.label_seqs,
        determinism_checks=total.determinism_checks,
        spec_failures=len(any_spec),
        correspondence_failures=len(any_map),
        model_outcomes_realised={k: f"{a}/{b}" for k, (a, b) in realised.items()},
        exhaustive=False,
        workers=procs,
        explore_wall_s=round(time.time() - t_start, 1),
    )
