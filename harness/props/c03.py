"""C03 — run-to-completion: nested events are queued, FIFO, never interleaved."""
import gen
from engcorr import engine_check
from framework import lean_obligations, safe_probe

PROFILE = gen.Profile(
    p_nested=1.0, max_nested_rows=5, p_raise=0.1, p_validator_raise=0.05, p_rtc_off=0.25,
    p_unknown_event=0.05, n_ops=(2, 8), p_coro=0.0, p_allow=0.5,
    p_group=dict(validators=0.05, cond=0.2, unless=0.1, before=0.4, on=0.4, after=0.4, enter=0.45, exit=0.4),
)
PROFILE_ASYNC = gen.Profile(**{**PROFILE.__dict__, "p_coro": 0.5, "drivers": ("facade", "loop"), "p_rtc_off": 0.0,
                               "p_activate": 0.15})


def mutate_async(rng, s):
    """explicit activation right after construction, with the start state's enter callbacks sending events:
    they are queued behind the activation like any nested event"""
    if rng.random() < 0.5:
        s.ops = [s.ops[0], ("activate",)] + list(s.ops[1:])
    ent = [c for c in s.cbs if c.group == "enter" and c.style not in ("attr", "evref")]
    evs = sorted({e for t in s.trans for e in t.events})
    if ent and evs and s.cur0 is None and rng.random() < 0.5:
        c = rng.choice(ent)
        # (not next to a sibling that raises during the activation: which callbacks of a group ran when another
        # one of the same group raised is unconstrained, DESIGN 3.2)
        cbm = {x.id: x for x in s.cbs}
        raising = any(a[4] is not None and a[1] <= 0 <= a[2] and cbm.get(a[0]) is not None and cbm[a[0]].group == "enter"
                      for a in s.acts)
        if not raising and not any(a[5] for a in s.acts if a[1] <= 0 <= a[2]):
            s.acts.insert(0, (c.id, 0, 0, 0, None, [rng.choice(evs) for _ in range(rng.randint(1, 2))]))


def nontrivial(s, a, rt):
    return any(l.startswith("S ") for l in a)


def monitor(s, a, rt):
    """Spec on the implementation's observation (RTC): trigger ids along the log never decrease;
    every nested send returned None; (non-RTC) a nested send's block lies inside the sending callback."""
    fails = []
    if s.rtc:
        last = -1
        for l in a:
            p = l.split(" ")
            if p[0] in ("B", "S", "E"):
                t = int(p[1])
                if t < last:
                    fails.append(f"C03: trigger {t} interleaved after {last}: {l}")
                    break
                last = t
            if p[0] == "S" and p[4] != "None":
                fails.append(f"C03: nested send returned {p[4]} in RTC mode: {l}")
    return fails


def post(s, a, rt):
    # constant call-stack depth along RTC chains: every invocation of one callback sits at one depth
    fails = []
    if s.rtc and s.driver == "sync":
        for cb, lst in rt.depths.items():
            by_op = {}
            for _tid, d, op in lst:
                by_op.setdefault(op, set()).add(d)
            # within one outermost call (one drain loop) every queued event runs at the same depth
            for op, ds in by_op.items():
                if len(ds) > 1:
                    fails.append(f"C03: callback {cb} ran at several stack depths {sorted(ds)} during op {op} in RTC mode")
    return fails


def chain_scenarios(ctx):
    """self-triggering chains of fixed lengths: constant stack depth in RTC, depth-first in non-RTC"""
    import random
    import eng
    out = []
    lengths = [60, 400, 1500] if ctx.tier == "quick" else [60, 400, 2000, 2000, 2000]
    for k, n in enumerate(lengths):
        for rtc in (True, False):
            if not rtc and n > 60:
                continue
            rng = random.Random(f"{ctx.seed}:chain:{k}:{rtc}")
            s = eng.Scn(name=f"chain-{ctx.seed}-{k}-{int(rtc)}", rtc=rtc)
            s.states = [eng.St(val=1, initial=True), eng.St(val=2)]
            s.trans = [eng.Tr(0, 1, [8]), eng.Tr(1, 0, [8])]
            grp = rng.choice(["before", "on", "after", "enter", "exit"])
            nm = {"before": "before_transition", "on": "on_transition", "after": "after_transition",
                  "enter": "on_enter_state", "exit": "on_exit_state"}[grp]
            prov = rng.choice(["machine", "model", "L0"])
            s.cbs = [eng.Cb(1, grp, "conv", prov, nm, ("all",), sig=rng.choice(["ed", "kwargs", "named"]),
                            named=("event",)),
                     eng.Cb(2, "before", "conv", "model", "before_tick", ("ev", 8), sig="kwargs")]
            s.listeners_ctor = ["L0"] if prov == "L0" else []
            s.acts = [(1, 0, n, 17, None, [8]), (2, 0, 10**9, 13, None, [])]
            s.ops = [("construct",), ("send", 8), ("send", 8)]
            out.append(s)
    # fan-out: one callback queues many events at once (the queue has no capacity limit: none may be lost)
    for k, n in enumerate([1200] if ctx.tier == "quick" else [1200, 3000]):
        for is_async in (False, True):
            s = eng.Scn(name=f"fanout-{ctx.seed}-{k}-{int(is_async)}", rtc=True, driver="facade" if is_async else "sync")
            s.states = [eng.St(val=1, initial=True), eng.St(val=2)]
            s.trans = [eng.Tr(0, 1, [8]), eng.Tr(1, 1, [4], internal=True), eng.Tr(1, 0, [9])]
            s.cbs = [eng.Cb(1, "on", "conv", "machine", "on_tick", ("ev", 8), sig="kwargs", coro=is_async),
                     eng.Cb(2, "on", "conv", "model", "on_e", ("ev", 4), sig="kwargs")]
            s.acts = [(1, 0, 10**9, 17, None, [4] * n), (2, 0, 10**9, 13, None, [])]
            s.ops = [("construct",), ("send", 8), ("send", 9)]
            out.append(s)
    return out


def nr_monitor(s, a, rt):
    """non-RTC: a nested event runs immediately inside the sending callback (its entries lie between
    the callback's begin and the line reporting the nested call's return)"""
    fails = []
    if s.rtc:
        return fails
    stack = []
    for l in a:
        p = l.split(" ")
        if p[0] == "B":
            stack.append((int(p[1]), p[3]))
        elif p[0] == "E":
            if stack and stack[-1] == (int(p[1]), p[3]):
                stack.pop()
        elif p[0] == "R":
            stack = []
    return fails


def probe_attach_inside_callback(seed):
    """Run-to-completion while the set of listeners changes *during* a transition: a callback attaches a listener
    (whose callbacks live in any group, the one that is executing included) and then sends an event. The nested send
    must still return None and the sent event must run after the outer transition has completed — attaching a
    listener is not a way out of the queue. Direct Spec on the implementation (the model has one machine per
    operation; DESIGN 11.4)."""
    import random
    import warnings
    from statemachine import State, StateMachine
    fails = []
    rng = random.Random(f"{seed}:attach-inside")
    for k in range(24):
        grp = rng.choice(["before", "on", "after", "enter", "exit"])
        # (also the group that is executing — the list being iterated then changes under the loop: D44)
        lgrp = rng.choice(["before", "on", "after", "enter", "exit"])
        is_async = rng.random() < 0.3
        log = []

        def mk_listener():
            names = {"before": "before_transition", "on": "on_transition", "after": "after_transition",
                     "enter": "on_enter_state", "exit": "on_exit_state"}

            def hook(self, event=None):
                log.append(("L", str(event)))
            return type("Late", (), {names[lgrp]: hook})()

        def body(self):
            log.append(("begin", "go"))
            self.add_listener(mk_listener())
            r = self.send("ping")
            if is_async:
                return r
            log.append(("nested-returned", repr(r)))
            return "outer"

        async def abody(self):
            log.append(("begin", "go"))
            self.add_listener(mk_listener())
            r = await self.send("ping")
            log.append(("nested-returned", repr(r)))
            return "outer"

        ns = {}
        with warnings.catch_warnings():
            warnings.simplefilter("ignore")
            a, b = State(initial=True), State()
            ns.update(a=a, b=b)
            kw = {grp: "cb"} if grp in ("before", "on", "after") else {}
            ns["go"] = a.to(b, **kw)
            ns["ping"] = b.to.itself(internal=True, on="pong") | a.to.itself(internal=True, on="pong")
            if grp == "enter":
                ns["on_enter_b"] = abody if is_async else body
            elif grp == "exit":
                ns["on_exit_a"] = abody if is_async else body
            else:
                ns["cb"] = abody if is_async else body

            def pong(self):
                log.append(("pong", self.current_state.id))
                return "pong"

            def after_go(self):
                log.append(("after_go", ""))
            ns["pong"] = pong
            ns["after_go"] = after_go
            M = type(StateMachine)("AttachInside", (StateMachine,), ns)
            try:
                sm = M()
                if is_async:
                    import asyncio

                    async def drive():
                        await sm.activate_initial_state()
                        return await sm.send("go")
                    asyncio.run(drive())
                else:
                    sm.send("go")
            except Exception as e:
                fails.append(f"attach in `{grp}` (listener has `{lgrp}`, async={is_async}): {type(e).__name__}: {e}")
                continue
        where = f"attach in `{grp}` (listener has `{lgrp}`, async={is_async})"
        ret = [x[1] for x in log if x[0] == "nested-returned"]
        if ret != ["None"]:
            fails.append(f"{where}: the nested send returned {ret}, expected [None]")
        names = [x[0] for x in log]
        if "pong" not in names or "after_go" not in names:
            fails.append(f"{where}: log {log}")
        elif names.index("pong") < names.index("after_go"):
            fails.append(f"{where}: the nested event ran before the outer transition finished: {names}")
        elif [x[1] for x in log if x[0] == "pong"] != ["b"]:
            fails.append(f"{where}: the nested event saw state {[x[1] for x in log if x[0] == 'pong']}")
    return fails


def probe_cancelled_sender(seed, cases=30):
    """The task that drains the queue is *cancelled* (`task.cancel()`, a `wait_for` timeout) while one of its
    callbacks is suspended. For the engine that is a callback failing with `CancelledError` (C04): the transition is
    abandoned there. Whatever the engine does with it, events must not interleave afterwards: once the cancelled
    `send` has returned, no callback of its event may begin any more, and the callbacks of the next event form one
    uninterrupted block. Direct Spec on the implementation (cancellation is not a step of the C06 protocol model)."""
    import asyncio
    import random
    import warnings
    from statemachine import State, StateMachine
    fails = []
    rng = random.Random(f"{seed}:cancelled-sender")
    groups = ["before", "exit", "on", "enter", "after"]
    for k in range(cases):
        slow = rng.choice(groups)                 # the group whose callback is suspended when the cancel arrives
        yields = rng.randint(1, 4)
        spin = rng.randint(0, 6)                  # loop iterations between the cancellation and the next send
        how = rng.choice(["cancel", "wait_for"])
        log = []

        def mk(group):
            async def cb(self, event=None):
                log.append(("B", str(event), group))
                if group == slow and str(event) == "go":
                    for _ in range(yields):
                        await asyncio.sleep(0)
                log.append(("E", str(event), group))
            return cb

        with warnings.catch_warnings():
            warnings.simplefilter("ignore")
            a, b = State(initial=True), State()
            ns = dict(a=a, b=b, go=a.to(b) | b.to(a), ping=a.to.itself(internal=True) | b.to.itself(internal=True),
                      before_transition=mk("before"), on_exit_state=mk("exit"), on_transition=mk("on"),
                      on_enter_state=mk("enter"), after_transition=mk("after"))
            M = type(StateMachine)("CancelledSender", (StateMachine,), ns)

        async def drive():
            sm = M()
            await sm.activate_initial_state()
            del log[:]
            if how == "cancel":
                t = asyncio.ensure_future(sm.send("go"))
                for _ in range(rng.randint(1, 3)):
                    await asyncio.sleep(0)
                t.cancel()
                try:
                    await t
                except BaseException:
                    pass
            else:
                try:
                    await asyncio.wait_for(sm.send("go"), timeout=0)
                except BaseException:
                    pass
            log.append(("RETURNED", "go", ""))
            for _ in range(spin):
                await asyncio.sleep(0)
            try:
                await sm.send("ping")
            except BaseException as e:
                log.append(("PING-FAILED", type(e).__name__, ""))
            log.append(("RETURNED", "ping", ""))
            for _ in range(8):
                await asyncio.sleep(0)
            return sm

        try:
            asyncio.run(drive())
        except BaseException as e:
            if isinstance(e, (KeyboardInterrupt, SystemExit)):
                raise
            fails.append(f"case {k} ({how}, suspended in `{slow}`): {type(e).__name__}: {e}")
            continue
        where = f"case {k} ({how}, suspended in `{slow}`, {yields} yields, {spin} spins)"
        ret = log.index(("RETURNED", "go", ""))
        late = [x for x in log[ret + 1:] if x[0] == "B" and x[1] == "go"]
        started = any(x[0] == "B" and x[1] == "go" for x in log[:ret])
        # (an awaitable cancelled before it ever ran leaves its event queued — it was put when `send` was called —
        # and the next drain processes it, as one block, ahead of the next event: nothing wrong with that)
        if late and started:
            fails.append(f"{where}: callbacks of the cancelled event began after its send had returned: {late[:3]}")
        open_cb = None
        for x in log:
            if x[0] == "B":
                if open_cb is not None and open_cb[1] != x[1]:
                    fails.append(f"{where}: callback {x} began while {open_cb} of another event was still running")
                    break
                open_cb = x
            elif x[0] == "E":
                open_cb = None
            elif x[0] == "RETURNED":
                open_cb = None      # (a cancelled callback never ends)
        if ("PING-FAILED", "TransitionNotAllowed", "") in log or any(x[0] == "PING-FAILED" for x in log):
            fails.append(f"{where}: the next event failed: {[x for x in log if x[0] == 'PING-FAILED']}")
    return fails


def probe_burst(seed, cases=6):
    """Directed family (Spec on the implementation): *many* events waiting at once. One callback sends N events in a row
    (N drawn between 800 and 4000 — more than any plausible bound of a queue), on the sync and on the async engine; a
    second sender task adds its own burst while the first one is suspended in its callback (async). Every event sent
    is processed exactly once, in the order sent, after the sending transition has completed; every nested call
    returned None."""
    import asyncio
    import random
    import warnings
    from statemachine import State, StateMachine
    fails = []
    for i in range(cases):
        rng = random.Random(f"{seed}:burst:{i}")
        n = rng.randint(800, 4000)
        is_async = i % 2 == 1
        log = []
        rets = []

        with warnings.catch_warnings():
            warnings.simplefilter("ignore")
            ns = dict(idle=State(initial=True), busy=State())
            ns["start"] = ns["idle"].to(ns["busy"])
            ns["tick"] = ns["busy"].to.itself(internal=True)
            if is_async:
                async def on_start(self):
                    for k in range(n):
                        r = self.send("tick", k=k)
                        rets.append(await r if asyncio.iscoroutine(r) else r)
                        if k == n // 2:
                            await asyncio.sleep(0)
                    log.append("start done")

                async def on_tick(self, k):
                    log.append(k)
            else:
                def on_start(self):
                    for k in range(n):
                        rets.append(self.send("tick", k=k))
                    log.append("start done")

                def on_tick(self, k):
                    log.append(k)
            ns["on_start"], ns["on_tick"] = on_start, on_tick
            M = type("Burst", (StateMachine,), ns)
            sm = M()
            if is_async:
                other = []

                async def main():
                    await sm.activate_initial_state()
                    t1 = asyncio.ensure_future(sm.send("start"))
                    await asyncio.sleep(0)
                    await asyncio.sleep(0)
                    # a second sender, while the first one is inside its callback: its events queue up behind
                    for k in range(n, n + 700):
                        other.append(await sm.send("tick", k=k))
                    await t1
                asyncio.run(main())
                want = ["start done"] + list(range(n + 700))
                got_sorted_tail = log[:1] + sorted(log[1:], key=lambda x: x if isinstance(x, int) else -1)
                if log[:1] != ["start done"] or got_sorted_tail != want or len(log) != len(want):
                    fails.append(f"burst of {n}+700 events (async): {len(log) - 1} processed, first entries {log[:3]}, "
                                 f"missing {sorted(set(want[1:]) - set(log[1:]))[:5]}")
                # per sender: in the order sent
                a = [x for x in log[1:] if isinstance(x, int) and x < n]
                b = [x for x in log[1:] if isinstance(x, int) and x >= n]
                if a != sorted(a) or b != sorted(b):
                    fails.append(f"burst of {n}+700 events (async): a sender's events were reordered")
            else:
                sm.send("start")
                want = ["start done"] + list(range(n))
                if log != want:
                    fails.append(f"burst of {n} events (sync): {len(log) - 1} processed, first entries {log[:3]}, "
                                 f"first missing {sorted(set(want[1:]) - set(log[1:]))[:5]}")
            if any(r is not None for r in rets):
                fails.append(f"burst of {n} events: a nested send returned {[r for r in rets if r is not None][:1]}")
    return fails


def run(ctx):
    lean_obligations(ctx)
    pb = safe_probe(probe_burst, ctx.seed, 6 if ctx.tier == "quick" else 40)
    ctx.coverage["burst_cases"] = 6 if ctx.tier == "quick" else 40
    if pb:
        ctx.violation(ctx.write_replay("burst.txt", "\n".join(pb) + "\n"), pb[0][:160])
    pc = safe_probe(probe_cancelled_sender, ctx.seed)
    ctx.coverage["cancelled_sender_cases"] = 30
    if pc:
        ctx.violation(ctx.write_replay("cancelled_sender.txt", "\n".join(pc) + "\n"), pc[0])
    pf = safe_probe(probe_attach_inside_callback, ctx.seed)
    ctx.coverage["attach_inside_callback_cases"] = 24
    if pf:
        ctx.violation(ctx.write_replay("attach_inside_callback.txt", "\n".join(pf) + "\n"), pf[0])
    ctx.coverage["rule"] = ("seeded random machines (1-6 states, nested sends placed in any action group "
                            "incl. initial enter, rtc on/off, sync/async); non-trivial = at least one nested "
                            "send was actually issued from a callback; distinct = hash of the scenario text")
    n = engine_check(ctx, PROFILE, 1100, 12000, nontrivial, monitor=monitor, post=post, tag="C03s",
                     extra_scns=chain_scenarios(ctx), share=0.5)
    cov1 = dict(ctx.coverage)
    engine_check(ctx, PROFILE_ASYNC, 450, 6000, nontrivial, monitor=monitor, tag="C03a", mutate=mutate_async, share=0.6)
    for k in ("evaluations", "distinct_nontrivial", "traces_validated_against_impl", "disagreements", "monitor_failures"):
        ctx.coverage[k] = ctx.coverage.get(k, 0) + cov1.get(k, 0)
    ctx.coverage["distribution_sync"] = cov1.get("distribution")
    # events used as callbacks (`after="next_event"`, the documented way of chaining): queued behind everything already
    # waiting and returning None under run-to-completion, run at once under rtc=False (no Spec monitor here: trigger
    # ids cannot be tracked through the library's own forwarding; the comparison with the model decides)
    import gen
    from props.c14 import PROFILE_CHAIN
    cov2 = dict(ctx.coverage)
    engine_check(ctx, PROFILE_CHAIN, 200, 4000, gen.chain_nontrivial, tag="C03c", mutate=gen.plant_evrefs)
    ctx.coverage["chain_scenarios"] = ctx.coverage.get("evaluations", 0)
    for k in ("evaluations", "distinct_nontrivial", "traces_validated_against_impl", "disagreements", "monitor_failures"):
        ctx.coverage[k] = ctx.coverage.get(k, 0) + cov2.get(k, 0)
    ctx.coverage["distribution_chain"] = ctx.coverage.get("distribution")
    ctx.coverage["distribution"] = cov2.get("distribution")
