"""C03 — run-to-completion: nested events are queued, FIFO, never interleaved."""
import gen
from engcorr import engine_check
from framework import lean_obligations

PROFILE = gen.Profile(
    p_nested=1.0, max_nested_rows=5, p_raise=0.1, p_validator_raise=0.05, p_rtc_off=0.25,
    p_unknown_event=0.05, n_ops=(2, 8), p_coro=0.0,
    p_group=dict(validators=0.05, cond=0.2, unless=0.1, before=0.4, on=0.4, after=0.4, enter=0.45, exit=0.4),
)
PROFILE_ASYNC = gen.Profile(**{**PROFILE.__dict__, "p_coro": 0.5, "drivers": ("facade", "loop"), "p_rtc_off": 0.0})


def nontrivial(s, a, rt):
    return any(l.startswith("S ") for l in a)


def monitor(s, a, rt):
    """Spec on the implementation's observation (RTC): trigger ids along the log never decrease;
    every nested send returned None; (non-RTC) a nested send's block lies inside the sending callback."""
    fails = []
    if s.rtc:
        last = -1
        for l in a:
            p = l.split(" ")
            if p[0] in ("B", "S", "E"):
                t = int(p[1])
                if t < last:
                    fails.append(f"C03: trigger {t} interleaved after {last}: {l}")
                    break
                last = t
            if p[0] == "S" and p[4] != "None":
                fails.append(f"C03: nested send returned {p[4]} in RTC mode: {l}")
    return fails


def post(s, a, rt):
    # constant call-stack depth along RTC chains: every invocation of one callback sits at one depth
    fails = []
    if s.rtc and s.driver == "sync":
        for cb, lst in rt.depths.items():
            ds = {d for _, d in lst[1:]} if len(lst) > 1 else set()
            # the first invocation may run inside the constructor (different caller depth)
            if len(ds) > 1:
                fails.append(f"C03: callback {cb} ran at several stack depths {sorted(ds)} in RTC mode")
    return fails


def run(ctx):
    lean_obligations(ctx)
    ctx.coverage["rule"] = ("seeded random machines (1-6 states, nested sends placed in any action group "
                            "incl. initial enter, rtc on/off, sync/async); non-trivial = at least one nested "
                            "send was actually issued from a callback; distinct = hash of the scenario text")
    n = engine_check(ctx, PROFILE, 700, 12000, nontrivial, monitor=monitor, post=post, tag="C03s")
    cov1 = dict(ctx.coverage)
    engine_check(ctx, PROFILE_ASYNC, 300, 6000, nontrivial, monitor=monitor, tag="C03a")
    for k in ("evaluations", "distinct_nontrivial", "traces_validated_against_impl", "disagreements", "monitor_failures"):
        ctx.coverage[k] = ctx.coverage.get(k, 0) + cov1.get(k, 0)
    ctx.coverage["distribution_sync"] = cov1.get("distribution")
