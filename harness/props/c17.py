"""C17 — deepcopy / pickle clones are equivalent and independent."""
import copy
import os
import random

import eng
import gen
import world as W
from common import VERIF, first_diff, run_driver
from framework import known_findings, lean_obligations, scn_hash, safe_probe

PROFILE = gen.Profile(
    max_states=4, extra_trans=(1, 5), p_multi_event=0.3,
    p_group=dict(validators=0.2, cond=0.35, unless=0.2, before=0.35, on=0.4, after=0.35, enter=0.4, exit=0.35),
    max_per_group=2, p_conv=0.3, styles=("name", "name", "callable", "decorator"),
    providers=("machine", "model", "L0", "L1"),
    p_nested=0.35, p_raise=0.1, p_validator_raise=0.1, p_unknown_event=0.15, n_ops=(2, 7),
    p_rtc_off=0.45, p_allow=0.4, p_cur0=0.15, p_start=0.3, p_activate=0.05, p_set_allow=0.08,
)
PROFILE_ASYNC = gen.Profile(**{**PROFILE.__dict__, "p_coro": 0.4, "drivers": ("facade", "loop")})

RULE = ("seeded random machines (callbacks on the machine, the model and constructor listeners, named / inline / "
        "decorator / convention styles, sync and coroutine) driven through a random history; at 1-2 random points "
        "(including before the first event and, for async machines, before activation) the machine is cloned with "
        "copy.deepcopy or a pickle round trip (also a clone of a clone); original and clones then receive "
        "different, interleaved event suffixes. Each clone's observation must equal what the Lean model of the "
        "original says for `prefix ++ suffix` (C17_clone_then_ops) and what a fresh machine run through the same "
        "operations without cloning does; the original must be unaffected; model, listeners and machine must be "
        "distinct objects and callbacks of one must never run on the other's objects. Options rtc / "
        "allow_event_without_transition / start_value / state_field are drawn per machine. "
        "non-trivial = a clone is taken after >=1 executed transition (or before activation of an async machine) "
        "and original and clone receive different suffixes")


def gen_world(rng, P, name):
    w = W.World()
    w.loop = rng.random() < 0.3
    scn = gen.gen_scenario(rng, P, f"{name}-f0")
    scn.listeners_ctor = sorted({c.provider for c in scn.cbs if c.provider.startswith("L")})
    if rng.random() < 0.25:
        scn.state_field = rng.choice(["status", "st8", "_s"])
    scn.bind_model = rng.random() < 0.4
    if scn.listeners_ctor and scn.listener_kind == "class" and rng.random() < 0.2:
        scn.listener_kind = "singleton"
    if not any(c.provider == "model" for c in scn.cbs) and rng.random() < 0.2:
        # the machine is created without a model: the library's default `Model()` holds the state
        scn.model_shape, scn.bind_model, scn.cur0 = "default", False, None
    w.families.append(W.Family(scn=scn, cls_name="C17_" + name.replace("-", "_")))
    base = W.member_variant(rng, P, scn, f"{name}-m0")
    base.state_field = scn.state_field
    if scn.model_shape == "default":
        base.cur0 = None
    base.ops = [o for o in base.ops if o[0] != "reconstruct"]
    evs = sorted({e for t in scn.trans for e in t.events})
    w.members.append(W.Member(fam=0, scn=base))
    nclones = rng.choice([1, 1, 2])
    # clone points along the original's history
    order = []
    done = 0          # ops of member 0 executed so far
    pending = []      # (member, remaining op count)
    n0 = len(base.ops)
    points = sorted(rng.randint(1, n0) for _ in range(nclones))
    # a listener attached late (before the first clone is taken): the clone registers it together with the
    # constructor's providers in one pass (C17_registry_late)
    for L in list(base.listeners_ctor):
        conv_only = all(c.style == "conv" for c in base.cbs if c.provider == L)
        sync_ok = base.is_async() == any(c.coro and c.wrap != "lazy" for c in base.cbs
                                          if c.provider != L and base._cb_live_at_ctor(c) and base._cb_bound(c))
        if conv_only and sync_ok and points[0] >= 2 and rng.random() < 0.5:
            base.listeners_ctor.remove(L)
            if not base.is_async():
                for c in list(base.cbs) + list(scn.cbs):   # (the class is built from the family's definition)
                    if c.provider == L:       # (a late async listener on a sync machine is finding D12 of C12)
                        c.coro, c.yields, c.wrap = False, 0, ("" if c.wrap == "lazy" else c.wrap)
            pos = rng.randint(1, points[0] - 1)
            base.ops.insert(pos, ("add_listener", L))
            points = [pt + 1 for pt in points]
            n0 += 1
            break
    for ci, pt in enumerate(points):
        src = 0
        k = pt
        if ci == 1 and rng.random() < 0.4:
            src = 1       # a clone of the first clone, taken right after it was made
            k = points[0] + 1
        dst = len(w.members)
        src_ops = w.members[src].scn.ops
        suffix = []
        for _ in range(rng.randint(1, 5)):
            r = rng.random()
            if r < 0.15:
                suffix.append(("send", rng.randrange(0, len(eng.EVENTS))))
            elif r < 0.22:
                suffix.append(("activate",))
            elif r < 0.3:
                suffix.append((rng.choice(["allowed", "events"]),))
            elif scn.bind_model and r < 0.65:
                suffix.append(("send", rng.choice(evs), "modelbound"))   # through the trigger bound onto the (copied) model
            else:
                suffix.append(("send", rng.choice(evs)))
        cs = copy.deepcopy(w.members[src].scn)
        cs.name = f"{name}-m{dst}"
        cs.ops = list(src_ops[:k]) + [("reconstruct",)] + suffix
        w.members.append(W.Member(fam=0, scn=cs))
        w.clones.append((src, dst, rng.choice(["deepcopy", "pickle"]), k))
    # nested sends that fall into the suffixes (what distinguishes rtc on/off after the clone)
    actions = [c for c in scn.cbs if c.group not in ("cond", "unless", "validators") and c.style not in ("attr", "evref")]
    if actions and rng.random() < 0.6:
        busy = {(a[0], a[1]) for a in base.acts if a[1] == a[2]}
        for _ in range(rng.randint(1, 3)):
            c = rng.choice(actions)
            tid = rng.randint(max(0, points[0] - 1), points[0] + 7)
            same_phase = {x.id for x in scn.cbs if x.group == c.group}
            if any((x, tid) in busy for x in same_phase):
                continue
            busy.add((c.id, tid))
            base.acts.insert(0, (c.id, tid, tid, rng.choice(eng.RET_TOKS), None, [rng.choice(evs)]))
    if rng.random() < 0.25:
        # another class with the same module and __name__ (a re-declared / factory-made class) exists in the
        # process: a copy must still be an instance of *its* class. (pickle refuses such classes by itself.)
        twin = gen.gen_scenario(rng, P, f"{name}-twin")
        twin.listeners_ctor = sorted({c.provider for c in twin.cbs if c.provider.startswith("L")})
        w.families.append(W.Family(scn=twin, cls_name=w.families[0].cls_name))
        tm = W.member_variant(rng, P, twin, f"{name}-m{len(w.members)}")
        tm.ops = tm.ops[:2]
        w.members.append(W.Member(fam=1, scn=tm))
        w.clones = [(a, b, "deepcopy", k) for (a, b, _m, k) in w.clones]
        w.twin_member = len(w.members) - 1
    if scn.listener_kind in ("hooks", "shared", "singleton") and any(c[2] == "pickle" for c in w.clones):
        # plain functions stored as instance attributes are not picklable (not a property of the library)
        w.clones = [(a, b, "deepcopy", k) for (a, b, _m, k) in w.clones]
    # behaviour tables must agree on the common prefix: all members share the original's table
    for (_s, d, _m, _k) in w.clones:
        w.members[d].scn.acts = copy.deepcopy(base.acts)
    # merge: the source runs its first k ops, then the clone is taken, then suffixes interleave
    order = []
    executed = {0: 0}
    for ci, (src, dst, mech, k) in enumerate(w.clones):
        if src == 0:
            while executed[0] < k:
                order.append(0)
                executed[0] += 1
                # earlier clones may interleave their suffix here
                for d in list(executed):
                    if d != 0 and executed[d] < len(w.members[d].scn.ops) and rng.random() < 0.4:
                        order.append(d)
                        executed[d] += 1
        order.append(-(ci + 1))
        executed[dst] = k + 1
    rest = []
    for d, n in executed.items():
        rest += [d] * (len(w.members[d].scn.ops) - n)
    rng.shuffle(rest)
    w.order = order + rest
    tw = getattr(w, "twin_member", None)
    if tw is not None:      # the twin is defined (and used) right after the original class, before any clone
        w.order = [0] + [tw] * len(w.members[tw].scn.ops) + w.order[1:] if w.order and w.order[0] == 0 else \
            [tw] * len(w.members[tw].scn.ops) + w.order
    return w


def expected(w):
    """Model observation per member (clones: the part after the common prefix)."""
    lines = []
    for m in w.members:
        lines += eng.model_lines(m.scn)
    out = run_driver(lines)
    return [eng.model_obs(m.scn, out.get(m.scn.name, ["<no model output>"])) for m in w.members]


def solo_reference(w, dst):
    """A fresh machine run through the clone's operations with a no-op where the clone was taken."""
    m = w.members[dst]
    s = copy.deepcopy(m.scn)
    s.ops = [("noop",) if o[0] == "reconstruct" else o for o in s.ops]
    s.name = m.scn.name + "-solo"
    s.driver = "loop" if w.loop else ("facade" if s.is_async() else "sync")
    lines, _ = eng.run_impl(s)
    return eng.canon(lines)


def after_prefix(lines, k):
    """the observation from the R line of operation k on (k = index of the clone operation)"""
    for i, l in enumerate(lines):
        p = l.split(" ")
        if p[0] in ("R", "A", "V") and int(p[1]) == k:
            return lines[i:]
    return ["<operation %d not reached>" % k]


def before_prefix(lines, k):
    out = []
    for l in lines:
        p = l.split(" ")
        if p[0] in ("R", "A", "V") and int(p[1]) == k:
            break
        out.append(l)
    return out


def check_world(w):
    W.normalize_world(w)
    obs = W.run_world(w)
    models = expected(w)
    dsts = {d: (s, mech, k) for (s, d, mech, k) in w.clones}
    fails = []
    for mi, m in enumerate(w.members):
        a = eng.canon(obs[mi])
        if a and a[0].startswith("DEFERR"):
            return [], obs, models
        if mi in dsts:
            k = dsts[mi][2]
            c = after_prefix(models[mi], k)
            x = [l for l in a if l.startswith("X ")]
            a = [l for l in a if not l.startswith("X ")]
            if x:
                fails.append((mi, "spec", f"clone {mi} ({dsts[mi][1]}): {x[0]}"))
                continue
            d = first_diff(a, c)
            if d is None:
                continue
            ref = after_prefix(solo_reference(w, mi), k)
            if first_diff(ref, c) is None:
                fails.append((mi, "spec", f"clone {mi} ({dsts[mi][1]} of member {dsts[mi][0]} before op {k}) does not "
                                          f"respond as the original would: line {d[0]}: clone `{d[1]}` original `{d[2]}`"))
            else:
                d2 = first_diff(ref, c)
                fails.append((mi, "corr", f"member {mi}: a machine run through the same operations differs from the "
                                          f"model: line {d2[0]}: impl `{d2[1]}` model `{d2[2]}`"))
        else:
            x = [l for l in a if l.startswith("X ")]
            a = [l for l in a if not l.startswith("X ")]
            if x:
                fails.append((mi, "spec", f"original {mi}: {x[0]}"))
                continue
            d = first_diff(a, models[mi])
            if d is None:
                continue
            solo = eng.canon(W.run_world(W.World(families=w.families, members=w.members, order=[x for x in w.order if x == mi],
                                                 loop=w.loop), only=[mi])[mi])
            if first_diff(solo, models[mi]) is None:
                fails.append((mi, "spec", f"original {mi} was affected by its clones: line {d[0]}: with clones `{d[1]}` "
                                          f"alone `{d[2]}`"))
            else:
                d2 = first_diff(solo, models[mi])
                fails.append((mi, "corr", f"member {mi} alone differs from the model: line {d2[0]}: impl `{d2[1]}` "
                                          f"model `{d2[2]}`"))
    return fails, obs, models


def nontrivial(w, obs):
    for (src, dst, mech, k) in w.clones:
        m = w.members[dst]
        pre = obs.get(src, [])
        took = any(l.startswith("T ") for l in pre)
        suffix_src = w.members[src].scn.ops[k:]
        suffix_dst = m.scn.ops[k + 1:]
        if (took or m.scn.is_async()) and suffix_src != suffix_dst and suffix_dst:
            return True
    return False


def describe(w, obs, models, fails):
    out = ["# C17 replay: original and clones driven with interleaved suffixes; each clone must respond as the",
           "# original would (the model of the original run through prefix ++ suffix), the original as if never cloned",
           "# why: " + " | ".join(x[2] for x in fails),
           f"# loop={w.loop} order={w.order} clones(src,dst,mechanism)={w.clones}"]
    f = w.families[0]
    out.append(f"## class: async={f.scn.is_async()} state_field={f.scn.state_field}")
    out += ["   " + l for l in eng.model_lines(f.scn)[2:] if l.startswith(("state", "trans"))]
    out += [f"   cb {c.id} {c.group} {c.style} {c.provider} {c.name} sig={c.sig}{list(c.named)} coro={int(c.coro)}"
            for c in f.scn.cbs]
    for mi, m in enumerate(w.members):
        out.append(f"## member {mi}: rtc={m.scn.rtc} allow={m.scn.allow} start={m.scn.start} cur0={m.scn.cur0} ops={m.scn.ops}")
        out.append("### observed")
        out += eng.canon(obs.get(mi, []))
        out.append("### model (whole history of this member; for a clone compare from the clone operation on)")
        out += models[mi]
    out += ["## world json", W.world_to_json(w)]
    return "\n".join(out) + "\n"


def shrink(w, mi, kind):
    def bad(c):
        try:
            f, _, _ = check_world(c)
        except Exception:
            return False
        return any(x[0] == mi and x[1] == kind for x in f)
    cur = w
    changed = True
    while changed:
        changed = False
        for k in range(len(cur.members)):
            ops = cur.members[k].scn.ops
            if not ops or ops[-1][0] == "reconstruct" or len(ops) <= 1:
                continue
            if any(s == k for (s, d, _, _) in cur.clones) and len(ops) <= max(
                    kk for (s, d, _, kk) in cur.clones if s == k):
                continue
            if any(d == k for (s, d, _, _) in cur.clones) and len(ops) <= 1 + max(
                    kk for (s, d, _, kk) in cur.clones if d == k):
                continue
            c = copy.deepcopy(cur)
            c.members[k].scn.ops = ops[:-1]
            pos = max(i for i, x in enumerate(c.order) if x == k)
            del c.order[pos]
            if bad(c):
                cur, changed = c, True
                break
    return cur


def make_world(seed, i):
    rng = random.Random(f"{seed}:C17:{i}")
    P = PROFILE_ASYNC if rng.random() < 0.4 else PROFILE
    return gen_world(rng, P, f"C17-{seed}-{i}")


def _screen(args):
    """thorough tier, worker process: does world `i` show any failure? (judged and reported by the parent)"""
    seed, i = args
    w = make_world(seed, i)
    try:
        fails, obs, models = check_world(w)
    except Exception:
        return (i, True, None, 0, 0)
    return (i, bool(fails), scn_hash(W.world_to_json(w)) if nontrivial(w, obs) else None, len(w.members), len(w.order))


def screen_parallel(ctx, stats, nontriv, n, budget):
    """split `n` world indices over worker processes; returns the indices that need a closer look"""
    import multiprocessing as mp
    import time
    jobs = int(os.environ.get("VERIF_JOBS", "0") or 0) or min(16, os.cpu_count() or 1)
    bad = []
    t0 = time.time()
    with mp.get_context("fork").Pool(jobs) as pool:
        for (i, failed, h, nm, nops) in pool.imap_unordered(_screen, [(ctx.seed, i) for i in range(n)], chunksize=20):
            stats["worlds"] += 1
            stats["members" if "members" in stats else "clones"] += nm
            if "ops" in stats:
                stats["ops"] += nops
            if h:
                nontriv.add(h)
            if failed:
                bad.append(i)
            if time.time() - t0 > budget or len(bad) >= 6:
                pool.terminate()
                break
    ctx.coverage["workers"] = jobs
    return sorted(bad)


def clone_guard_expressions(ctx, n):
    """machines whose guards are boolean expressions over names provided by the machine, the model and listeners —
    some attached late — are deep-copied; original and copy, given the same values, must decide every event alike
    (direct statement of C17; D29 lived here)"""
    import random
    import warnings
    import expr_gen as G
    import expr_run as R
    from statemachine.exceptions import TransitionNotAllowed
    done = bad = 0
    i = 0
    while done < n and i < 30 * n:
        scn = G.gen_scenario(random.Random(f"{ctx.seed}:C17expr:{i}"), f"C17expr{i}", p_malformed=0.0, allow_async=False)
        i += 1
        if not scn.get("late") and i % 3:
            continue
        lay = R.Layout(scn)
        with warnings.catch_warnings():
            warnings.simplefilter("ignore")
            try:
                sm, objs, values = R.build_machine(scn, lay)
            except Exception:
                continue
            memo = {}
            try:
                clone = copy.deepcopy(sm, memo)
            except Exception as e:
                rp = ctx.write_replay(f"clone_expr_{i}.json", "# deepcopy failed: " + repr(e) + "\n" + G.dump(scn) + "\n")
                ctx.violation(rp, f"deepcopy of a machine with guard expressions failed: {type(e).__name__}")
                bad += 1
                continue
            objs2 = {p: (clone if p == "machine" else memo.get(id(o), o)) for p, o in objs.items()}
            objs2["machine"] = clone
            done += 1
            for k, rho in enumerate(scn["rounds"]):
                outs = []
                for m, ob in ((sm, objs), (clone, objs2)):
                    R.set_values(lay, ob, values, rho)
                    try:
                        m.send("go")
                        out = "fired"
                        m.send("back")
                    except TransitionNotAllowed:
                        out = "notfired"
                    except Exception as e:  # noqa: BLE001
                        out = "raised:" + type(e).__name__
                    outs.append(out)
                if outs[0] != outs[1] and bad < 3:
                    bad += 1
                    rp = ctx.write_replay(f"clone_expr_{i}.json",
                                          f"# C17: original {outs[0]}, deep copy {outs[1]} on event {k} (rho={rho})\n" + G.dump(scn) + "\n")
                    ctx.violation(rp, f"guard expressions: original {outs[0]}, copy {outs[1]} (late listeners {scn.get('late')})")
                    break
    ctx.coverage["clone_guard_expression_machines"] = done


def probe_d39():
    """a convention-named callback that the machine gives itself *after* its constructor has resolved the callbacks
    (an instance attribute assigned after `super().__init__()`): the original never calls it, its copy does"""
    import copy
    import warnings
    from statemachine import State, StateMachine
    with warnings.catch_warnings():
        warnings.simplefilter("ignore")

        class M(StateMachine):
            a = State(initial=True)
            b = State()
            go = a.to(b)

            def __init__(self):
                super().__init__()
                self.log = []
                self.on_enter_b = self._entered

            def _entered(self):
                self.log.append("entered b")
        m = M()
        c = copy.deepcopy(m)
        m.go()
        c.go()
    return m.log != c.log, f"original's callback log {m.log}, copy's {c.log}"


def probe_d39b():
    """the triggers bound onto the model with `bind_events_to(model)` *after* construction become, for the copy, one
    more provider of every callback that is named like an event (`after="advance"`): the copy sends it twice"""
    import copy
    import warnings
    from statemachine import State, StateMachine
    with warnings.catch_warnings():
        warnings.simplefilter("ignore")

        class M(StateMachine):
            a = State(initial=True)
            b = State()
            c = State()
            go = a.to(b, after="advance") | c.to(a)
            advance = b.to(c) | c.to(a)

        class Mdl:
            pass
        m = Mdl()
        sm = M(m)
        sm.bind_events_to(m)
        cl = copy.deepcopy(sm)
        sm.go()
        try:
            cl.go()
            got = cl.current_state.id
        except Exception as e:  # noqa: BLE001
            got = type(e).__name__
    return sm.current_state.id != got, f"original ends in {sm.current_state.id!r}, its copy in {got!r}"


def probe_d40():
    """a model that owns its machine and provides a guard as an instance attribute: copying the model fails (the
    machine is rebuilt over the half-built copy of the model)"""
    import copy
    import warnings
    from statemachine import State, StateMachine
    with warnings.catch_warnings():
        warnings.simplefilter("ignore")

        class M(StateMachine):
            a = State(initial=True)
            b = State()
            go = a.to(b, cond="ready")

        class Owner:
            def __init__(self):
                self.ready = True
                self.state = None
                self.sm = M(self)
        o = Owner()
        try:
            o2 = copy.deepcopy(o)
            o2.sm.go()
            return o2.state != "b", f"copy's state {o2.state}"
        except Exception as e:
            return True, f"copy.deepcopy(owner) raised {type(e).__name__}: {str(e)[:90]}"


class _OwnerBase:
    """a model that owns its machine (what `MachineMixin` does); module level so that pickle finds the classes"""
    def __init__(self, bind):
        self.trail = []
        self._init_state()
        self.sm = _OwnedMachine(self, state_field="state")
        if bind:
            import warnings
            with warnings.catch_warnings():
                warnings.simplefilter("ignore")
                self.sm.bind_events_to(self)

    def _init_state(self):
        self.state = None


class _OwnerClassDefault(_OwnerBase):
    state = None          # class-level default: the half-built copy answers None instead of raising

    def _init_state(self):
        pass


class _OwnerSlotsLike(_OwnerBase):
    def _init_state(self):
        self.__dict__["state"] = None


def _owned_machine():
    import warnings
    from statemachine import State, StateMachine
    with warnings.catch_warnings():
        warnings.simplefilter("ignore")

        class _OwnedMachine(StateMachine):
            draft = State(initial=True)
            paid = State()
            done = State(final=True)
            pay = draft.to(paid)
            ship = paid.to(done)

            def on_enter_state(self, state):
                self.model.trail.append(f"enter {state.id}")
    return _OwnedMachine


_OwnedMachine = None


class _Holder:
    """some other object that refers to an owner model (a copy may also reach the owner through it)"""
    def __init__(self, owner):
        self.owner = owner


def probe_model_rooted_copies(seed, n):
    """Directed family: a model that owns its machine is copied (deepcopy or a pickle round trip), starting at the model
    or at an object that holds it, after a random prefix of events. The copy must be in the original's state, must not
    have run anything during the copy (no second `enter` of the initial state: D30), and must go on like the
    original."""
    import copy
    import pickle
    import random
    import sys
    global _OwnedMachine
    if _OwnedMachine is None:
        _OwnedMachine = _owned_machine()
        _OwnedMachine.__qualname__ = "_OwnedMachine"
        mod = sys.modules[__name__]
        setattr(mod, "_OwnedMachine", _OwnedMachine)
        _OwnedMachine.__module__ = __name__
    fails, cases = [], 0
    for i in range(n):
        rng = random.Random(f"{seed}:rooted:{i}")
        cls = rng.choice([_OwnerBase, _OwnerClassDefault, _OwnerSlotsLike])
        bind = rng.random() < 0.5
        prefix = rng.choice([[], ["pay"], ["pay", "ship"]])
        how = rng.choice(["deepcopy", "pickle"])
        via_holder = rng.random() < 0.4
        what = f"{cls.__name__} bind={bind} prefix={prefix} {how} via={'holder' if via_holder else 'owner'}"
        cases += 1
        try:
            o = cls(bind)
            for e in prefix:
                o.sm.send(e)
            root = _Holder(o) if via_holder else o
            c = copy.deepcopy(root) if how == "deepcopy" else pickle.loads(pickle.dumps(root))
            c = c.owner if via_holder else c
            if c.state != o.state or c.sm.current_state.id != o.sm.current_state.id or c.trail != o.trail:
                fails.append(f"{what}: original state={o.state} trail={o.trail}; copy state={c.state} "
                             f"machine={c.sm.current_state.id} trail={c.trail}")
                continue
            if c.sm.model is not c or c.sm is o.sm:
                fails.append(f"{what}: the copy's machine does not belong to the copy")
                continue
            nxt = {"draft": "pay", "paid": "ship"}.get(o.state)
            if nxt:
                o.sm.send(nxt)
                c.sm.send(nxt)
                if c.state != o.state or c.trail != o.trail:
                    fails.append(f"{what}: after {nxt}: original {o.state} {o.trail}; copy {c.state} {c.trail}")
        except Exception as e:
            fails.append(f"{what}: {type(e).__name__}: {e}")
    return cases, fails


class _KeyedMachineBase:
    pass


def _keyed_machine():
    import warnings
    from statemachine import State, StateMachine
    with warnings.catch_warnings():
        warnings.simplefilter("ignore")

        class _KeyedMachine(StateMachine):
            """a machine that compares by the key of the record it tracks (value semantics)"""
            draft = State(initial=True)
            paid = State()
            shipped = State(final=True)
            pay = draft.to(paid)
            ship = paid.to(shipped)
            undo = paid.to(draft)

            def __init__(self, key, **kw):
                self.key = key
                super().__init__(**kw)

            def __eq__(self, other):
                return isinstance(other, _KeyedMachine) and other.key == self.key

            def __hash__(self):
                return hash(self.key)
    return _KeyedMachine


_KeyedMachine = None


def probe_equal_machines(seed, n):
    """Directed family: machines with value-based `__eq__` / `__hash__` (two machines tracking the same record are
    equal). A copy is kept alongside its original and the two are driven apart: for each of them exactly the state
    the *model* stores is active — `sm.<state>.is_active`, `sm.current_state.is_active` — whatever the other one does."""
    import copy
    import pickle
    import random
    import sys
    global _KeyedMachine
    if _KeyedMachine is None:
        _KeyedMachine = _keyed_machine()
        _KeyedMachine.__qualname__ = "_KeyedMachine"
        _KeyedMachine.__module__ = __name__
        setattr(sys.modules[__name__], "_KeyedMachine", _KeyedMachine)
    fails, cases = [], 0

    def view(sm):
        return dict(state=sm.current_state.id, active=[s.id for s in sm.states if getattr(sm, s.id).is_active],
                    cur_active=sm.current_state.is_active)
    for i in range(n):
        rng = random.Random(f"{seed}:eqmachines:{i}")
        how = rng.choice(["deepcopy", "pickle", "copy"])
        pre = rng.choice([[], ["pay"], ["pay", "undo"]])
        cases += 1
        what = f"{how} after {pre}"
        try:
            o = _KeyedMachine(key=rng.randint(1, 3))
            view(o)
            for e in pre:
                o.send(e)
            view(o)
            c = (copy.deepcopy(o) if how == "deepcopy" else pickle.loads(pickle.dumps(o)) if how == "pickle"
                 else copy.copy(o))
            if how == "copy":
                continue_ok = c.model is o.model   # a shallow copy shares the model: not a clone in C17's sense
                if continue_ok:
                    continue
            steps_o = rng.choice([["pay"], ["pay", "ship"], []]) if o.current_state.id == "draft" else rng.choice([["ship"], ["undo"], []])
            steps_c = rng.choice([["pay"], ["pay", "ship"], []]) if c.current_state.id == "draft" else rng.choice([["ship"], ["undo"], []])
            for k in range(max(len(steps_o), len(steps_c))):
                if k < len(steps_o):
                    o.send(steps_o[k])
                if k < len(steps_c):
                    c.send(steps_c[k])
                for nm, m in (("original", o), ("copy", c)):
                    v = view(m)
                    if v["active"] != [v["state"]] or not v["cur_active"]:
                        fails.append(f"{what}, original did {steps_o[:k + 1]}, copy did {steps_c[:k + 1]}: the {nm} is in "
                                     f"{v['state']} but its states say {v}")
                        break
        except Exception as e:
            fails.append(f"{what}: {type(e).__name__}: {e}")
    return cases, fails


def run_findings(ctx):
    known = {k.get("exclusion"): k for k in known_findings("C17") if k.get("status") == "known"}
    for key, probe, title in (("callback-attribute-assigned-after-construction", probe_d39,
                               "an attribute callback assigned after construction is called by the copy only"),
                              ("triggers-bound-onto-the-model-then-copied", probe_d39b,
                               "triggers bound onto the model make the copy send a chained event twice"),
                              ("owner-model-with-instance-attribute-guard", probe_d40,
                               "a model owning its machine and providing a guard as an instance attribute cannot be copied")):
        bad, what = probe()
        if bad:
            if key in known:
                ctx.known_printed.append(known[key]["what"] + " [" + what + "]")
            else:
                ctx.violation(ctx.write_replay(key + ".txt", title + ": " + what + "\n"), title)


def run(ctx):
    lean_obligations(ctx)
    run_findings(ctx)
    ncases, rf = safe_probe(probe_model_rooted_copies, ctx.seed, 150 if ctx.tier == "quick" else 2000, pair=True)
    ctx.coverage["model_rooted_copies"] = ncases
    if rf:
        ctx.violation(ctx.write_replay("model_rooted_copy.txt", "\n".join(rf[:10]) + "\n"), rf[0][:160])
    ncases, ef = safe_probe(probe_equal_machines, ctx.seed, 120 if ctx.tier == "quick" else 2000, pair=True)
    ctx.coverage["equal_machines_cases"] = ncases
    if ef:
        ctx.violation(ctx.write_replay("equal_machines.txt", "\n".join(ef[:10]) + "\n"), ef[0][:200])
    clone_guard_expressions(ctx, 150 if ctx.tier == "quick" else 3000)
    ctx.coverage["rule"] = RULE
    ctx.assumptions += [
        "clones are taken between operations (machine at rest), never from inside a callback",
        "order of callbacks inside one group is unconstrained (C02): per-group entries and result lists are compared as "
        "sorted lists, so a clone that orders a late listener's callbacks differently inside a group is not reported",
        "coroutine methods on listeners are generated only together with the machine's own coroutine callbacks or on "
        "constructor listeners (late async listeners on a sync machine are finding D12 of C12)",
    ]
    if ctx.replay:
        txt = open(ctx.replay).read()
        js = txt.split("## world json\n", 1)[1].strip() if "## world json" in txt else txt
        w = W.world_from_json(js)
        fails, obs, models = check_world(w)
        for mi, kind, what in fails[:1]:
            ctx.violation(os.path.relpath(os.path.abspath(ctx.replay), VERIF), what, no_input=(kind == "corr"))
        ctx.coverage.update(evaluations=1, distinct_nontrivial=0)
        return
    cdir = os.path.join(VERIF, "corpus", "C17")
    ncorpus = 0
    for fn in sorted(os.listdir(cdir)) if os.path.isdir(cdir) else []:
        if fn.endswith(".py"):      # regression inputs of fixed findings: plain programs with asserts
            import runpy
            import warnings
            ncorpus += 1
            try:
                with warnings.catch_warnings():
                    warnings.simplefilter("ignore")
                    runpy.run_path(os.path.join(cdir, fn))
            except Exception as e:
                ctx.violation(os.path.join("corpus", "C17", fn), f"regression input fails: {type(e).__name__}: {e}")
        if fn.endswith(".json"):
            ncorpus += 1
            w = W.world_from_json(open(os.path.join(cdir, fn)).read())
            fails, obs, models = check_world(w)
            if fails:
                ctx.violation(os.path.join("corpus", "C17", fn), fails[0][2], no_input=(fails[0][1] == "corr"))
    target = 330 if ctx.tier == "quick" else 9000
    stats = dict(worlds=0, clones=0, spec=0, corr=0)
    dist = {}
    nontriv = set()
    samples = []
    i = 0
    todo = None
    if ctx.tier == "thorough":
        todo = screen_parallel(ctx, stats, nontriv, target * 6, max(30.0, ctx.left() - 90))
        target = stats["worlds"] + len(todo)
    while stats["worlds"] < target and ctx.left() > 8 and len(ctx.violations) < 3:
        if todo is not None:
            if not todo:
                break
            i = todo.pop(0)
        w = make_world(ctx.seed, i)
        i += 1
        try:
            fails, obs, models = check_world(w)
        except Exception as e:
            import traceback
            rp = ctx.write_replay(f"c17_{ctx.seed}_{i}.crash.txt", traceback.format_exc() + "\n" + W.world_to_json(w))
            ctx.violation(rp, f"harness error {type(e).__name__}", no_input=True)
            continue
        stats["worlds"] += 1
        stats["clones"] += len(w.clones)
        for (s, d, mech, _k) in w.clones:
            dist[mech] = dist.get(mech, 0) + 1
            if s != 0:
                dist["clone_of_clone"] = dist.get("clone_of_clone", 0) + 1
        m0 = w.members[0].scn
        for key, v in (("loop", w.loop), ("async", m0.is_async()), ("rtc_off", not m0.rtc), ("allow", m0.allow),
                       ("start_value", m0.start is not None), ("stored_state", m0.cur0 is not None),
                       ("state_field", m0.state_field != "state"), ("listeners", bool(m0.listeners_ctor)),
                       ("clone_before_first_transition", any(
                           not any(l.startswith("T ") for l in before_prefix(models[d], k))
                           for (_s, d, _m, k) in w.clones))):
            if v:
                dist[key] = dist.get(key, 0) + 1
        if nontrivial(w, obs):
            nontriv.add(scn_hash(W.world_to_json(w)))
            if len(samples) < 2:
                samples.append(dict(order=w.order, clones=w.clones, ops=[m.scn.ops for m in w.members],
                                    clone_observation=eng.canon(obs[w.clones[0][1]])[:10]))
        if fails:
            mi, kind, what = fails[0]
            stats[kind] += 1
            small = shrink(w, mi, kind)
            f2, obs2, models2 = check_world(small)
            f2 = [x for x in f2 if x[0] == mi] or fails
            rp = ctx.write_replay(f"c17_{ctx.seed}_{i}.replay.txt", describe(small, obs2, models2, f2))
            ctx.violation(rp, f2[0][2], no_input=(kind == "corr"))
    ctx.coverage.update(
        evaluations=stats["worlds"], distinct_nontrivial=len(nontriv), clones=stats["clones"],
        traces_validated_against_impl=stats["worlds"], spec_failures=stats["spec"],
        correspondence_failures=stats["corr"], corpus_replayed=ncorpus, samples=samples,
        distribution=dict(sorted(dist.items())), exhaustive=False)
