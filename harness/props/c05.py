"""C05 — async callbacks behave exactly like their synchronous counterparts."""
import copy
import warnings

import eng
import gen
from engcorr import RANK, c01_monitor, c02_monitor, c14_monitor, engine_check, split_ops
from framework import known_findings, lean_obligations, safe_probe

BASE = dict(
    max_states=5, extra_trans=(1, 7), p_multi_event=0.35, p_internal=0.15,
    p_group=dict(validators=0.25, cond=0.4, unless=0.25, before=0.4, on=0.4, after=0.4, enter=0.45, exit=0.4),
    max_per_group=3, p_conv=0.3, p_nested=0.35, max_nested_rows=3, p_raise=0.12, p_validator_raise=0.15,
    p_unknown_event=0.08, n_ops=(3, 10), p_rtc_off=0.0, p_allow=0.35, max_yields=3,
)
PROFILES = {
    "all": gen.Profile(**{**BASE, "p_coro": 1.0, "drivers": ("facade", "loop")}),
    "mixed": gen.Profile(**{**BASE, "p_coro": 0.5, "drivers": ("facade", "loop")}),
    "one": gen.Profile(**{**BASE, "p_coro": 0.08, "drivers": ("facade", "loop")}),
}


def mutate(rng, s):
    # explicit activation right after construction so that the sync twin lines up op for op
    # (the deferred-activation ordering difference without it is the recorded finding D19)
    s.ops = [s.ops[0], ("activate",)] + list(s.ops[1:])
    if rng.random() < 0.12:
        # the machine is replaced by a deep copy of itself before it was activated (an async machine must still
        # activate, exactly once), or at some later point
        s.ops.insert(1 if rng.random() < 0.6 else rng.randint(2, len(s.ops)), ("reconstruct", "copy"))
    if not s.is_async() and s.cbs:
        real = [c for c in s.cbs if c.style not in ("attr", "evref")]
        if not real:
            s.rtc = True
            return
        rng.choice([c for c in real if not c.alias_of and c.id not in {x.alias_of for x in s.cbs}] or real).coro = True
        c = [c for c in real if c.coro][0]
        c.yields = rng.randint(0, 3)
        # (a callback that yields must not share a group with one that raises: `gather` would leave it running when
        # the group fails, and which siblings of a failing callback ran is unconstrained — DESIGN 3.2)
        sib = gen.sibling_map(s).get(c.id, ())
        if any(a[4] is not None for a in s.acts if a[0] in sib and a[0] != c.id):
            c.yields = 0
        # the machine's only coroutine callback may sit behind a signature-preserving decorator
        c.wrap = rng.choice(["", "", "wraps", "sig"])
        if s.driver == "sync":
            s.driver = rng.choice(["facade", "loop"])
    s.rtc = True


def twin_of(s):
    t = copy.deepcopy(s)
    t.name = s.name + "-sync"
    for c in t.cbs:
        c.coro = False
        c.yields = 0
    t.driver = "sync"
    return t


def strip_ctor(a):
    return [l for l in a if not (l.startswith("R 0 ") or l.startswith("R 1 "))]


def phase_complete(s, rt):
    """on the RAW implementation trace: while a callback of phase rank r is still running (begun,
    not ended) no callback of a later phase of the same trigger begins; nothing is left un-awaited"""
    fails = []
    open_cb = {}
    for l in rt.lines:
        p = l.split(" ")
        if p[0] == "B":
            r = RANK[p[2]]
            for (tid, ph, cb), r0 in open_cb.items():
                if tid == p[1] and r0 < r:
                    fails.append(f"C05: {l} began while {ph} callback {cb} of the same trigger had not finished")
                    return fails
                if tid != p[1]:
                    fails.append(f"C05: {l} began while callback {cb} of trigger {tid} had not finished")
                    return fails
            open_cb[(p[1], p[2], p[3])] = r
        elif p[0] == "E":
            open_cb.pop((p[1], p[2], p[3]), None)
        elif p[0] == "R":
            open_cb = {}   # a raising callback never ends; the op is over
    if getattr(rt, "warnings", None):
        fails.append(f"C05: coroutine never awaited: {rt.warnings[0]}")
    return fails


def post(s, a, rt):
    fails = phase_complete(s, rt)
    if len(s.ops) < 2 or s.ops[1] != ("activate",):
        return fails
    if any(l.startswith("R 1 err") or l.startswith("R 0 err") for l in a):
        return fails   # a failing initial activation surfaces in the constructor for the sync twin
    t = twin_of(s)
    traw, _ = eng.run_impl(t)
    ta = eng.canon(traw)
    if strip_ctor(a) != strip_ctor(ta):
        from common import first_diff
        d = first_diff(strip_ctor(a), strip_ctor(ta))
        fails.append(f"C05: async machine and its synchronous twin differ: {d}")
    elif not any(l.startswith("R ") and " err " in l for l in a):
        # the callbacks of one group are *started* in the same order as the plain-function machine calls them
        # (coroutines are scheduled in executor order; how they interleave after their first await is free)
        def begins(lines):
            return [tuple(l.split(" ")[1:4]) for l in lines if l.startswith("B ")]
        if begins(rt.lines) != begins(traw):
            from common import first_diff
            d = first_diff([" ".join(x) for x in begins(rt.lines)], [" ".join(x) for x in begins(traw)])
            fails.append(f"C05: callbacks start in another order than in the plain-function machine: {d}")
    return fails


def monitor(s, a, rt):
    return c01_monitor(s, a, rt) + c02_monitor(s, a, rt) + c14_monitor(s, a, rt)


def nontrivial(s, a, rt):
    """>=1 coroutine callback ran and yielded >=1 time, in a machine that also has >=1 plain callback
    or >=2 coroutine callbacks in different phases"""
    ran = {int(l.split(" ")[3]) for l in a if l.startswith("B ")}
    coro = [c for c in s.cbs if c.coro and c.id in ran]
    if not any(c.yields > 0 for c in coro):
        return False
    plain = [c for c in s.cbs if not c.coro and c.id in ran]
    return bool(plain) or len({c.group for c in coro}) >= 2


# ---- recorded findings (probes) -------------------------------------------------------------

def probe_d19():
    """deferred activation: initial enter callback sends e2, then the user sends e1 with no explicit
    activation — the sync machine runs e2 before e1, the async one e1 before e2"""
    out = {}
    for coro in (False, True):
        s = eng.Scn(name=f"d19-{int(coro)}", driver="facade" if coro else "sync")
        s.states = [eng.St(val=1, initial=True), eng.St(val=2), eng.St(val=3)]
        s.trans = [eng.Tr(0, 1, [1]), eng.Tr(0, 2, [2]), eng.Tr(1, 0, [2]), eng.Tr(2, 0, [1])]
        s.cbs = [eng.Cb(1, "enter", "name", "machine", "cb1", ("s", 0), coro=coro, sig="ed")]
        s.acts = [(1, 0, 0, 0, None, [2])]
        s.ops = [("construct",), ("send", 1)]
        lines, _ = eng.run_impl(s)
        out[coro] = [l for l in eng.canon(lines) if l.startswith("T ")]
    return out[False] != out[True], f"sync twin writes {out[False]}, async machine writes {out[True]}"


def expr_tail_twins(ctx):
    """Directed twin family: a boolean guard expression whose LAST operand is a coroutine guard (the
    position in which the library hands the coroutine back and awaits it; any other position is the
    recorded finding D10). Async machine (facade and in-loop) vs the same machine with plain functions,
    for every truth assignment, as `cond` and as `unless`. Returns (cases, failures)."""
    import asyncio
    from statemachine import State, StateMachine
    cases, fails = 0, []
    for expr in ("p and q", "p or q", "(p or r) and q", "p and r and q", "p or r or q", "not p and q", "q"):
        for kind in ("cond", "unless"):
            def make(is_async, vals, log):
                ns = {}
                a, b = State(initial=True), State()
                ns.update(a=a, b=b, go=a.to(b, **{kind: expr}) | a.to(a), back=b.to(a))
                for nm in ("p", "r"):
                    ns[nm] = (lambda nm: lambda self: (log.append(nm), vals[nm])[1])(nm)
                if is_async:
                    async def q(self):
                        log.append("q")
                        await asyncio.sleep(0)
                        return vals["q"]

                    async def on_enter_b(self):
                        log.append("enter_b")
                else:
                    def q(self):
                        log.append("q")
                        return vals["q"]

                    def on_enter_b(self):
                        log.append("enter_b")
                ns.update(q=q, on_enter_b=on_enter_b)
                with warnings.catch_warnings():
                    warnings.simplefilter("ignore")
                    return type(StateMachine)("ExprTail", (StateMachine,), ns)
            for pv in (0, 1):
                for rv in ("", "x"):
                    for qv in (None, [], [0], 2):
                        vals = dict(p=pv, r=rv, q=qv)
                        obs = {}
                        for mode in ("sync", "facade", "loop"):
                            log = []
                            cls = make(mode != "sync", vals, log)
                            try:
                                with warnings.catch_warnings(record=True) as w:
                                    warnings.simplefilter("always")
                                    if mode == "loop":
                                        async def drive():
                                            sm = cls()
                                            await sm.activate_initial_state()
                                            await sm.go()
                                            return sm.current_state.id
                                        st = asyncio.run(drive())
                                    else:
                                        sm = cls()
                                        sm.go()
                                        st = sm.current_state.id
                                    never = [x for x in w if "never awaited" in str(x.message)]
                                obs[mode] = (st, log, len(never))
                            except Exception as e:
                                obs[mode] = (f"{type(e).__name__}", log, 0)
                        cases += 1
                        want = eval(expr, {}, dict(vals))          # CPython is the reference
                        want_state = "b" if bool(want) == (kind == "cond") else "a"
                        for mode in ("sync", "facade", "loop"):
                            if obs[mode][0] != want_state or obs[mode][1] != obs["sync"][1] or obs[mode][2]:
                                fails.append(f"{kind}={expr!r} with {vals}: {mode} run ended in {obs[mode][0]} "
                                             f"(expected {want_state}), calls {obs[mode][1]} (plain twin {obs['sync'][1]}), "
                                             f"never-awaited warnings {obs[mode][2]}")
                                break
    return cases, fails


def probe_loop_continuity(seed, cases=12):
    """Directed family: coroutine callbacks that keep something bound to the event loop *between* events — a task
    started by one event and awaited by a later one, a future resolved by a later event, an `asyncio.Event`. The same
    machine is driven from synchronous code (no loop) and from inside a running loop; results, states and callback
    log must be the same (and be what the plain reading says)."""
    import asyncio
    import random
    import warnings
    from statemachine import State, StateMachine
    fails = []
    for i in range(cases):
        rng = random.Random(f"{seed}:loopcont:{i}")
        kind = ("task", "future", "event")[i % 3]
        gap = rng.randint(0, 3)           # unrelated events between the two
        yields = rng.randint(0, 3)

        def make():
            log = []
            with warnings.catch_warnings():
                warnings.simplefilter("ignore")

                class LC(StateMachine):
                    idle = State(initial=True)
                    busy = State()
                    done = State(final=True)
                    begin = idle.to(busy)
                    poke = busy.to.itself(internal=True)
                    finish = busy.to(done)

                    async def on_begin(self, name):
                        log.append("begin")
                        if kind == "task":
                            async def work():
                                for _ in range(yields):
                                    await asyncio.sleep(0)
                                return f"<{name}>"
                            self.pending = asyncio.ensure_future(work())
                        elif kind == "future":
                            self.pending = asyncio.get_running_loop().create_future()
                        else:
                            self.pending = asyncio.Event()
                        return "begun"

                    async def on_poke(self):
                        log.append("poke")
                        if kind == "future" and not self.pending.done():
                            self.pending.set_result("<poked>")
                        if kind == "event":
                            self.pending.set()
                        return "poked"

                    async def on_finish(self):
                        log.append("finish")
                        if kind == "event":
                            await asyncio.wait_for(self.pending.wait(), 5)
                            return "<set>"
                        return await asyncio.wait_for(self.pending, 5)
                return LC(), log

        script = [("begin", dict(name="a.txt"))] + [("poke", {})] * max(gap, 1 if kind != "task" else 0) + [("finish", {})]

        def sync_driver():
            sm, log = make()
            out = []
            for ev, kw in script:
                try:
                    out.append(sm.send(ev, **kw))
                except BaseException as e:
                    if isinstance(e, (KeyboardInterrupt, SystemExit)):
                        raise
                    out.append(f"raised {type(e).__name__}")
            return out, sm.current_state.id, log

        async def loop_driver():
            sm, log = make()
            await sm.activate_initial_state()
            out = []
            for ev, kw in script:
                try:
                    out.append(await sm.send(ev, **kw))
                except BaseException as e:
                    out.append(f"raised {type(e).__name__}")
            return out, sm.current_state.id, log
        with warnings.catch_warnings():
            warnings.simplefilter("ignore")
            a = sync_driver()
            b = asyncio.run(loop_driver())
        want_last = {"task": "<a.txt>", "future": "<poked>", "event": "<set>"}[kind]
        if a != b or a[1] != "done" or a[0][-1] != want_last:
            fails.append(f"{kind} kept between events (gap {gap}, {yields} suspensions): driven from sync code {a}, "
                         f"inside a loop {b}, expected to end in done with {want_last}")
    return fails


def run(ctx):
    lean_obligations(ctx)
    lc = safe_probe(probe_loop_continuity, ctx.seed, 12 if ctx.tier == "quick" else 120)
    ctx.coverage["loop_continuity_cases"] = 12 if ctx.tier == "quick" else 120
    if lc:
        ctx.violation(ctx.write_replay("loop_continuity.txt", "\n".join(lc[:10]) + "\n"), lc[0][:200])
    ctx.coverage["rule"] = ("every engine scenario (candidates, guards, validators, nested sends, failing callbacks, result "
                            "values) with each callback coroutine-or-not drawn per callback (all / ~half / one), coroutines "
                            "yielding 0-3 times, driven from sync code with no loop (facade) or awaited inside a running "
                            "loop; compared with the model AND with the same machine written with plain functions; "
                            "non-trivial = a coroutine callback that yielded ran in a machine with a plain callback or "
                            "coroutines in >=2 phases")
    tot = {}
    first = True
    for tag, prof in PROFILES.items():
        n = {"all": (280, 8000), "mixed": (400, 12000), "one": (220, 6000)}[tag]
        engine_check(ctx, prof, n[0], n[1], nontrivial, monitor=monitor, post=post, tag="C05" + tag, mutate=mutate)
        for k in ("evaluations", "distinct_nontrivial", "traces_validated_against_impl", "disagreements", "monitor_failures"):
            tot[k] = tot.get(k, 0) + ctx.coverage.get(k, 0)
        ctx.coverage["distribution_" + tag] = ctx.coverage.get("distribution")
    ctx.coverage.update(tot)
    ctx.coverage["twins_compared"] = tot["evaluations"]
    ncases, efails = expr_tail_twins(ctx)
    ctx.coverage["expr_tail_twins"] = ncases
    ctx.coverage["evaluations"] += ncases
    if efails:
        rp = ctx.write_replay("expr_tail_twin.txt", "\n".join(efails[:10]) + "\n")
        ctx.violation(rp, "coroutine guard as the last operand of a guard expression: " + efails[0])
    # recorded findings
    known = {k.get("exclusion"): k for k in known_findings("C05") if k.get("status") == "known"}
    differs, what = probe_d19()
    if differs:
        if "deferred-activation-order" in known:
            ctx.known_printed.append(known["deferred-activation-order"]["what"] + " [" + what + "]")
        else:
            rp = ctx.write_replay("d19_deferred_activation_order.txt", what + "\n")
            ctx.violation(rp, "async vs sync twin: order of the first event and events sent by the initial enter callbacks")
