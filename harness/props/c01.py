"""C01 — transition selection follows the declared machine."""
import gen
from engcorr import c01_monitor, engine_check, split_ops
from framework import lean_obligations

PROFILE = gen.Profile(
    max_states=6, extra_trans=(2, 10), p_multi_event=0.4, max_events=3,
    p_group=dict(validators=0.25, cond=0.6, unless=0.45, before=0.15, on=0.2, after=0.1, enter=0.15, exit=0.1),
    p_conv=0.1, p_nested=0.1, p_raise=0.05, p_validator_raise=0.5, p_unknown_event=0.2, n_ops=(4, 30),
    p_rtc_off=0.3, p_allow=0.4, p_set_allow=0.06,
)
PROFILE_ASYNC = gen.Profile(**{**PROFILE.__dict__, "p_coro": 0.5, "drivers": ("facade", "loop"), "p_rtc_off": 0.0})


def nontrivial(s, a, rt):
    """some send had >=2 candidates (>=2 guard/validator evaluations of different transitions) or a
    validator aborted or nothing qualified"""
    for entries, R in split_ops(a):
        tgts = {l.split("tgt=")[1] + l.split("src=")[1].split(" ")[0] + l.split(" ")[3]
                for l in entries if l.startswith("B ") and l.split(" ")[2] in ("cond", "validators")}
        if len(tgts) >= 2 or (len(R) > 3 and R[2] == "err"):
            return True
    return False


def run(ctx):
    lean_obligations(ctx)
    ctx.coverage["rule"] = ("seeded random machines (1-6 states, up to ~4 candidate transitions per (state,event), "
                            "multi-event/self/internal transitions, cond+unless lists with truthy/falsy values of many "
                            "types re-drawn per event, validators raising by plan, unknown and near-miss event names, "
                            "rtc x allow x sync/async); non-trivial = some send evaluated guards/validators of >=2 "
                            "callbacks or ended in an exception; distinct = hash of scenario text")
    engine_check(ctx, PROFILE, 900, 20000, nontrivial, monitor=c01_monitor, tag="C01s", share=0.62)
    cov1 = dict(ctx.coverage)
    engine_check(ctx, PROFILE_ASYNC, 300, 8000, nontrivial, monitor=c01_monitor, tag="C01a")
    for k in ("evaluations", "distinct_nontrivial", "traces_validated_against_impl", "disagreements", "monitor_failures"):
        ctx.coverage[k] = ctx.coverage.get(k, 0) + cov1.get(k, 0)
    ctx.coverage["distribution_sync"] = cov1.get("distribution")


_run_inner = run


def run(ctx):
    import engcorr
    _run_inner(ctx)
    # how many sends the C01 Spec monitor (Lean `choose` on the implementation's observation) actually judged
    ctx.coverage["c01_spec_monitor"] = dict(engcorr.C01_MON_STATS)
    if ctx.coverage.get("evaluations", 0) > 50 and not ctx.replay and engcorr.C01_MON_STATS["judged"] == 0:
        raise RuntimeError("the C01 Spec monitor judged nothing: it is vacuous")

