"""C02 — callback groups run in the documented order with the documented view of state."""
import gen
from engcorr import c02_monitor, engine_check, split_ops
from framework import lean_obligations

PROFILE = gen.Profile(
    max_states=5, extra_trans=(1, 7), p_multi_event=0.45, p_internal=0.25,
    p_group=dict(validators=0.4, cond=0.45, unless=0.3, before=0.5, on=0.5, after=0.5, enter=0.5, exit=0.5),
    max_per_group=3, p_conv=0.35, p_nested=0.2, p_raise=0.1, p_validator_raise=0.1, p_unknown_event=0.05,
    n_ops=(3, 10), p_rtc_off=0.2, p_allow=0.3, p_fresh=0.08,
)
PROFILE_ASYNC = gen.Profile(**{**PROFILE.__dict__, "p_coro": 0.5, "drivers": ("facade", "loop"), "p_rtc_off": 0.0})


def nontrivial(s, a, rt):
    """some executed transition has >=3 non-empty groups, or is internal / multi-event with an
    event-scoped callback present"""
    for entries, R in split_ops(a):
        if not any(l.startswith("T ") for l in entries):
            continue
        phases = {l.split(" ")[2] for l in entries if l.startswith("B ")}
        if len(phases) >= 3:
            return True
    return any(t.internal for t in s.trans) and any(c.style == "conv" and c.at[0] == "ev" for c in s.cbs)


def run(ctx):
    lean_obligations(ctx)
    ctx.coverage["rule"] = ("seeded random machines with sparsely populated groups (each group empty with prob ~1/2), 0-3 "
                            "callbacks per group in every attachment style (convention, by name, by callable, decorator) "
                            "and provider (machine, model, listeners), self/internal/multi-event transitions, callbacks "
                            "declaring random subsets of event/source/target/state, both engines; non-trivial = an "
                            "executed transition ran callbacks of >=3 groups (or internal + event-scoped callback)")
    from framework import run_py_corpus
    ctx.coverage["corpus_programs"] = run_py_corpus(ctx)
    engine_check(ctx, PROFILE, 800, 20000, nontrivial, monitor=c02_monitor, tag="C02s", mutate=gen.late_listeners, share=0.62)
    cov1 = dict(ctx.coverage)
    engine_check(ctx, PROFILE_ASYNC, 300, 8000, nontrivial, monitor=c02_monitor, tag="C02a", mutate=gen.late_listeners,
                 share=0.6)
    # names offered by several providers, listeners that provide *named* callbacks attached late (C12's generator)
    from props.c12 import mutate as providers_and_late
    cov_a = dict(ctx.coverage)
    # (no second instance in mid-history here: which late listeners it would get is not the library's choice)
    engine_check(ctx, gen.Profile(**{**PROFILE.__dict__, "p_fresh": 0.0}), 250, 5000, nontrivial, monitor=c02_monitor,
                 tag="C02l", mutate=providers_and_late)
    for k in ("evaluations", "distinct_nontrivial", "traces_validated_against_impl", "disagreements", "monitor_failures"):
        ctx.coverage[k] = ctx.coverage.get(k, 0) + cov_a.get(k, 0)
    ctx.coverage["distribution_late_named"] = ctx.coverage.get("distribution")
    ctx.coverage["distribution"] = cov_a.get("distribution")
    for k in ("evaluations", "distinct_nontrivial", "traces_validated_against_impl", "disagreements", "monitor_failures"):
        ctx.coverage[k] = ctx.coverage.get(k, 0) + cov1.get(k, 0)
    ctx.coverage["distribution_sync"] = cov1.get("distribution")
