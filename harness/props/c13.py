"""C13 — send(), event methods and bound events are one and the same entry point."""
import eng
import gen
from engcorr import c01_monitor, engine_check, split_ops
from framework import lean_obligations, safe_probe

PROFILE = gen.Profile(
    max_states=5, extra_trans=(1, 8), p_multi_event=0.45, max_events=4,
    p_group=dict(validators=0.1, cond=0.3, unless=0.2, before=0.2, on=0.3, after=0.2, enter=0.2, exit=0.2),
    p_conv=0.15, p_nested=0.1, p_raise=0.03, p_validator_raise=0.05, p_unknown_event=0.1, n_ops=(4, 14),
    p_rtc_off=0.25, p_allow=0.45, p_reconstruct=0.06,
)
PROFILE_ASYNC = gen.Profile(**{**PROFILE.__dict__, "p_coro": 0.5, "drivers": ("facade", "loop"), "p_rtc_off": 0.0})

STYLES = ["send", "method", "events", "allowed", "bound", "foreign"]
STYLES_MODEL = STYLES + ["modelbound", "modelbound"]     # the triggers bound onto the model (`bind_events_to(model)`)


def attr_names():
    from statemachine import StateMachine
    names = sorted(n for n in dir(StateMachine))
    names += ["s0", "s1", "s2", "model", "_graph", "_engine", "__class__", "__dict__", "__init__", "__repr__",
              "states", "states_map", "add_listener", "add_observer", "bind_events_to", "activate_initial_state",
              "current_state", "current_state_value", "allowed_events", "events", "send", "_callbacks",
              "_listeners", "name", "initial_state", "final_states", "TransitionNotAllowed", "", " ", "go back",
              "Go", "GO", "go ", "g o", "ünï", "0", "None"]
    return sorted(set(names))


ATTRS = None


def mutate(rng, s):
    global ATTRS
    if ATTRS is None:
        ATTRS = attr_names()
    ops = []
    k = 100
    s.bind_model = rng.random() < 0.35
    styles = STYLES_MODEL if s.bind_model else STYLES
    for op in s.ops:
        if op[0] == "send":
            r = rng.random()
            if r < 0.22:
                nm = rng.choice(ATTRS)
                have = [i for i, v in s.extra_events.items() if v == nm]
                if have:
                    ops.append(("send", have[0], "send"))
                else:
                    s.extra_events[k] = nm
                    ops.append(("send", k, "send"))
                    k += 1
            else:
                ops.append(("send", op[1], rng.choice(styles)))
            if rng.random() < 0.35:
                ops.append(("allowed",))
        else:
            ops.append(op)
    ops.insert(1, ("events",))
    ops.insert(1, ("allowed",))
    if rng.random() < 0.4:
        # the state changes behind the machine's back (the record is reloaded, another machine drives the same model):
        # allowed_events is asked before and after — it follows the model, like every other reader
        for _ in range(rng.randint(1, 2)):
            pos = rng.randint(2, len(ops))
            ops[pos:pos] = [("allowed",), ("write", rng.choice([st.val for st in s.states])), ("allowed",)]
    if s.bind_model:
        # (a second machine created over a model whose bound triggers still belong to the first one, and then
        # copied, drags the first machine into the copy through the model: DESIGN 11.6, not generated)
        ops = [("reconstruct", "copy") if o[0] == "reconstruct" else o for o in ops]
    s.ops = ops


def nontrivial(s, a, rt):
    """>=2 calling styles are mixed, or the event name is an attribute of the machine that is not an event"""
    styles = {op[2] for op in s.ops if op[0] == "send" and len(op) > 2}
    return len(styles) >= 2 or bool(s.extra_events)


def monitor(s, a, rt):
    """Spec: `allowed_events` has no duplicates and lists an event iff a transition leaving the
    current state carries it (computed from the scenario, independent of the model); an undeclared
    name is rejected like an unknown event and changes nothing."""
    import eng
    fails = list(c01_monitor(s, a, rt))
    cur = "-" if s.cur0 is None else eng.rp(eng.POOL[s.cur0])
    val2idx = {eng.rp(eng.POOL[st.val]): i for i, st in enumerate(s.states)}
    declared = {e for t in s.trans for e in t.events}
    for l in a:
        p = l.split(" ")
        if p[0] == "R" and len(p) > 2 and p[2] != "skipped":
            kv = dict(x.split("=", 1) for x in p if "=" in x)
            i = int(p[1])
            op = s.ops[i]
            if op[0] == "send" and op[1] >= 100 and s.extra_events.get(op[1]) not in (None,):
                # an undeclared name: must be "not allowed"/ignored with the state untouched
                ok = (p[2] == "ok" and p[3] == "None" and s.allow) or (p[2] == "err" and p[3].startswith("notallowed:"))
                if cur != "-" and (not ok or kv["cur"] != cur):
                    fails.append(f"C13: send({s.extra_events[op[1]]!r}) was not treated as an unknown event: {l}")
            cur = kv["cur"]
        elif p[0] == "T":
            cur = p[1]
        elif p[0] == "A" and p[2] != "err" and cur in val2idx:
            ids = [] if p[2] == "-" else p[2].split(",")
            if len(set(ids)) != len(ids):
                fails.append(f"C13: allowed_events lists an event twice: {l}")
            # declaration order = order of the transitions that carry the events; the order of several events
            # written on *one* transition is not constrained (DESIGN 3.2)
            want, seen = [], set()
            for t in eng.expanded_trans(s):
                if t.src == val2idx[cur]:
                    grp = sorted({str(e) for e in t.events} - seen)
                    if grp:
                        want.append(grp)
                        seen |= set(grp)
            got, k = [], 0
            for grp in want:
                got.append(sorted(ids[k:k + len(grp)]))
                k += len(grp)
            if got != want or k != len(ids):
                fails.append(f"C13: allowed_events in state {cur} is {ids}, expected {want} (declaration order of the "
                             f"transitions; events of one transition in any order)")
        elif p[0] == "V":
            ids = [] if len(p) < 3 or p[2] == "" else p[2].split(",")
            if sorted(map(int, ids)) != sorted(declared):
                fails.append(f"C13: events is {ids}, expected {sorted(declared)}")
    return fails


def probe_trigger_outlives_machine():
    """A trigger obtained from the machine (bound onto another object, an item of allowed_events) is the
    same entry point as `send`: it keeps working when it is the only thing that still refers to the machine."""
    import gc
    import warnings
    from statemachine import State, StateMachine
    fails = []
    with warnings.catch_warnings():
        warnings.simplefilter("ignore")

        class M(StateMachine):
            a = State(initial=True)
            b = State()
            c = State(final=True)
            go = a.to(b) | b.to(c)
            back = b.to(a)

        class Mdl:
            state = None

        def factory():
            m = Mdl()
            sm = M(m)
            sm.bind_events_to(m)
            return m

        def lone_trigger():
            m = Mdl()
            return m, [e for e in M(m).allowed_events if e == "go"][0]

        for label, thunk in (("bound onto the model", lambda: (lambda m: (m, m.go))(factory())), ("item of allowed_events", lone_trigger)):
            try:
                m, trig = thunk()
                gc.collect()
                trig()
                gc.collect()
                trig()
                if m.state != "c":
                    fails.append(f"trigger {label}: two calls of `go` left the model in {m.state!r}, expected 'c'")
            except Exception as e:
                fails.append(f"trigger {label}: {type(e).__name__}: {e}")
    return fails


def probe_inherited_event_names():
    """An inherited event stays *the* entry point of that name in a subclass, whatever else the subclass's MRO
    offers under the name (a helper method written in the subclass body, an attribute of a mixin placed in front of
    the machine class): `send(name)`, the item of `events` / `allowed_events` and the attribute are the same
    trigger, and none of them calls the other attribute."""
    import warnings
    from statemachine import State, StateMachine
    from statemachine.exceptions import TransitionNotAllowed
    fails = []
    calls = []
    with warnings.catch_warnings():
        warnings.simplefilter("ignore")

        class Base(StateMachine):
            idle = State(initial=True)
            running = State()
            start = idle.to(running)
            stop = running.to(idle)

        def helper(self, *a, **k):
            calls.append("helper")
            return "helper"

        class Mixin:
            stop = helper
            start = "just a string"

        variants = {
            "method in the subclass body": type(Base)("SubBody", (Base,), {"stop": helper}),
            "mixin in front of the machine": type(Base)("SubMixin", (Mixin, Base), {}),
        }
        for label, cls in variants.items():
            try:
                sm = cls()
                del calls[:]
                try:
                    sm.send("stop")
                    fails.append(f"{label}: send('stop') in state idle did not raise TransitionNotAllowed")
                except TransitionNotAllowed:
                    pass
                sm.send("start")
                if sm.current_state.id != "running":
                    fails.append(f"{label}: send('start') left the machine in {sm.current_state.id}")
                evs = [e for e in sm.allowed_events if e == "stop"]
                if len(evs) != 1:
                    fails.append(f"{label}: allowed_events in `running` is {list(sm.allowed_events)}")
                else:
                    evs[0]()
                    if sm.current_state.id != "idle":
                        fails.append(f"{label}: the `stop` item of allowed_events left the machine in {sm.current_state.id}")
                sm.send("start")
                sm.send("stop")
                if sm.current_state.id != "idle":
                    fails.append(f"{label}: send('stop') in state running left the machine in {sm.current_state.id}")
                if sorted(str(e) for e in sm.events) != ["start", "stop"]:
                    fails.append(f"{label}: events is {list(sm.events)}")
                if calls:
                    fails.append(f"{label}: sending a declared event called another attribute of that name: {calls}")
            except Exception as e:
                fails.append(f"{label}: {type(e).__name__}: {e}")
    return fails


def probe_equal_machines(seed, cases=40):
    """Two live machines that compare (and hash) equal — they track records with the same key — are still two machines:
    whichever way an event is sent to one of them (`send`, the event method, an item of `events` / `allowed_events`, a
    trigger bound onto another object), it is that machine that takes it and the other one does not move."""
    import random
    import warnings
    from props.c17 import _keyed_machine
    fails = []
    K = _keyed_machine()
    for k in range(cases):
        rng = random.Random(f"{seed}:c13-equal-machines:{k}")
        style = rng.choice(["send", "method", "events", "allowed", "bound"])
        warm = rng.random() < 0.7          # the first machine's triggers were used before the second one exists
        with warnings.catch_warnings():
            warnings.simplefilter("ignore")
            try:
                a = K(key=1)
                if warm:
                    a.pay(); a.undo()
                    [e for e in a.allowed_events]
                    a.events
                b = K(key=1)
                assert a == b and a is not b
                tgt = type("Obj", (), {})()
                if style == "bound":
                    b.bind_events_to(tgt)
                ev = {"send": lambda: b.send("pay"), "method": lambda: b.pay(),
                      "events": lambda: next(x for x in b.events if x == "pay")(),
                      "allowed": lambda: next(x for x in b.allowed_events if x == "pay")(),
                      "bound": lambda: tgt.pay()}[style]
                ev()
                got = (a.current_state.id, b.current_state.id)
            except Exception as e:  # noqa: BLE001
                fails.append(f"case {k} (style {style}, first machine used before: {warm}): {type(e).__name__}: {e}")
                continue
        if got != ("draft", "paid"):
            fails.append(f"case {k}: `pay` sent to the second of two equal machines through {style} "
                         f"(first machine used before: {warm}): states (first, second) = {got}, expected ('draft', 'paid')")
    return fails


ODD_IDS = ["order.paid", "give-up", "class", "1st", "été", "a:b", "x/y", "with", "None", "go!", "import", "a.b.c", "-", "@"]


def probe_odd_event_ids(seed, n):
    """C13 for events whose id is not a Python identifier (`a.to(b, event="order.paid")`, a keyword, a dotted name):
    the same machine written with identifier ids must behave the same under every calling style — send(name),
    getattr(sm, name)(), the item of `events` / `allowed_events`, the trigger bound onto another object"""
    import random
    import warnings
    from statemachine import State, StateMachine

    rng = random.Random(f"{seed}:C13:odd")
    fails = []
    for i in range(n):
        nst = rng.randint(2, 4)
        nev = rng.randint(1, 3)
        odd = rng.sample(ODD_IDS, nev)
        plain = [f"ev{j}" for j in range(nev)]
        trans = [(j, (j + 1) % nst, rng.randrange(nev)) for j in range(nst)]       # a ring: everything connected
        trans += [(rng.randrange(nst), rng.randrange(nst), rng.randrange(nev)) for _ in range(rng.randint(0, 4))]
        how = rng.choice(["inline", "attr", "list"])
        allow = rng.random() < 0.4
        ops = [(rng.randrange(nev), rng.choice(["send", "method", "events", "allowed", "bound"])) for _ in range(rng.randint(3, 8))]

        def run(names):
            states = [State(f"S{j}", initial=(j == 0)) for j in range(nst)]
            ns = {f"s{j}": st for j, st in enumerate(states)}
            per = {}
            for (a, b, e) in trans:
                if how == "attr":
                    tl = states[a].to(states[b])
                    per[e] = (per[e] | tl) if e in per else tl
                elif how == "list":
                    states[a].to(states[b], event=[names[e]])
                else:
                    states[a].to(states[b], event=names[e])
            for e, tl in per.items():
                ns[names[e]] = tl
            out = []
            try:
                with warnings.catch_warnings():
                    warnings.simplefilter("ignore")
                    cls = type(StateMachine)("Odd", (StateMachine,), ns)
                    sm = cls(allow_event_without_transition=allow)

                    class Other:
                        pass
                    other = Other()
                    sm.bind_events_to(other)
            except Exception as ex:  # noqa: BLE001
                return [("construct", type(ex).__name__)]
            idx = {nm: k for k, nm in enumerate(names)}
            out.append(("events", [idx.get(ev.id, ev.id) for ev in cls.events]))
            for (e, style) in ops:
                nm = names[e]
                try:
                    if style == "send":
                        sm.send(nm)
                    elif style == "method":
                        getattr(sm, nm)()
                    elif style == "events":
                        [ev for ev in sm.events if ev.id == nm][0].__get__(sm, cls)()
                    elif style == "allowed":
                        cand = [ev for ev in sm.allowed_events if ev.id == nm]
                        if cand:
                            cand[0]()
                        else:
                            sm.send(nm)
                    else:
                        getattr(other, nm)()
                    res = "ok"
                except Exception as ex:  # noqa: BLE001
                    res = type(ex).__name__
                try:
                    al = sorted(idx.get(ev.id, ev.id) for ev in sm.allowed_events)
                except Exception as ex:  # noqa: BLE001
                    al = type(ex).__name__
                out.append((e, style, res, sm.current_state.id, al))
            return out
        a, b = run(plain), run(odd)
        if a != b:
            fails.append(f"odd event ids {odd} ({how}, allow={allow}), transitions {trans}: with identifier ids {a}, "
                         f"with these ids {b}")
            if len(fails) >= 3:
                break
    return fails


def run(ctx):
    lean_obligations(ctx)
    po = safe_probe(probe_odd_event_ids, ctx.seed, 60 if ctx.tier == "quick" else 1500)
    ctx.coverage["odd_event_id_machines"] = 60 if ctx.tier == "quick" else 1500
    if po:
        ctx.violation(ctx.write_replay("odd_event_ids.txt", "\n".join(po) + "\n"), po[0][:200])
    pe = safe_probe(probe_equal_machines, ctx.seed)
    ctx.coverage["equal_machines_cases"] = 40
    if pe:
        ctx.violation(ctx.write_replay("equal_machines.txt", "\n".join(pe[:10]) + "\n"), pe[0][:200])
    pf2 = safe_probe(probe_inherited_event_names)
    if pf2:
        ctx.violation(ctx.write_replay("inherited_event_names.txt", "\n".join(pf2) + "\n"), pf2[0])
    ctx.coverage["rule"] = ("seeded random machines and histories; every send uses one of five calling styles (sm.send, "
                            "event method, item of sm.events, item of sm.allowed_events, trigger bound onto another "
                            "object with bind_events_to); 22% of sends use a name drawn from dir(StateMachine), state "
                            "ids, dunders, near-misses ('Go', 'go ') under allow on/off; allowed_events/events observed "
                            "throughout; non-trivial = >=2 styles mixed or an attribute name sent")
    pf = safe_probe(probe_trigger_outlives_machine)
    if pf:
        ctx.violation(ctx.write_replay("trigger_outlives_machine.txt", "\n".join(pf) + "\n"), pf[0])
    engine_check(ctx, PROFILE, 800, 20000, nontrivial, monitor=monitor, tag="C13s", mutate=mutate, share=0.62)
    cov1 = dict(ctx.coverage)
    engine_check(ctx, PROFILE_ASYNC, 250, 8000, nontrivial, monitor=monitor, tag="C13a", mutate=mutate)
    for k in ("evaluations", "distinct_nontrivial", "traces_validated_against_impl", "disagreements", "monitor_failures"):
        ctx.coverage[k] = ctx.coverage.get(k, 0) + cov1.get(k, 0)
    ctx.coverage["distribution_sync"] = cov1.get("distribution")
    ctx.coverage["attribute_names_pool"] = len(ATTRS or [])


_run_inner = run


def run(ctx):
    import engcorr
    _run_inner(ctx)
    # how many sends the C01 Spec monitor (Lean `choose` on the implementation's observation) actually judged
    ctx.coverage["c01_spec_monitor"] = dict(engcorr.C01_MON_STATS)
    if ctx.coverage.get("evaluations", 0) > 50 and not ctx.replay and engcorr.C01_MON_STATS["judged"] == 0:
        raise RuntimeError("the C01 Spec monitor judged nothing: it is vacuous")

