"""C15 — every declaration style of the same machine yields the same machine.

Per generated abstract machine: 3–6 renderings (declaration programs in random styles) are written
as Python *source text*, exec'd against the real library, and
 (i)  each rendering's extracted structure is compared with the structure the abstract machine itself
      prescribes (the Spec: states, event set, ordered candidates per (state, event), allowed events) and
      the renderings are compared pairwise under that equivalence,
 (ii) each rendering is compared line by line with the Lean model's `elabProg` of the same program,
 (iii) one random event scenario with guard valuations runs on every rendering; traces must agree.
"""
from __future__ import annotations

import hashlib
import os
import random
import subprocess

import decl_gen as G
import decl_run as R
from common import LEAN, VERIF, run_driver
from framework import known_findings, lean_obligations

RULE = ("seeded random abstract machines (2-5 states, 1-7 events, shared/multi-event transitions, guards, "
        "callbacks, internal/self transitions, finals, optional any-group), each rendered in 3-6 random "
        "declaration styles; non-trivial = at least 2 renderings whose style-tag sets differ in >= 2 choices; "
        "distinct = hash of the abstract machine text + the rendered sources")


def expected_semantic(am):
    """the Spec side, straight from the abstract machine (independent of library and model)"""
    def show(xs):
        xs = sorted(xs)
        return ",".join(str(x) for x in xs) if xs else "-"
    if am.get("poison"):
        return dict(err="err 1")
    states = []
    for s in am["states"]:
        v = "-" if s["value"] is None else str(s["value"])
        states.append(f"state {s['k']} {v} {int(s['initial'])} {int(s['final'])} en={show(s['enter'])} ex={show(s['exit'])}")
    cands, allowed, events = {}, {str(s["k"]): set() for s in am["states"]}, set()
    for t in am["trans"]:
        c = show([2 * g + 1 for g in t["cond"]] + [2 * g for g in t["unless"]])
        line = (f"{t['tgt']} {int(t['internal'])} v={show(t['validators'])} c={c} b={show(t['before'])} "
                f"o={show(t['on'])} a={show(t['after'])}")
        for e in t["events"]:
            cands.setdefault((str(t["src"]), str(G.EV0 + e)), []).append(line)
            allowed[str(t["src"])].add(G.EV0 + e)
            events.add(G.EV0 + e)
    events |= {G.EV0 + e for e in am.get("dangling", [])}
    return dict(err="err 0", states=states, cands=cands, events=show(events),
                allowed={k: show(v) for k, v in allowed.items()})


def one_case(seed, tag, i, allow_any=True):
    rng = random.Random(f"{seed}:{tag}:{i}")
    am = G.gen_machine(rng, allow_any=allow_any)
    k = rng.randint(3, 6)
    rends = []
    tries = 0
    am["poison"] = rng.choice(["internal", "unbound"]) if rng.random() < 0.05 else None
    while len(rends) < k and tries < 40:
        tries += 1
        p = G.render(am, rng, allow_any=allow_any)
        if p is None:
            continue
        if am["poison"]:
            p = G.poison(p, am, rng, am["poison"])
        rends.append(dict(prog=p, tags=p["tags"], src=G.python_source(am, p)))
    guards = sorted({g for t in am["trans"] for g in t["cond"] + t["unless"]})
    # a raising callback must not have siblings whose order is style-dependent (order inside one group is
    # unconstrained, C02): only guards and validators raise
    raisable = guards + sorted({v for t in am["trans"] for v in t["validators"]})
    steps = R.gen_scenario(rng, am["nev"], guards, raisable)
    return am, rends, steps


def replay_file(ctx, path):
    """returns the list of failures of one replay file (empty = passes)"""
    text = open(path).read()
    rends, steps = R.parse_replay(text)
    lines = []
    for i, r in enumerate(rends):
        if r.get("model"):
            m = list(r["model"])
            m[0] = f"scn decl r{i}"
            lines += m
    mo = run_driver(lines, exe="drv_decl", root="DrvDecl.lean") if lines else {}
    model_out = {int(k[1:]): v for k, v in mo.items()}
    fails, _ = R.check_renderings(rends, steps, model_out)
    return fails


def run(ctx):
    lean_obligations(ctx)
    b = subprocess.run(["lake", "build", "drv_decl"], cwd=LEAN, capture_output=True, text=True)
    if b.returncode != 0:
        raise RuntimeError("drv_decl does not build: " + (b.stdout + b.stderr)[-800:])
    ctx.coverage["rule"] = RULE
    ctx.assumptions += [
        "random generation never renders from_.any() in the shapes of finding D16 (a state declared after the "
        "event; any() combined with other transitions in one expression; event= passed to any(); "
        "class of an inheritance rendering); those shapes are replayed from known_findings.jsonl instead",
        "order of callbacks inside one group is unconstrained (C02): callback names per group, per-step logs and "
        "result lists are compared as sorted lists; only guards and validators are made to raise",
        "event display names (Event(name=...)) and re-assignment of one attribute name are not compared/modelled",
    ]

    if ctx.replay:
        fails = replay_file(ctx, ctx.replay)
        for kind, what in fails[:1]:
            ctx.violation(os.path.relpath(os.path.abspath(ctx.replay), VERIF), what, no_input=(kind == "corr"))
        ctx.coverage.update(evaluations=1, distinct_nontrivial=0)
        return

    # ---- known findings, corpus
    from framework import run_py_corpus
    ctx.coverage["corpus_programs"] = run_py_corpus(ctx)
    excluded = []
    for kf in known_findings("C15"):
        rp = os.path.join(VERIF, kf.get("replay", ""))
        if not os.path.isfile(rp) or rp.endswith(".py"):    # (programs: run below with the corpus)
            continue
        fails = replay_file(ctx, rp)
        spec_fails = [w for k, w in fails if k == "spec"]
        if kf.get("status") == "known":
            excluded.append(kf.get("exclusion", ""))
            if spec_fails:
                ctx.known_printed.append(f"{kf.get('what', kf.get('replay'))} [replay={kf.get('replay')}]")
            corr = [w for k, w in fails if k == "corr"]
            if corr:   # the model must still predict the recorded (defective) behaviour
                ctx.violation(kf["replay"], corr[0], no_input=True)
        elif fails:
            ctx.violation(kf["replay"], "fixed finding fails again: " + fails[0][1], no_input=(fails[0][0] == "corr"))
    cdir = os.path.join(VERIF, "corpus", "C15")
    ncorpus = 0
    if os.path.isdir(cdir):
        for fn in sorted(os.listdir(cdir)):
            fails = replay_file(ctx, os.path.join(cdir, fn))
            ncorpus += 1
            if fails:
                ctx.violation(os.path.join("corpus", "C15", fn), fails[0][1], no_input=(fails[0][0] == "corr"))

    # ---- random generation
    n_target = 380 if ctx.tier == "quick" else 6000
    reserve = 6 if ctx.tier == "quick" else 30
    batch = 60
    evaluations = renderings = nontrivial = traces = 0
    seen = set()
    tagcount, sizes, samples = {}, {}, []
    spec_fail = corr_fail = 0
    i = 0
    while i < n_target and ctx.left() > reserve and len(ctx.violations) < 3:
        cases = []
        lines = []
        for j in range(i, min(i + batch, n_target)):
            am, rends, steps = one_case(ctx.seed, "C15", j)
            for q, r in enumerate(rends):
                r["model"] = G.model_lines(r["prog"], f"c{j}r{q}")
                lines += r["model"]
            cases.append((j, am, rends, steps))
        mo = run_driver(lines, exe="drv_decl", root="DrvDecl.lean")
        for j, am, rends, steps in cases:
            model_out = {q: mo.get(f"c{j}r{q}", ["<missing>"]) for q in range(len(rends))}
            fails, info = R.check_renderings(rends, steps, model_out)
            exp = expected_semantic(am)
            for q, sem in enumerate(info["sems"]):
                d = R.sem_diff(exp, sem)
                if d:
                    fails.insert(0, ("spec", f"rendering {q} does not declare the abstract machine: {d}"))
            evaluations += 1
            renderings += len(rends)
            traces += len(rends)
            h = hashlib.sha1((G.machine_text(am) + "".join(r["src"] for r in rends)).encode()).hexdigest()
            nt = G.styles_differ([r["tags"] for r in rends])
            if nt and h not in seen:
                nontrivial += 1
            seen.add(h)
            for r in rends:
                for t in r["tags"]:
                    tagcount[t] = tagcount.get(t, 0) + 1
            key = f"{len(am['states'])}s/{len(am['trans'])}t"
            sizes[key] = sizes.get(key, 0) + 1
            if len(samples) < 3:
                samples.append(dict(machine=G.machine_text(am), renderings=[r["src"] for r in rends[:2]],
                                    tags=[sorted(r["tags"]) for r in rends], trace=info["traces"][0][:4]))
            if fails:
                kinds = {k for k, _ in fails}
                what = next((w for k, w in fails if k == "spec"), fails[0][1])
                if "spec" in kinds:
                    spec_fail += 1
                else:
                    corr_fail += 1
                text = R.replay_text(what, G.machine_text(am), rends, steps)
                rp = ctx.write_replay(f"c15_{ctx.seed}_{j}.replay", text)
                ctx.violation(rp, what, no_input=("spec" not in kinds))
                if len(ctx.violations) >= 3:
                    break
        i += batch
    ctx.coverage.update(
        evaluations=evaluations, renderings=renderings, distinct_nontrivial=nontrivial,
        traces_validated_against_impl=traces, samples=samples, corpus_replayed=ncorpus,
        known_exclusions=excluded, spec_failures=spec_fail, correspondence_failures=corr_fail,
        distribution=dict(style_tags=dict(sorted(tagcount.items())), sizes=dict(sorted(sizes.items()))),
        exhaustive=False)
