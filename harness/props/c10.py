"""C10 — the current state is exactly what the user's model stores.

Lean: SMV/Model/Store.lean, SMV/Props/C10.lean (audited through C10.index), driver `drv_store`.
Correspondence: real machines over many kinds of state values (falsy ones included), 15 model shapes,
random field names, start values, histories mixing events with writes through all four routes
(`current_state_value =`, `current_state =`, raw `setattr`, `delattr`) of valid and invalid values.
Each scenario is run on the real library (public API), on the Lean model (driver) and judged by the
Spec written from the English statement (store_spec.py).
"""
from __future__ import annotations

import copy
import hashlib
import multiprocessing as mp
import os
import random
import subprocess

import eng
import gen
import store_gen as G
import store_impl as I
import store_spec as S
from common import LEAN, VERIF, first_diff, run_driver
from engcorr import engine_check
from framework import lean_obligations

TAG = "C10"
N_QUICK = 4000
N_THOROUGH = 200000
CHUNK = 250
RULE = ("seeded random scenarios: 1-6 states with pairwise non-colliding values drawn from 35 values of 10 kinds "
        "(str incl. '', int incl. 0/-1/2**70, bool, float, Enum, falsy Enum, IntEnum, tuple, bytes, frozenset), "
        "15 model shapes, 10 field names, optional start_value / pre-stored value (valid or invalid), 3-10 ops "
        "(send / current_state_value= / current_state= / raw setattr / delattr / read). Non-trivial = a falsy value "
        "or a non-default model shape is involved and at least one external write happens; distinct = hash of the "
        "scenario without its name")


def scn_hash(s):
    d = copy.copy(s)
    d.name = ""
    return hashlib.sha1(G.to_json(d).encode()).hexdigest()[:12]


def evaluate(scns):
    """-> [(scn, impl obs, impl lines, model lines, spec failures, diff)]"""
    lines = []
    for s in scns:
        lines += G.model_lines(s)
    mod = run_driver(lines, exe="drv_store", root="DrvStore.lean")
    out = []
    for s in scns:
        obs = I.run_impl(s)
        il = I.lines_of(s, obs)
        ml = mod.get(s.name, ["<no model output>"])
        out.append((s, obs, il, ml, S.spec(s, obs), first_diff(il, ml)))
    return out


def gen_range(seed, i0, i1):
    return [G.gen_scenario(random.Random(f"{seed}:{TAG}:{i}"), f"{TAG}-{seed}-{i}") for i in range(i0, i1)]


def _stats(res):
    """summaries that can cross a process boundary"""
    st = dict(n=0, agree=0, ops=0, ctor_err=0, dup=0)
    dist = {"shape": {}, "kind": {}, "op": {}, "field": {}, "states": {}}
    nt = set()
    bad = []
    flags = dict(falsy_start=0, falsy_stored=0, falsy_target_transition=0, invalid_checked_write=0,
                 invalid_raw_write=0, raw_none=0, invalid_start=0, invalid_stored=0, falsy_model=0,
                 invalidstate_reads=0, notallowed=0)
    for (s, obs, il, ml, fails, diff) in res:
        st["n"] += 1
        st["ops"] += len(s.ops)
        if diff is None:
            st["agree"] += 1
        if obs[0]["res"] != "ok":
            st["ctor_err"] += 1
        if not s.distinct():
            st["dup"] += 1
        inc = lambda d, k: d.__setitem__(k, d.get(k, 0) + 1)
        inc(dist["shape"], s.shape)
        inc(dist["field"], s.field_name)
        inc(dist["states"], str(len(s.values)))
        for k in set(x.split(":")[0] for x in s.values):
            inc(dist["kind"], k)
        for op in s.ops:
            inc(dist["op"], op[0])
        if G.nontrivial(s):
            nt.add(scn_hash(s))
        if s.start is not None and not G.VALS[s.start]:
            flags["falsy_start"] += 1
        if s.cell0 is not None and not G.VALS[s.cell0]:
            flags["falsy_stored"] += 1
        if s.start is not None and s.start not in s.values:
            flags["invalid_start"] += 1
        if s.cell0 is not None and s.cell0 not in s.values:
            flags["invalid_stored"] += 1
        if s.shape in G.FALSY_SHAPES:
            flags["falsy_model"] += 1
        prev = obs[0].get("f")
        for op, o in zip(s.ops, obs[1:]):
            if o["res"] == "skipped":
                break
            if op[0] == "send" and o["res"] == "ok" and o["f"] is not None and o["f"] in G.VALS and not G.VALS[o["f"]] \
                    and o["f"] != prev:
                flags["falsy_target_transition"] += 1
            if op[0] == "wv" and op[1] not in s.values:
                flags["invalid_checked_write"] += 1
            if op[0] == "raw" and op[1] is None:
                flags["raw_none"] += 1
            if op[0] == "raw" and op[1] is not None and op[1] not in s.values:
                flags["invalid_raw_write"] += 1
            if o.get("s") == "!invalidstate":
                flags["invalidstate_reads"] += 1
            if o["res"].startswith("err:notallowed"):
                flags["notallowed"] += 1
            prev = o["f"]
        if fails or diff is not None:
            bad.append((G.to_json(s), fails, diff))
    return st, dist, nt, flags, bad


def _worker(args):
    if args[0] == "exh":
        return _stats(evaluate(exhaustive_block(args[1], args[2])))
    seed, i0, i1 = args
    return _stats(evaluate(gen_range(seed, i0, i1)))


# small scope, enumerated completely (thorough tier): two states s0 (initial) <-go-> s1, s0 -e-> s0,
# values = every ordered pair of {0, '', 'a', ()}, every model shape, start_value / stored value in
# {absent, value of s0, value of s1, an undeclared value}, every sequence of two operations out of 11
EXH_VALUES = ["int:0", "str:", "str:a", "tuple:()"]
EXH_INVALID = "int:7"


def exhaustive_jobs():
    return [("exh", (a, b), sh) for a in EXH_VALUES for b in EXH_VALUES if a != b for sh in G.SHAPES]


def exhaustive_block(pair, shape):
    a, b = pair
    alphabet = [["send", 0], ["wv", a], ["wv", b], ["wv", EXH_INVALID], ["wv", None], ["ws", 0], ["ws", 1],
                ["raw", a], ["raw", b], ["raw", EXH_INVALID], ["raw", None]]
    starts = [None] if shape in G.MIXINS else [None, a, b, EXH_INVALID]
    cells = [None] if shape in ("none", "noattr") else [None, a, b, EXH_INVALID]
    out = []
    for st in starts:
        for c0 in cells:
            for i, o1 in enumerate(alphabet):
                for j, o2 in enumerate(alphabet):
                    out.append(G.SScn(
                        name=f"exh-{a}-{b}-{shape}-{st}-{c0}-{i}-{j}".replace(" ", "_"), values=[a, b], names=[None, None],
                        initial=0, trans=[[0, 0, 1], [1, 0, 0], [0, 2, 0]], shape=shape, start=st, cell0=c0,
                        field_name="state" if shape in ("none",) else "st", ops=[list(o1), list(o2)]))
    return out


def _merge(acc, part):
    st, dist, nt, flags, bad = part
    for k, v in st.items():
        acc["st"][k] = acc["st"].get(k, 0) + v
    for d, m in dist.items():
        for k, v in m.items():
            acc["dist"].setdefault(d, {})
            acc["dist"][d][k] = acc["dist"][d].get(k, 0) + v
    acc["nt"] |= nt
    for k, v in flags.items():
        acc["flags"][k] = acc["flags"].get(k, 0) + v
    acc["bad"] += bad


# ----------------------------------------------------------------------------- verdicts

def spec_fails(s):
    try:
        return S.spec(s, I.run_impl(s))
    except Exception as e:  # noqa: BLE001
        return [f"harness: {type(e).__name__}: {e}"]


def shrink(s, bad):
    """greedy: drop operations, then transitions / the start value / the stored value, while `bad(scn)`"""
    cur = s
    changed = True
    while changed:
        changed = False
        for i in range(len(cur.ops) - 1, -1, -1):
            c = copy.deepcopy(cur)
            del c.ops[i]
            if bad(c):
                cur, changed = c, True
        for attr in ("start", "cell0"):
            if getattr(cur, attr) is not None:
                c = copy.deepcopy(cur)
                setattr(c, attr, None)
                if bad(c):
                    cur, changed = c, True
        if cur.field_name != "state":
            c = copy.deepcopy(cur)
            c.field_name = "state"
            if bad(c):
                cur, changed = c, True
    return cur


def replay_text(s, fails, diff, kind, obs=None, ml=None):
    L = [f"# C10 replay ({kind})",
         "# run: cd /verif && ./check C10 --replay <this file>"]
    L += ["# " + x for x in G.render(s).rstrip().split("\n")]
    for f in fails[:8]:
        L.append("# SPEC FAILS: " + f)
    if diff is not None:
        L.append(f"# model/implementation differ at line {diff[0]}: implementation `{diff[1]}` vs model `{diff[2]}`")
        L.append("# correspondence that no longer checks: corr:C10:store (SMV.Store.step / construct vs the library); "
                 "theorems resting on it: SMV.C10_reads_reflect, SMV.C10_exactly_one_active, SMV.C10_invalid_write, "
                 "SMV.C10_model_identity, SMV.C10_start_value, SMV.C10_after_transition")
    if obs is not None:
        for l in I.lines_of(s, obs):
            L.append("# impl : " + l)
    if ml is not None:
        for l in ml:
            L.append("# model: " + l)
    L.append("SCN " + G.to_json(s))
    return "\n".join(L) + "\n"


def load_replay(path):
    for l in open(path):
        if l.startswith("SCN "):
            return G.from_json(l[4:])
        if l.startswith("{"):
            return G.from_json(l)
    raise ValueError(f"no scenario in {path}")


def neighbours(s, rng, n):
    """same machine, other shapes / fields / start values / histories"""
    out = []
    for j in range(n):
        t = G.gen_scenario(rng, f"{s.name}-nb{j}")
        c = copy.deepcopy(s)
        c.name = t.name
        c.shape = t.shape if rng.random() < 0.5 else s.shape
        c.field_name = t.field_name if rng.random() < 0.3 else s.field_name
        pool = s.values + [None]
        c.start = rng.choice(pool) if c.shape not in G.MIXINS else None
        c.cell0 = rng.choice(pool) if c.shape not in ("none", "noattr") and rng.random() < 0.4 else None
        if c.shape in G.MIXINS:
            c.allow = False
        evs = sorted({t_[1] for t_ in s.trans})
        ops = []
        others = [k for k in G.KEYS if k not in s.values and G.compatible(s.values + [k])]
        for _ in range(rng.randint(1, 8)):
            r = rng.random()
            if r < 0.35:
                ops.append(["send", rng.choice(evs)])
            elif r < 0.5:
                ops.append(["wv", rng.choice(s.values + others[:3] + [None])])
            elif r < 0.65:
                ops.append(["ws", rng.randrange(len(s.values))])
            else:
                ops.append(["raw", rng.choice(s.values + s.values + others[:3] + [None])])
        c.ops = ops
        out.append(c)
    return out


def report(ctx, bad, limit=4):
    """turn failing scenarios into VIOLATION lines (at most `limit`, one per distinct leading failure)"""
    seen = set()
    for (js, fails, diff) in bad:
        if len(seen) >= limit or ctx.left() < 3:
            break
        s = G.from_json(js)
        if fails:
            key = "spec:" + fails[0].split(":")[1][:40] if ":" in fails[0] else fails[0][:40]
            if key in seen:
                continue
            seen.add(key)
            m = shrink(s, lambda c: bool(spec_fails(c)))
            (_, obs, il, ml, f2, d2), = evaluate([m])
            rp = ctx.write_replay(f"c10_{scn_hash(m)}.txt", replay_text(m, f2, d2, "the implementation fails the Spec", obs, ml))
            ctx.violation(rp, f2[0] if f2 else fails[0])
        else:
            key = f"diff:{diff[1].split(' ')[0]}"
            if key in seen:
                continue
            seen.add(key)
            # the Spec holds on this input: look for a failing input nearby before giving up
            rng = random.Random(f"{ctx.seed}:{TAG}:nb:{s.name}")
            found = None
            for c in neighbours(s, rng, 300):
                if ctx.left() < 5:
                    break
                f2 = spec_fails(c)
                if f2:
                    found = c
                    break
            if found is not None:
                m = shrink(found, lambda c: bool(spec_fails(c)))
                (_, obs, il, ml, f2, d2), = evaluate([m])
                rp = ctx.write_replay(f"c10_{scn_hash(m)}.txt",
                                      replay_text(m, f2, d2, "found near a model/implementation disagreement", obs, ml))
                ctx.violation(rp, f2[0])
            else:
                def still(c):
                    (_, _, _, _, _, d), = evaluate([c])
                    return d is not None
                m = shrink(s, still)
                (_, obs, il, ml, f2, d2), = evaluate([m])
                rp = ctx.write_replay(f"c10_{scn_hash(m)}.txt",
                                      replay_text(m, f2, d2, "model and implementation disagree; the Spec holds on this input", obs, ml))
                ctx.violation(rp, f"corr:C10:store line {d2[0] if d2 else '?'}", no_input=True)


# ----------------------------------------------------------------------------- engine slice

# machines WITH callbacks, guards and nested sends (shared engine generator), run-to-completion:
# ties `C10_engine_after_transition` (about SMV.Model.Engine) to the library
ENGINE_PROFILE = gen.Profile(
    p_nested=0.6, max_nested_rows=3, p_raise=0.1, p_validator_raise=0.05, p_rtc_off=0.0, p_start=0.4, p_cur0=0.3,
    p_unknown_event=0.05, n_ops=(2, 8), p_coro=0.0,
    p_group=dict(validators=0.05, cond=0.3, unless=0.15, before=0.3, on=0.4, after=0.5, enter=0.6, exit=0.3),
)


def engine_monitor(s, a, rt):
    """C10 seen from inside callbacks (RTC): `enter`/`after` callbacks run after the assignment, so the
    model field they read holds the target state's value; `before`/`exit`/`on` callbacks still read the
    source's value. Falsy values (0, '') are in the value pool."""
    fails = []
    if not s.rtc:
        return fails
    val = lambda i: eng.rp(eng.POOL[s.states[i].val])
    for l in a:
        p = l.split(" ")
        if p[0] != "B":
            continue
        f = dict(x.split("=", 1) for x in p[4:])
        ph = p[2]
        if ph in ("enter", "after") and f["tgt"].isdigit():
            if f["seen"] != val(int(f["tgt"])):
                fails.append(f"C10: {ph} callback {p[3]} of a transition to s{f['tgt']} reads the model field as "
                             f"{f['seen']}, target value is {val(int(f['tgt']))}: {l}")
        if ph in ("before", "exit", "on") and f["src"].isdigit():
            if f["seen"] != val(int(f["src"])):
                fails.append(f"C10: {ph} callback {p[3]} of a transition from s{f['src']} reads the model field as "
                             f"{f['seen']}, source value is {val(int(f['src']))}: {l}")
    return fails


def engine_nontrivial(s, a, rt):
    falsy = any(not eng.POOL[st.val] for st in s.states)
    return falsy and any(l.startswith("B ") and l.split(" ")[2] in ("enter", "after") for l in a)


# ----------------------------------------------------------------------------- entry

def run(ctx):
    lean_obligations(ctx)
    b = subprocess.run(["lake", "build", "drv_store"], cwd=LEAN, capture_output=True, text=True)
    if b.returncode != 0:
        ctx.lean["failed"].append("build drv_store:" + (b.stdout + b.stderr)[-800:])
        return
    acc = dict(st={}, dist={}, nt=set(), flags={}, bad=[])
    ctx.coverage["rule"] = RULE
    n_corpus = 0

    if ctx.replay:
        s = load_replay(ctx.replay)
        res = evaluate([s])
        _merge(acc, _stats(res))
        (_, obs, il, ml, fails, diff), = res
        for l in il:
            print("impl :", l)
        for l in ml:
            print("model:", l)
        for f in fails:
            print("SPEC FAILS:", f)
    else:
        # 1. committed corpus (regression inputs of the repaired defects D1, D2, and hand-written cases)
        cdir = os.path.join(VERIF, "corpus", "C10")
        corpus = []
        if os.path.isdir(cdir):
            for fn in sorted(os.listdir(cdir)):
                if fn.endswith((".txt", ".json")):
                    corpus.append(load_replay(os.path.join(cdir, fn)))
        if corpus:
            _merge(acc, _stats(evaluate(corpus)))
        n_corpus = len(corpus)
        # 2. generated scenarios
        target = N_QUICK if ctx.tier == "quick" else N_THOROUGH
        jobs = [(ctx.seed, i, min(i + CHUNK, target)) for i in range(0, target, CHUNK)]
        if ctx.tier == "quick":
            for j in jobs:
                if ctx.left() < 8:
                    break
                _merge(acc, _worker(j))
        else:
            ejobs = exhaustive_jobs()
            ctx.coverage["exhaustive_small_scope"] = dict(
                blocks=len(ejobs), what="2 states, values: ordered pairs of {0,'','a',()}, all model shapes, "
                "start/stored value in {absent, v(s0), v(s1), undeclared}, all 121 two-operation histories")
            with mp.Pool(min(16, os.cpu_count() or 1)) as pool:
                for part in pool.imap_unordered(_worker, ejobs + jobs):
                    _merge(acc, part)
                    if ctx.left() < 60:
                        pool.terminate()
                        break

    report(ctx, acc["bad"])
    eng_cov = {}
    if not ctx.replay and not ctx.violations and ctx.left() > 15:
        engine_check(ctx, ENGINE_PROFILE, 300, 4000, engine_nontrivial, monitor=engine_monitor, tag="C10e")
        eng_cov = {k: ctx.coverage.get(k) for k in ("evaluations", "distinct_nontrivial", "disagreements",
                                                     "monitor_failures", "traces_validated_against_impl", "distribution")}
    st = acc["st"]
    samples = []
    for i in range(3):
        s = G.gen_scenario(random.Random(f"{ctx.seed}:{TAG}:{i}"), f"{TAG}-{ctx.seed}-{i}")
        samples.append(G.render(s))
    ctx.coverage.update(
        engine_slice=eng_cov,
        corpus=n_corpus,
        monitor_failures=sum(1 for b_ in acc["bad"] if b_[1]) + (eng_cov.get("monitor_failures") or 0),
        evaluations=st.get("n", 0),
        distinct_nontrivial=len(acc["nt"]),
        traces_validated_against_impl=st.get("agree", 0),
        disagreements=st.get("n", 0) - st.get("agree", 0),
        spec_failures=sum(1 for b_ in acc["bad"] if b_[1]),
        operations=st.get("ops", 0),
        constructor_errors=st.get("ctor_err", 0),
        machines_with_duplicate_values=st.get("dup", 0),
        distribution=acc["dist"],
        features_hit=acc["flags"],
        samples=samples,
        excluded=["unhashable values ([] / {}) as written values: `in states_map` raises TypeError before any "
                  "InvalidStateValue can be raised (reported separately, not generated)",
                  "values that collide under == with a declared value of the same machine (0/False/0.0/Flag.NO, "
                  "1/True/Flag.YES): one dict key in Python, two tokens in the model",
                  "guards and callbacks (engine model: C01-C05; here `C10_engine_after_transition`)"],
    )
    ctx.assumptions += [
        "Python attribute access on the model object (plain attribute, property, class-level default, __slots__, "
        "__getattr__/__setattr__, weakref.proxy) behaves as one cell; exercised by 15 model shapes",
        "dict lookup by ==/hash: a token of the model is equal to another iff the Python values are equal",
    ]
