"""C07 — callbacks receive exactly the parameters they declare.

Three correspondences between `/repo` and the Lean model `SMV.Model.Binder` (driver `drv_bind`):
  direct   `callable_method(f)(*args, **kw)` for generated `f`  vs  `invoke`      (+ Spec on the implementation)
  extern   CPython's call protocol / `inspect.BoundArguments`    vs  `pyCall`, `baArgs`/`baKwargs`
  machine  callbacks of real machines driven by `sm.send(...)`   vs  `invokeEvent` (+ Spec on the implementation)
The Spec (`bind_spec.spec_call`) is written from the property text; `cpython_oracle` cross-checks it.
"""
from __future__ import annotations

import json
import os
import random
import subprocess
import time

import bind_gen as G
import bind_impl as I
import bind_mach as MA
from bind_spec import cpython_oracle, satisfies, spec_call
from common import LEAN, VERIF, run_driver
from framework import lean_obligations, scn_hash, safe_probe

DRV = dict(exe="drv_bind", root="DrvBind.lean")


class Stats:
    def __init__(self):
        self.evaluations = 0
        self.validated = 0
        self.nontrivial = set()
        self.samples = []
        self.dist = {}
        self.viol = 0
        self.t = {}

    def inc(self, k, v=1):
        self.dist[k] = self.dist.get(k, 0) + v


def nontrivial_call(sig, args, kw):
    npos = sum(1 for _, k, _ in sig if k in ("po", "pk"))
    names = {n: k for n, k, _ in sig}
    return (len(args) > npos or any(n not in names or n in G.RESERVED for n, _ in kw)
            or any(names.get(n) in ("po", "pk") for n, _ in kw)
            or any(k in ("vp", "ko", "vk") for _, k, _ in sig))


# ----------------------------------------------------------------------------- direct

RECENT = {}     # parameter names -> signatures wrapped recently in this process (same co_varnames)


def direct_batch(ctx, st, cases, tag, two_step=False):
    """cases: list of (sig, args, kw[, history]). `history` = signatures of same-named functions to wrap
    first (a replayed cache-dependent failure). Returns False when enough violations were recorded."""
    lines = []
    for i, (sig, args, kw, *_) in enumerate(cases):
        lines += G.bind_scn(str(i), sig, args, kw)
    mod = run_driver(lines, **DRV)
    for i, (sig, args, kw, *hist) in enumerate(cases):
        for h in (hist[0] if hist else ()):
            I.impl_direct(G.make_function(h), (), ())
        f = G.make_function(sig)
        impl = I.impl_direct(f, args, kw)
        names = tuple(n for n, _, _ in sig)
        ST_HISTORY[:] = [h for h in RECENT.get(names, []) if h != sig][-6:]
        if RECENT.setdefault(names, [])[-1:] != [sig]:
            RECENT[names].append(sig)
            del RECENT[names][:-8]
        if two_step and I.impl_two_step(f, args, kw) != impl:
            _direct_violation(ctx, st, sig, args, kw, impl, "two-step=" + I.impl_two_step(f, args, kw), False,
                              "corr:C07:callable_method-vs-bind_expected", no_input=True)
        m = mod.get(str(i), ["model <none>", "spec <none>", "corner 0", "wf 0"])
        model = G.canon_model_frame(m[0][6:])
        lspec = G.canon_model_frame(m[1][5:])
        lcorner = m[2] == "corner 1"
        sp, corner = spec_call(sig, args, kw)
        if sp != lspec or corner != lcorner or m[3] != "wf 1":
            raise RuntimeError(f"harness: Python Spec and Lean specCall differ on {G.pretty_call(sig, args, kw)}: {sp} / {lspec}")
        st.evaluations += 1
        st.inc(f"direct:params={len(sig)}")
        st.inc(f"direct:args={len(args)}")
        st.inc(f"direct:kw={len(kw)}")
        st.inc("direct:outcome=" + ("TypeError" if impl == "TypeError" else "ok"))
        if corner:
            st.inc("direct:corner")
        if nontrivial_call(sig, args, kw):
            st.nontrivial.add(hash((sig, args, kw)))
            if len(st.samples) < 3 and len(sig) >= 3 and kw and impl != "TypeError":
                st.samples.append(dict(call=G.pretty_call(sig, args, kw), received=impl))
        if not satisfies(impl, sp, corner):
            _direct_violation(ctx, st, sig, args, kw, impl, sp, corner, "Spec fails on the implementation")
        elif impl != model:
            # model and code disagree though the Spec holds: look around for a failing input
            found = _widen_direct(sig)
            if found:
                s2, a2, k2, i2, sp2, c2 = found
                _direct_violation(ctx, st, s2, a2, k2, i2, sp2, c2, "Spec fails on the implementation (found near a model disagreement)")
            else:
                _direct_violation(ctx, st, sig, args, kw, impl, f"model={model}", corner,
                                  "corr:C07:direct (callable_method vs SMV.Bind.invoke) no longer checks; theorems C07_receive / C07_receive_exact are about the model", no_input=True)
        else:
            st.validated += 1
        if len(ctx.violations) >= 3:
            return False
    return True


ST_HISTORY = []


def _widen_direct(sig):
    for args, kw in G.call_shapes(sig, 4, 3, unknown=("u1", "u2")):
        f = G.make_function(sig)
        impl = I.impl_direct(f, args, kw)
        sp, corner = spec_call(sig, args, kw)
        if not satisfies(impl, sp, corner):
            return sig, args, kw, impl, sp, corner
    return None


def _direct_violation(ctx, st, sig, args, kw, impl, expected, corner, why, no_input=False):
    st.viol += 1
    f = G.make_function(sig)
    body = [
        f"# kind: {'model-implementation-disagreement' if no_input else 'spec-fails-on-implementation'} (direct)",
        f"# why: {why}",
        "# replay with /venv/bin/python, PYTHONPATH=$VERIF_REPO:",
        "from statemachine.dispatcher import callable_method",
        "_D = '<default>'",
        f._c07_src.rstrip(),
        f"print(callable_method(f)(*{list(args)}, **{dict(kw)}))",
        f"# observed : {impl}",
        f"# expected : {expected}" + ("   (corner: TypeError also accepted)" if corner else ""),
        "# names are printed as ids: " + ", ".join(f"{n}={G.NAME_ID[n]}" for n, _, _ in sig),
        "# same-named functions wrapped earlier in the process (relevant only if the adapter cache confuses them): "
        + "; ".join(f"def f({G.sig_text(h)})" for h in ST_HISTORY),
        "json: " + json.dumps(dict(kind="direct", sig=[list(p) for p in sig], args=list(args), kw=[list(x) for x in kw],
                                   history=[[list(p) for p in h] for h in ST_HISTORY])),
    ]
    h = scn_hash(json.dumps([sig, args, kw]))
    rp = ctx.write_replay(f"direct-{h}.replay.txt", "\n".join(body) + "\n")
    if all(v[0] != rp for v in ctx.violations):
        ctx.violation(rp, why, no_input=no_input)


# ----------------------------------------------------------------------------- anchored-line coverage

def line_coverage(cases):
    """lines of `SignatureAdapter.bind_expected` executed by `cases` / its executable lines"""
    import dis
    import sys
    try:
        from statemachine.signature import SignatureAdapter
        code = SignatureAdapter.bind_expected.__code__
    except Exception:  # noqa: BLE001
        return None
    want = {l for _, l in dis.findlinestarts(code) if l is not None and l > code.co_firstlineno}
    seen = set()

    def local(frame, event, arg):
        if event == "line":
            seen.add(frame.f_lineno)
        return local

    def tracer(frame, event, arg):
        return local if frame.f_code is code else None

    sys.settrace(tracer)
    try:
        for sig, args, kw in cases:
            I.impl_direct(G.make_function(sig), args, kw)
    finally:
        sys.settrace(None)
    missing = sorted(want - seen)
    return dict(function="SignatureAdapter.bind_expected", executable_lines=len(want), executed=len(want & seen),
                not_executed=missing)


# ----------------------------------------------------------------------------- externals

def extern_check(ctx, st, sigs, max_args, max_kw):
    """pyCall vs CPython's call; baArgs/baKwargs vs inspect.BoundArguments"""
    lines, exp = [], []
    for si, sig in enumerate(sigs):
        f = G.make_function(sig)
        for j, (cargs, ckw) in enumerate(G.call_shapes(sig, max_args, max_kw)):
            nm = f"c{si}_{j}"
            lines += I.call_scn(nm, sig, cargs, ckw)
            exp.append((nm, "frame " + I.cpython_call(f, cargs, ckw), sig, ("call", cargs, ckw)))
        names = [n for n, _, _ in sig]
        for mask in range(1 << len(names)):
            present = {n for b, n in enumerate(names) if mask >> b & 1}
            entries = I.arguments_entries(sig, present)
            r = I.cpython_ba(f, entries)
            if r is None:
                continue
            nm = f"b{si}_{mask}"
            lines += I.ba_scn(nm, sig, entries)
            exp.append((nm, r, sig, ("ba", entries)))
    mod = run_driver(lines, **DRV)
    bad = 0
    for nm, want, sig, what in exp:
        got = mod.get(nm, ["<none>"])
        if what[0] == "call":
            got_c = "frame " + G.canon_model_frame(got[0][6:])
            ok = got_c == want
        else:
            ok = tuple(g.rstrip() for g in got) == tuple(want)
        st.evaluations += 1
        st.inc("extern:" + what[0])
        if ok:
            st.validated += 1
        else:
            bad += 1
            if bad <= 2:
                txt = "\n".join([
                    "# kind: model-implementation-disagreement (modelled external)",
                    f"# why: corr:C07:{'call-protocol (pyCall)' if what[0] == 'call' else 'BoundArguments (baArgs/baKwargs)'} no longer checks",
                    f"def f({G.sig_text(sig)})", f"input: {what}", f"CPython: {want}", f"model  : {got}"]) + "\n"
                rp = ctx.write_replay(f"extern-{scn_hash(nm + str(sig))}.replay.txt", txt)
                ctx.violation(rp, "modelled external differs from CPython", no_input=True)
    return bad == 0


# ----------------------------------------------------------------------------- locality (direct)

def locality_direct(ctx, st, rng_tag, n):
    """callables that share every name but differ in signature, wrapped one after the other:
    each must be bound with its own signature (defect D6: cache keyed by names)"""
    from statemachine.dispatcher import callable_method
    import functools
    bad = 0
    for i in range(n):
        rng = random.Random(f"{ctx.seed}:{rng_tag}:{i}")
        # same parameter names in the same order (same co_varnames), different kinds/defaults
        names = tuple(rng.sample(G.USER_NAMES[:7], rng.randint(1, 4)))
        variants = [s for s in G.signatures_upto(len(names), names=names) if len(s) == len(names)]
        sigs = rng.sample(variants, min(len(variants), rng.randint(2, 4)))
        cases = []
        for sig in sigs:
            args, kw = G.random_call(rng, sig, max_args=4)
            cases.append((sig, args, kw))
        # distinct function objects, identical __name__/__qualname__/co_varnames; plus a class each
        for sig, args, kw in cases:
            src = f"class A:\n    def cb(self, {G.sig_text(sig)}):\n        return {G.record_expr(sig)}\n" if sig else \
                "class A:\n    def cb(self):\n        return ()\n"
            ns = {"_D": G.DFLT}
            exec(src, ns)  # noqa: S102
            bound = ns["A"]().cb
            try:
                impl = G.canon_frame(callable_method(bound)(*args, **dict(kw)))
            except TypeError:
                impl = "TypeError"
            sp, corner = spec_call(sig, args, kw)
            st.evaluations += 1
            st.inc("locality:same-class-name-method")
            if nontrivial_call(sig, args, kw):
                st.nontrivial.add(hash(("loc", sig, args, kw)))
            if not satisfies(impl, sp, corner):
                bad += 1
                txt = "\n".join([
                    "# kind: spec-fails-on-implementation (binding depends on another callable's signature)",
                    "# several classes named `A`, each with a method `cb`, wrapped in this order:",
                    *[f"#   def cb(self, {G.sig_text(s)})" for s, _, _ in cases],
                    f"# failing one: def cb(self, {G.sig_text(sig)}) called with *{list(args)} **{dict(kw)}",
                    f"# observed : {impl}", f"# expected : {sp}",
                    "json: " + json.dumps(dict(kind="locality", sigs=[[list(p) for p in s] for s, _, _ in cases],
                                               calls=[[list(a), [list(x) for x in k]] for _, a, k in cases]))]) + "\n"
                rp = ctx.write_replay(f"locality-{scn_hash(txt)}.replay.txt", txt)
                ctx.violation(rp, "binding depends on a foreign signature")
                if len(ctx.violations) >= 3:
                    return False
            else:
                st.validated += 1
        # closures of ONE signature-preserving decorator (functools.wraps): the wrappers share a code
        # object and a qualified name, each must still be bound with the signature of what it wraps
        def _deco(f, with_sig):
            @functools.wraps(f)
            def wrapper(*a, **k):
                return f(*a, **k)
            if with_sig:
                import inspect
                wrapper.__signature__ = inspect.signature(f)
            return wrapper
        for sig, args, kw in cases:
            if not sig:
                continue
            w = _deco(G.make_function(sig, name="cb"), rng.random() < 0.5)
            try:
                impl = G.canon_frame(callable_method(w)(*args, **dict(kw)))
            except TypeError:
                impl = "TypeError"
            sp, corner = spec_call(sig, args, kw)
            st.evaluations += 1
            st.inc("locality:closures-of-one-wraps-decorator")
            if not satisfies(impl, sp, corner):
                txt = "\n".join([
                    "# kind: spec-fails-on-implementation (binding depends on another callable's signature)",
                    "# functions wrapped by one functools.wraps decorator, passed to callable_method in this order:",
                    *[f"#   def cb({G.sig_text(s_)})" for s_, _, _ in cases],
                    f"# failing one: def cb({G.sig_text(sig)}) called with *{list(args)} **{dict(kw)}",
                    f"# observed : {impl}", f"# expected : {sp}"]) + "\n"
                rp = ctx.write_replay(f"locality-{scn_hash(txt)}.replay.txt", txt)
                ctx.violation(rp, "a functools.wraps closure was bound with a foreign signature")
                if len(ctx.violations) >= 3:
                    return False
            else:
                st.validated += 1
        # a bound method whose function takes the instance through `*args` (`def cb(*args, **kwargs)`, a wrapper
        # written without functools.wraps): everything positional after the instance and every keyword arrives
        class _Star:
            def cb(*args, **kwargs):
                return (("args", tuple(args[1:])), ("kwargs", dict(kwargs)))
        ssig = (("args", "vp", False), ("kwargs", "vk", False))
        sargs, skw = G.random_call(rng, ssig, max_args=4)
        try:
            impl = G.canon_frame(callable_method(_Star().cb)(*sargs, **dict(skw)))
        except TypeError:
            impl = "TypeError"
        sp, corner = spec_call(ssig, sargs, skw)
        st.evaluations += 1
        st.inc("locality:bound-method-with-star-args-self")
        if not satisfies(impl, sp, corner):
            txt = "\n".join([
                "# kind: spec-fails-on-implementation (bound method `def cb(*args, **kwargs)`)",
                f"# called through callable_method with *{list(sargs)} **{dict(skw)}",
                f"# observed : {impl}", f"# expected : {sp}"]) + "\n"
            rp = ctx.write_replay(f"locality-{scn_hash(txt)}.replay.txt", txt)
            ctx.violation(rp, "bound method taking the instance through *args lost arguments")
            if len(ctx.violations) >= 3:
                return False
        else:
            st.validated += 1
        # two partials of one function
        base = rng.choice([s for s in variants if s and s[0][1] in ("po", "pk")] or [None])
        if base:
            g = G.make_function(base, name="g")
            p1 = functools.partial(g, 9001)
            kos = [n for n, k, _ in base if k == "ko"]
            p2 = functools.partial(g, 9002, **({kos[0]: 9003} if kos else {}))
            for p, first in ((p1, 9001), (p2, 9002)):
                eff = tuple(base[1:])
                if p is p2 and kos:
                    eff = tuple((n, k, True if n == kos[0] else d) for n, k, d in eff)
                args, kw = G.random_call(rng, eff, max_args=3)
                try:
                    r = callable_method(p)(*args, **dict(kw))
                    r = tuple((n, (G.DFLT if (p is p2 and kos and n == kos[0] and v == 9003) else v)) for n, v in r)
                    impl = G.canon_frame(r[1:]) if r[0][1] == first else f"first-parameter={r[0][1]}"
                except TypeError:
                    impl = "TypeError"
                sp, corner = spec_call(eff, args, kw)
                st.evaluations += 1
                st.inc("locality:partials-of-one-function")
                if not satisfies(impl, sp, corner):
                    txt = "\n".join([
                        "# kind: spec-fails-on-implementation (two functools.partial objects of one function)",
                        f"# def g({G.sig_text(base)}); p1 = partial(g, 9001); p2 = partial(g, 9002{', ' + kos[0] + '=9003' if kos else ''})",
                        f"# failing: {'p1' if p is p1 else 'p2'}(*{list(args)}, **{dict(kw)}) through callable_method",
                        f"# observed : {impl}", f"# expected : {sp}"]) + "\n"
                    rp = ctx.write_replay(f"locality-{scn_hash(txt)}.replay.txt", txt)
                    ctx.violation(rp, "partial bound with a foreign signature")
                    if len(ctx.violations) >= 3:
                        return False
                else:
                    st.validated += 1
    return True


# ----------------------------------------------------------------------------- machines

def _mach_judge(scn, r, mod):
    """-> (expected frames, run, model frames, Spec failures, model/implementation differences)"""
    tokens = r["tokens"]
    exp, run = MA.expected_frames(scn, tokens)
    mfr, _ = MA.model_frames(scn, mod)
    fails, corr = [], []
    if "crash" in r:
        fails.append(f"building/driving the machine raised {r['crash']}")
    te = scn.get("expect_typeerror")
    if te is None:
        if any(r["errors"]):
            fails.append(f"sm.send raised {[e for e in r['errors'] if e][0]} though every callback can be bound")
        for cid in sorted(set(exp) | set(r["frames"])):
            got, want = r["frames"].get(cid, []), exp.get(cid, [])
            if got != want:
                fails.append(f"callback {cid} ({scn['cbs'][cid]['form']}) received {got}, Spec says {want}")
            if mfr.get(cid, []) != got:
                corr.append(f"callback {cid}: implementation {got}, model {mfr.get(cid, [])}")
    else:
        if "TypeError" not in r["errors"]:
            fails.append(f"callback {te} lacks a required argument but sm.send raised nothing")
        for cid, got in r["frames"].items():
            want = exp.get(cid, [])
            if got != want[:len(got)]:
                fails.append(f"callback {cid} received {got}, Spec says a prefix of {want}")
            if mfr.get(cid, [])[:len(got)] != got:
                corr.append(f"callback {cid}: implementation {got}, model {mfr.get(cid, [])}")
    # trigger_data.kwargs never holds a reserved name (observed wherever a callback got event_data)
    for ev, ks in r["tk"]:
        leaked = [k for k in ks if k in G.RESERVED]
        if leaked:
            fails.append(f"event_data.trigger_data.kwargs of event {ev} contains reserved names {leaked}")
    return exp, run, mfr, fails, corr


def _mach_run(scn):
    try:
        r = MA.run_impl(scn)
    except Exception as e:  # noqa: BLE001
        r = dict(crash=f"{type(e).__name__}: {e}", tokens=MA.Tokens(), frames={}, errors=[], tk=[], src=MA.render(scn))
    return r


def _mach_single(scn):
    r = _mach_run(scn)
    mod = run_driver(MA.model_lines(scn, r["tokens"]), **DRV)
    return (r,) + _mach_judge(scn, r, mod)


def _mach_shrink(scn, want_fails):
    """greedy: drop sends from the end, then callbacks, while the same kind of failure persists"""
    def bad(c):
        try:
            MA.check_consistent(c)
            _, _, _, _, fails, corr = _mach_single(c)
        except Exception:  # noqa: BLE001
            return False
        return bool(fails) if want_fails else (bool(corr) and not fails)
    cur = scn
    t0 = time.time()
    changed = True
    while changed and time.time() - t0 < 10:
        changed = False
        for k in range(len(cur["sends"]) - 1, 0, -1):
            c = json.loads(json.dumps(cur))
            del c["sends"][k]
            if bad(c):
                cur, changed = c, True
        for k in range(len(cur["cbs"]) - 1, -1, -1):
            c = MA.drop_cb(cur, k)
            if c is not None and bad(c):
                cur, changed = c, True
    return cur


def machine_batch(ctx, st, scns):
    lines = []
    impls = {}
    for scn in scns:
        r = _mach_run(scn)
        impls[scn["name"]] = r
        lines += MA.model_lines(scn, r["tokens"])
    mod = run_driver(lines, **DRV)
    for scn in scns:
        r = impls[scn["name"]]
        exp, run, mfr, fails, corr = _mach_judge(scn, r, mod)
        st.evaluations += 1
        _mach_distribution(st, scn, run)
        key = scn_hash(MA.scn_json({**scn, "name": ""}))
        if any(nontrivial_call(MA.effective_sig(scn["cbs"][cid]), args, off)
               for _, _, args, _, rows in run for cid, _, off, _, _ in rows):
            st.nontrivial.add(key)
        if len(st.samples) < 6 and not fails and r["frames"] and scn.get("fwd"):
            st.samples.append(dict(machine=r["src"].split("\n")[:30], sends=scn["sends"], fwd=scn["fwd"],
                                   received={k: v for k, v in list(r["frames"].items())[:4]}))
        if fails or corr:
            small = _mach_shrink(scn, bool(fails))
            r2, exp2, _, mfr2, fails2, corr2 = _mach_single(small)
            if fails:
                _mach_violation(ctx, st, small, r2, exp2, mfr2, fails2 or fails, False)
            else:
                _mach_violation(ctx, st, small, r2, exp2, mfr2, corr2 or corr, True)
        else:
            st.validated += 1
        if len(ctx.violations) >= 3:
            return False
    return True


def _mach_distribution(st, scn, run):
    for cb in scn["cbs"]:
        st.inc("mach:form=" + cb["form"])
        st.inc("mach:group=" + cb["at"][2])
        if cb["is_async"]:
            st.inc("mach:coroutine")
    if scn["fwd"]:
        st.inc("mach:forwarded-child-event")
    if scn.get("expect_typeerror") is not None:
        st.inc("mach:legit-typeerror")
    st.inc("mach:sends", len(scn["sends"]))
    for s in scn["sends"]:
        if any(k in G.RESERVED for k, _ in s["kw"]):
            st.inc("mach:send-with-reserved-kwargs")
    st.inc("mach:callback-invocations", sum(len(rows) for *_, rows in run))


def _mach_violation(ctx, st, scn, r, exp, mfr, why, no_input):
    st.viol += 1
    tok = r["tokens"]
    body = ["# kind: " + ("model-implementation-disagreement" if no_input else "spec-fails-on-implementation") + " (machine)",
            "# why: " + " | ".join(why[:4])]
    if no_input:
        body.append("# correspondence corr:C07:machine (callbacks of a real machine vs SMV.Bind.invokeEvent) no longer checks")
    body += ["# token table: " + ", ".join(f"{v}={k}" for k, v in tok.ids.items()),
             "# parameter/keyword names are printed as ids: " + ", ".join(f"{n}={i}" for n, i in G.NAME_ID.items()),
             "# source of the machine (REC(id, …) records what callback `id` received):"]
    body += r["src"].split("\n")
    body += ["# driven with: sm = M(MODEL, listeners=LISTENERS)"]
    body += [(f"#   sm.{s['event']}(*{s['args']}, **{dict(map(tuple, s['kw']))})" if s.get("style") == "method" else
              f"#   sm.send({s['event']!r}, *{s['args']}, **{dict(map(tuple, s['kw']))})") for s in scn["sends"]]
    if scn["fwd"]:
        body.append(f"#   callback {scn['fwd']['cb']} calls sm.send('nxt', *{scn['fwd']['args']}, **kwargs, **{dict(map(tuple, scn['fwd']['kw']))})")
    body += ["# received (implementation): " + json.dumps(r["frames"]), "# errors: " + json.dumps(r["errors"]),
             "# Spec: " + json.dumps(exp), "# model: " + json.dumps(mfr), "json: " + MA.scn_json(scn)]
    rp = ctx.write_replay(f"mach-{scn_hash(MA.scn_json(scn))}.replay.txt", "\n".join(body) + "\n")
    ctx.violation(rp, why[0], no_input=no_input)


# ----------------------------------------------------------------------------- layering (EventData.extended_kwargs)

def layering_check(ctx, st, n):
    """`EventData.extended_kwargs` on a `TriggerData` built by hand, whose keywords may carry reserved
    names (the filter in `Event.__call__` bypassed): the built-ins are assigned last. Uses the documented
    dataclasses `TriggerData`/`EventData`, only when importable; model `extendedKwargs` (theorem C07_layering)."""
    try:
        from statemachine import State, StateMachine
        from statemachine.event_data import EventData, TriggerData
    except ImportError:
        return True

    class M(StateMachine):
        s0 = State(initial=True)
        s1 = State(final=True)
        go = s0.to(s1)

    sm = M()
    tr = M.s0.transitions[0]
    lines, cases = [], []
    for i in range(n):
        rng = random.Random(f"{ctx.seed}:C07lay:{i}")
        cand = list(G.RESERVED) + G.USER_NAMES[:5]
        rng.shuffle(cand)
        kw = [(k, 500 + G.NAME_ID[k]) for k in cand[:rng.randint(0, 8)]]
        td = TriggerData(machine=sm, event=M.go, args=(), kwargs=dict(kw))
        ed = EventData(trigger_data=td, transition=tr)
        ek = ed.extended_kwargs
        want = {"event_data": ed, "machine": sm, "event": M.go, "model": sm.model, "transition": tr,
                "state": tr.source, "source": tr.source, "target": tr.target}
        obs = []
        for k, v in ek.items():
            if k in want:
                obs.append((k, 300 + G.NAME_ID[k] if v is want[k] else (v if isinstance(v, int) else -1)))
            else:
                obs.append((k, v))
        impl = ",".join(f"{G.NAME_ID[k]}:{v}" for k, v in sorted(obs, key=lambda e: G.NAME_ID[e[0]]))
        spec = dict(kw)
        spec.update({r: 300 + G.NAME_ID[r] for r in G.RESERVED})
        sp = ",".join(f"{G.NAME_ID[k]}:{v}" for k, v in sorted(spec.items(), key=lambda e: G.NAME_ID[e[0]]))
        lines += [f"scn layer l{i}", G.kw_line(kw), "b " + " ".join(f"{G.NAME_ID[r]}={300 + G.NAME_ID[r]}" for r in G.RESERVED), "end"]
        cases.append((kw, impl, sp, dict(td.kwargs) == dict(kw)))
    mod = run_driver(lines, **DRV)
    for i, (kw, impl, sp, untouched) in enumerate(cases):
        m = mod.get(f"l{i}", ["ek "])[0][3:]
        m = ",".join(sorted((e for e in m.split(",") if e), key=lambda e: int(e.split(":")[0])))
        st.evaluations += 1
        st.inc("layering")
        if any(k in G.RESERVED for k, _ in kw):
            st.nontrivial.add(hash(("lay", tuple(kw))))
        if impl != sp or not untouched:
            txt = "\n".join([
                "# kind: spec-fails-on-implementation (EventData.extended_kwargs)",
                "# why: a built-in name is overridden by a keyword stored in trigger_data.kwargs" if untouched else
                "# why: extended_kwargs modified trigger_data.kwargs",
                "# class M(StateMachine): s0 = State(initial=True); s1 = State(); go = s0.to(s1)",
                "# sm = M(); tr = M.s0.transitions[0]",
                f"# ed = EventData(trigger_data=TriggerData(machine=sm, event=M.go, args=(), kwargs={dict(kw)}), transition=tr)",
                "# ed.extended_kwargs, with the genuine built-in objects written as 300+id and names as ids:",
                f"# observed : {impl}", f"# expected : {sp}"]) + "\n"
            rp = ctx.write_replay(f"layer-{scn_hash(txt)}.replay.txt", txt)
            ctx.violation(rp, "built-in overridden in extended_kwargs")
            return False
        if m != impl:
            txt = (f"# kind: model-implementation-disagreement\n# corr:C07:extended_kwargs vs SMV.Bind.extendedKwargs no longer checks\n"
                   f"# kwargs={dict(kw)}\n# implementation: {impl}\n# model: {m}\n")
            rp = ctx.write_replay(f"layer-{scn_hash(txt)}.replay.txt", txt)
            ctx.violation(rp, "extended_kwargs differs from the model", no_input=True)
            return False
        st.validated += 1
    return True


# ----------------------------------------------------------------------------- corpus / replay

def load_cases(paths):
    direct, mach = [], []
    for p in paths:
        for l in open(p):
            if l.startswith("json: "):
                j = json.loads(l[6:])
                if j.get("kind") == "direct":
                    direct.append((tuple(tuple(x) for x in j["sig"]), tuple(j["args"]), tuple(tuple(x) for x in j["kw"]),
                                   [tuple(tuple(x) for x in h) for h in j.get("history", [])]))
                elif "cbs" in j:
                    mach.append(j)
    return direct, mach


# ----------------------------------------------------------------------------- entry

def probe_forward_through_send(ctx):
    """recorded finding D24: a callback that forwards its whole **kwargs to a child event with
    `self.send(name, **kwargs)` gets a TypeError, because the injected built-in `event` collides with
    the parameter name of `send` (the event-method style `self.nxt(**kwargs)` works)."""
    import warnings
    from framework import known_findings
    from statemachine import State, StateMachine
    with warnings.catch_warnings():
        warnings.simplefilter("ignore")

        class M(StateMachine):
            s0 = State(initial=True)
            s1 = State()
            s2 = State(final=True)
            go = s0.to(s1)
            nxt = s1.to(s2)

            def on_go(self, **kwargs):
                self.send("nxt", **kwargs)
    try:
        sm = M()
        sm.send("go", x=1)
        failed = sm.current_state.id != "s2"
        what = f"ended in {sm.current_state.id}"
    except TypeError as e:
        failed, what = True, f"TypeError: {e}"
    if not failed:
        return
    known = [k for k in known_findings("C07") if k.get("status") == "known"
             and k.get("exclusion") == "forward-kwargs-through-send"]
    if known:
        ctx.known_printed.append(known[0]["what"] + f" [{what}]")
    else:
        rp = ctx.write_replay("d24_forward_kwargs_through_send.txt", what + "\n")
        ctx.violation(rp, "forwarding **kwargs through sm.send raises TypeError")


def probe_internal_names(seed):
    """Directed family: user keyword arguments named like something *inside the library*. Every identifier that is a
    parameter of some function or method of the `statemachine` package (read from its source with `ast`: `key`,
    `left`, `right`, `spec`, `callback`, `args`, `kwargs`, `func`, `value`, `instance`, ...) is sent as a user keyword
    through a machine that uses guard expressions, validators, named / inline / decorated actions, a listener, a model
    and an event used as a callback. Unless it is one of the 8 reserved names, a callback declaring `**kwargs` gets it
    with its value, and a callback declaring it as a parameter gets it too. (`self` cannot be passed as a keyword to
    any bound method in Python; `event` through `send()` is the recorded finding D24 — the event method is used.)"""
    import ast
    import glob
    import random
    import warnings
    import statemachine
    from statemachine import State, StateMachine
    RESERVED = {"event_data", "machine", "event", "model", "transition", "state", "source", "target"}
    root = os.path.dirname(statemachine.__file__)
    names = set()
    for fn in glob.glob(os.path.join(root, "**", "*.py"), recursive=True):
        try:
            tree = ast.parse(open(fn).read())
        except SyntaxError:
            continue
        for node in ast.walk(tree):
            if isinstance(node, (ast.FunctionDef, ast.AsyncFunctionDef, ast.Lambda)):
                a = node.args
                for x in a.posonlyargs + a.args + a.kwonlyargs + [y for y in (a.vararg, a.kwarg) if y]:
                    names.add(x.arg)
    names -= {"self", "cls"}
    names = sorted(n for n in names if n.isidentifier())
    rng = random.Random(f"{seed}:internal-names")
    fails = []
    got = {}
    with warnings.catch_warnings():
        warnings.simplefilter("ignore")

        class Lst:
            def after_go(self, **kw):
                got["listener"] = kw

        class Mdl:
            state = None
            flag_b = False

            def before_go(self, **kw):
                got["model"] = kw

        def inline(**kw):
            got["inline"] = kw

        class IN(StateMachine):
            s1 = State(initial=True)
            s2 = State()
            go = s1.to(s2, cond="flag_a and not flag_b", unless="flag_b or flag_c", validators="check",
                       on=["do", inline], after="back") | s2.to(s1, cond="flag_a")
            back = s2.to(s1)
            flag_a = True
            flag_c = False

            def check(self, **kw):
                got["validator"] = kw

            def do(self, **kw):
                got["on"] = kw

            @go.before
            def deco(self, *args, **kw):
                got["decorated"] = kw
        for name in names:
            val = rng.randint(1, 10 ** 6)
            got.clear()
            sm = IN(Mdl(), listeners=[Lst()])
            try:
                sm.go(**{name: val})
            except Exception as e:
                fails.append(f"user keyword `{name}`: {type(e).__name__}: {str(e)[:120]}")
                continue
            for where in ("validator", "on", "inline", "decorated", "model", "listener"):
                kw = got.get(where)
                if kw is None:
                    fails.append(f"user keyword `{name}`: the `{where}` callback did not run")
                    break
                if name in RESERVED:
                    if kw.get(name) == val:
                        fails.append(f"reserved name `{name}` given by the user reached the `{where}` callback")
                        break
                elif kw.get(name) != val:
                    fails.append(f"user keyword `{name}`={val}: the `{where}` callback got {kw.get(name)!r}")
                    break
            # a callback that declares the name as a parameter
            if name not in RESERVED and name not in ("args", "kwargs") and not fails:
                ns = {}
                exec(f"def cb(self, {name}=None):\n    seen.append({name})", {"seen": (seen := [])}, ns)

                class P(StateMachine):
                    s1 = State(initial=True)
                    s2 = State(final=True)
                    go = s1.to(s2, on="cb")
                    cb = ns["cb"]
                try:
                    P().go(**{name: val})
                    if seen != [val]:
                        fails.append(f"parameter `{name}` of a callback got {seen}, the user sent {val}")
                except Exception as e:
                    fails.append(f"callback parameter `{name}`: {type(e).__name__}: {str(e)[:120]}")
    return len(names), fails


def run(ctx):
    lean_obligations(ctx)
    nn, nf = safe_probe(probe_internal_names, ctx.seed, pair=True)
    ctx.coverage["internal_parameter_names_sent_as_user_keywords"] = nn
    if nf:
        ctx.violation(ctx.write_replay("internal_names.txt", "\n".join(nf[:15]) + "\n"), nf[0][:200])
    b = subprocess.run(["lake", "build", "drv_bind"], cwd=LEAN, capture_output=True, text=True)
    if b.returncode != 0:
        raise RuntimeError("drv_bind does not build: " + (b.stdout + b.stderr)[-800:])
    st = Stats()
    quick = ctx.tier == "quick"
    ctx.assumptions += [
        "modelled externals: inspect.signature / Signature.from_callable (the harness hands the model the kinds, names and "
        "defaults that inspect reports), inspect.BoundArguments.args/.kwargs and the CPython call protocol (compared with "
        "CPython itself on every run: kinds `ba`, `call`), dict semantics (association lists; baKwargs_nodup)",
        "WeakKeyDictionary: an adapter is cached per live function object; identity determines the signature (hypothesis of C07_local)",
        "values are opaque tokens; default values are one token `dflt`; annotations and return annotations are not modelled",
        "which callbacks run for an event and in which phase is taken from the scenario (C01/C02's subject), C07 checks what each one receives",
    ]
    ctx.coverage["rule"] = (
        "an evaluation is one (signature, call) pair bound by the real code (direct), one CPython call/BoundArguments "
        "query (extern), or one machine scenario (2-8 callbacks x 2-5 events); non-trivial = the call has surplus "
        "positionals, or unknown/reserved keywords, or a keyword naming a positional parameter, or a keyword-only / "
        "*args / **kwargs parameter (machines: some callback invocation is such a call); distinct = hash of "
        "(signature, args, keywords) resp. of the scenario JSON")

    def done():
        ctx.coverage.update(
            evaluations=st.evaluations, distinct_nontrivial=len(st.nontrivial),
            traces_validated_against_impl=st.validated, samples=st.samples, distribution=st.dist,
            timings_s=st.t, exhaustive=False,
            exhaustive_part=("direct: every signature with <= %d parameters x <= %d positionals x every subset of "
                             "<= %d keywords out of the parameter names + %d unknown name(s), enumerated completely"
                             % ((4, 3, 2, 1) if quick else (5, 4, 3, 2))))

    # 0. replay / corpus
    t0 = time.time()
    if not ctx.replay:
        from framework import run_py_corpus
        run_py_corpus(ctx)
    paths = []
    if ctx.replay:
        paths = [ctx.replay if os.path.isabs(ctx.replay) else os.path.join(VERIF, ctx.replay)]
    else:
        cdir = os.path.join(VERIF, "corpus", "C07")
        if os.path.isdir(cdir):
            paths = [os.path.join(cdir, f) for f in sorted(os.listdir(cdir)) if not f.endswith(".py")]
    d, m = load_cases(paths)
    ok = True
    if d:
        ok = direct_batch(ctx, st, d, "corpus", two_step=True)
    if ok and m:
        ok = machine_batch(ctx, st, m)
    st.inc("corpus", len(d) + len(m))
    st.t["corpus"] = round(time.time() - t0, 2)
    if ctx.replay or not ok:
        return done()

    # 1. modelled externals against CPython
    t0 = time.time()
    sigs = list(G.signatures_upto(3 if quick else 4))
    if not extern_check(ctx, st, sigs, 3, 2):
        return done()
    st.t["extern"] = round(time.time() - t0, 2)

    # 2. direct, exhaustive small scope
    t0 = time.time()
    n, ma, mk, unk = (4, 3, 2, ("u1",)) if quick else (5, 4, 3, ("u1", "u2"))
    batch = []
    for sig in G.signatures_upto(n):
        for args, kw in G.call_shapes(sig, ma, mk, unknown=unk):
            batch.append((sig, args, kw))
            if len(batch) >= 20000:
                if not direct_batch(ctx, st, batch, "exh"):
                    return done()
                batch = []
    if batch and not direct_batch(ctx, st, batch, "exh"):
        return done()
    st.t["direct_exhaustive"] = round(time.time() - t0, 2)
    ctx.coverage["anchored_line_coverage"] = line_coverage(
        [(sig, a, k) for sig in G.signatures_upto(3) for a, k in G.call_shapes(sig, 3, 2)])

    # 3. direct, random larger signatures with names from user ∪ reserved pools; both entry points
    t0 = time.time()
    target = 30000 if quick else 300000
    i = 0
    while i < target and ctx.left() > 25:
        batch = []
        for _ in range(2000):
            rng = random.Random(f"{ctx.seed}:C07d:{i}")
            sig = G.random_sig(rng, max_params=7, name_pool=G.USER_NAMES[:11], p_reserved=0.2)
            args, kw = G.random_call(rng, sig, max_args=6, extra_names=G.RESERVED[:3])
            batch.append((sig, args, kw))
            i += 1
        if not direct_batch(ctx, st, batch, "rnd", two_step=True):
            return done()
    st.t["direct_random"] = round(time.time() - t0, 2)

    # 4. binding depends only on the callable's own signature
    t0 = time.time()
    if not locality_direct(ctx, st, "C07loc", 500 if quick else 6000):
        return done()
    st.t["locality"] = round(time.time() - t0, 2)

    # 5. layering on hand-made TriggerData
    t0 = time.time()
    if not layering_check(ctx, st, 300 if quick else 5000):
        return done()
    st.t["layering"] = round(time.time() - t0, 2)

    # 6. through real machines
    t0 = time.time()
    target = 2500 if quick else 30000
    i = 0
    while i < target and ctx.left() > 8:
        scns = []
        for _ in range(100):
            rng = random.Random(f"{ctx.seed}:C07m:{i}")
            scns.append(MA.gen_scenario(rng, f"m{ctx.seed}-{i}"))
            i += 1
        if not machine_batch(ctx, st, scns):
            return done()
    st.t["machines"] = round(time.time() - t0, 2)
    st.inc("mach:scenarios", i)
    probe_forward_through_send(ctx)
    done()
