"""C16 — machines are isolated from other instances, classes and definitions."""
import copy
import os
import random
import runpy
import warnings

import eng
import gen
import world as W
from common import VERIF, first_diff, run_driver
from framework import known_findings, lean_obligations, scn_hash, safe_probe

PROFILE = gen.Profile(
    max_states=4, extra_trans=(1, 5), p_multi_event=0.3,
    p_group=dict(validators=0.2, cond=0.35, unless=0.2, before=0.35, on=0.4, after=0.35, enter=0.4, exit=0.35),
    max_per_group=2, p_conv=0.3, styles=("name", "name", "callable", "decorator"),
    providers=("machine", "model", "L0", "L1"),
    p_nested=0.3, p_raise=0.1, p_validator_raise=0.1, p_unknown_event=0.08, n_ops=(3, 8),
    p_rtc_off=0.25, p_allow=0.3, p_cur0=0.2, p_start=0.3, p_activate=0.05,
    p_attr=0.35, p_model_shape=0.35, p_listener_kind=0.45,
)
PROFILE_ASYNC = gen.Profile(**{**PROFILE.__dict__, "p_coro": 0.35, "drivers": ("facade", "loop")})

RULE = ("seeded random worlds: 1-3 machine classes (70%: all named `M`; twins = same class and callback names "
        "with re-drawn signatures and def/async-def flipped), subclasses that add convention callbacks on the "
        "machine or the model, 1-2 instances per class with their own model, listeners, options (rtc, allow, "
        "start_value, stored state), behaviour tables and histories; all operations merged in a random order "
        "(classes are defined when their first instance is created, i.e. in the middle of the others' histories; "
        "base-first and subclass-first); operations of one machine executed from inside a callback of another; "
        "no-loop and in-loop drivers. Every instance's observation is compared with the Lean model of that "
        "instance alone (C16_frame) and with the same instance run alone on the implementation. "
        "non-trivial = the world has >=2 instances whose classes share a class name or a callback name, or a "
        "subclass, and their operations are interleaved")


def member_model(ms):
    lines = []
    for m in ms:
        lines += eng.model_lines(m.scn)
    out = run_driver(lines)
    return [eng.model_obs(m.scn, out.get(m.scn.name, ["<no model output>"])) for m in ms]


def check_world(w):
    """Returns list of (member index, kind, what) ; kind = 'spec' (differs from its solo run, which
    agrees with the model), 'corr' (solo run and model disagree)."""
    W.normalize_world(w)
    obs = W.run_world(w)
    models = member_model(w.members)
    fails = []
    for mi, m in enumerate(w.members):
        a = eng.canon(obs[mi])
        if a and a[0].startswith("DEFERR"):
            continue
        c = models[mi]
        d = first_diff(a, c)
        if d is None:
            continue
        solo = eng.canon(W.run_world(w, only=[mi])[mi])
        if first_diff(solo, c) is None:
            fails.append((mi, "spec", f"instance {mi} ({m.scn.name}) behaves differently in the world than alone: "
                                      f"line {d[0]}: world `{d[1]}` alone/model `{d[2]}`"))
        else:
            d2 = first_diff(solo, c)
            fails.append((mi, "corr", f"instance {mi} ({m.scn.name}) alone differs from the model: line {d2[0]}: "
                                      f"impl `{d2[1]}` model `{d2[2]}`"))
    return fails, obs, models


def drop_member(w, k):
    c = copy.deepcopy(w)
    c.order = [x for x in c.order if x != k]
    c.cross = [x for x in c.cross if x[0] != k and x[3] != k]
    # keep indices stable: the member stays in the list but never runs
    c.members[k].scn.ops = []
    return c


def shrink(w, mi, kind):
    def bad(c):
        try:
            f, _, _ = check_world(c)
        except Exception:
            return False
        return any(x[0] == mi and x[1] == kind for x in f)
    cur = w
    for k in range(len(w.members)):
        if k != mi and cur.members[k].scn.ops:
            c = drop_member(cur, k)
            if bad(c):
                cur = c
    # drop trailing operations of the other members
    changed = True
    while changed:
        changed = False
        for pos in range(len(cur.order) - 1, -1, -1):
            k = cur.order[pos]
            if k == mi:
                continue
            # only the last operation of a member can be dropped without renumbering
            if pos != max(i for i, x in enumerate(cur.order) if x == k):
                continue
            c = copy.deepcopy(cur)
            del c.order[pos]
            c.members[k].scn.ops = c.members[k].scn.ops[:-1]
            if c.members[k].scn.ops and bad(c):
                cur, changed = c, True
                break
    if cur.cross:
        c = copy.deepcopy(cur)
        c.cross = []
        if bad(c):
            cur = c
    return cur


def describe(w, obs, models, fails):
    out = ["# C16 replay: a world of machine classes and instances; every instance must behave as it does alone",
           "# why: " + " | ".join(x[2] for x in fails),
           f"# loop={w.loop} order={w.order} cross(host,cb,tid,guest)={w.cross}"]
    for fi, f in enumerate(w.families):
        out.append(f"## family {fi}: class {f.cls_name} base={f.base} extra callbacks={f.extra_cbs} "
                   f"async={f.scn.is_async()}")
        out += ["   " + l for l in eng.model_lines(f.scn)[2:] if l.startswith(("state", "trans"))]
        out += [f"   cb {c.id} {c.group} {c.style} {c.provider} {c.name} sig={c.sig}{list(c.named)} coro={int(c.coro)}"
                for c in f.scn.cbs]
    for mi, m in enumerate(w.members):
        out.append(f"## member {mi}: family {m.fam} rtc={m.scn.rtc} allow={m.scn.allow} start={m.scn.start} "
                   f"cur0={m.scn.cur0} ops={m.scn.ops}")
        out.append("### observed in the world")
        out += eng.canon(obs.get(mi, []))
        out.append("### model (alone)")
        out += models[mi]
    out += ["## world json", W.world_to_json(w)]
    return "\n".join(out) + "\n"


def nontrivial(w):
    live = [mi for mi, m in enumerate(w.members) if m.scn.ops]
    if len(live) < 2:
        return False
    # interleaved?
    seq = [x for x in w.order]
    switches = sum(1 for a, b in zip(seq, seq[1:]) if a != b)
    if switches < 2:
        return False
    fams = {w.members[mi].fam for mi in live}
    names = [w.families[f].cls_name for f in fams]
    if len(set(names)) < len(names):
        return True
    if any(w.families[f].base is not None for f in fams):
        return True
    cbn = [set(c.name for c in w.families[f].scn.cbs) for f in fams]
    return len(fams) >= 2 and any(a & b for i, a in enumerate(cbn) for b in cbn[i + 1:])


# ---- recorded findings ------------------------------------------------------------------------

def probe_d7():
    """a subclass that declares a transition out of an inherited state changes the base class"""
    from statemachine import State, StateMachine
    with warnings.catch_warnings():
        warnings.simplefilter("ignore")

        class Base(StateMachine):
            a = State(initial=True)
            b = State()
            go = a.to(b)
            back = b.to(a)

        before = [t.event for t in Base.a.transitions]
        sm = Base()

        class Sub(Base):
            extra = Base.a.to(Base.b)

        after = [t.event for t in Base.a.transitions]
        what = f"Base.a.transitions events {before} -> {after}"
        try:
            sm.send("extra")
            what += "; Base().send('extra') accepted"
            bad = True
        except Exception as e:
            bad = after != before
            what += f"; send('extra') -> {type(e).__name__}"
        try:
            Base().allowed_events
        except AttributeError as e:
            what += f"; Base().allowed_events raises AttributeError"
            bad = True
    return bad, what


def probe_d7c():
    """a subclass that gives an inherited event a second name renames it in the base class"""
    from statemachine import State, StateMachine
    with warnings.catch_warnings():
        warnings.simplefilter("ignore")

        class Base(StateMachine):
            a = State(initial=True)
            b = State()
            go = a.to(b)
            back = b.to(a)

        before = [t.event for t in Base.a.transitions]
        old = Base()
        old.go()
        old.back()

        class Sub(Base):
            again = Base.go

        after = [t.event for t in Base.a.transitions]
        what = f"Base.a.transitions events {before} -> {after}"
        bad = after != before
        for label, sm in (("an instance made before the subclass", old), ("Base()", Base())):
            try:
                sm.go()
            except Exception as e:
                what += f"; {label}: go() -> {type(e).__name__}"
                bad = True
        try:
            Base().allowed_events
        except AttributeError:
            what += "; Base().allowed_events raises AttributeError"
            bad = True
    return bad, what


def make_world(seed, i):
    rng = random.Random(f"{seed}:C16:{i}")
    P = PROFILE_ASYNC if rng.random() < 0.35 else PROFILE
    return W.gen_world(rng, P, f"C16-{seed}-{i}")


def _screen(args):
    """thorough tier, worker process: does world `i` show any failure? (judged and reported by the parent)"""
    seed, i = args
    w = make_world(seed, i)
    try:
        fails, obs, models = check_world(w)
    except Exception:
        return (i, True, None, 0, 0)
    return (i, bool(fails), scn_hash(W.world_to_json(w)) if nontrivial(w) else None, len(w.members), len(w.order))


def screen_parallel(ctx, stats, nontriv, n, budget):
    """split `n` world indices over worker processes; returns the indices that need a closer look"""
    import multiprocessing as mp
    import time
    jobs = int(os.environ.get("VERIF_JOBS", "0") or 0) or min(16, os.cpu_count() or 1)
    bad = []
    t0 = time.time()
    with mp.get_context("fork").Pool(jobs) as pool:
        for (i, failed, h, nm, nops) in pool.imap_unordered(_screen, [(ctx.seed, i) for i in range(n)], chunksize=20):
            stats["worlds"] += 1
            stats["members" if "members" in stats else "clones"] += nm
            if "ops" in stats:
                stats["ops"] += nops
            if h:
                nontriv.add(h)
            if failed:
                bad.append(i)
            if time.time() - t0 > budget or len(bad) >= 6:
                pool.terminate()
                break
    ctx.coverage["workers"] = jobs
    return sorted(bad)


def probe_shared_ingredients(seed, n):
    """Directed family: two *unrelated* machine classes built from shared ingredients that are not machines — one plain
    function object used as an inline callable by one class and as a method of a provider (listener / model / the
    machine class itself) of the other; one Enum handed to `States.from_enum` by both; one function used as a guard
    by a base class and overridden as a method in its subclass. Each machine, run after the other one has been defined
    / instantiated / run (in either order), leaves exactly the trace it leaves alone."""
    import random
    import warnings
    from enum import Enum
    from statemachine import State, StateMachine
    from statemachine.states import States
    fails, cases = [], 0

    class Status(Enum):
        draft = 1
        review = 2
        published = 3

    def trace_of(thunk):
        try:
            return thunk()
        except Exception as e:      # noqa: BLE001
            return f"{type(e).__name__}: {e}"

    for i in range(n):
        rng = random.Random(f"{seed}:shared:{i}")
        kind = ("function", "enum", "override")[i % 3]
        first = rng.choice(["A", "B"])
        cases += 1
        with warnings.catch_warnings():
            warnings.simplefilter("ignore")
            if kind == "function":
                role = rng.choice(["listener", "model", "machine"])
                grp = rng.choice(["before", "on", "after"])
                def world():
                    """one function object, the two classes that use it, and their runners"""
                    log = []

                    def stamp(owner=None, source=None, target=None):
                        log.append((type(owner).__name__, getattr(source, "id", None), getattr(target, "id", None)))
                        return "stamped"

                    def mk_a():
                        class Ticket(StateMachine):
                            new = State(initial=True)
                            closed = State(final=True)
                            close = new.to(closed, **{grp: stamp})
                        return Ticket

                    def mk_b():
                        conv = f"{grp}_transition"
                        Holder = type("Journal", (), {conv: stamp, "state": None})
                        ns = dict(shut=State(initial=True), opened=State(final=True))
                        ns["open"] = ns["shut"].to(ns["opened"])
                        if role == "machine":
                            ns[conv] = stamp
                        Door = type("Door", (StateMachine,), ns)
                        return Door, Holder

                    def run_a(T):
                        log.clear()
                        T().close()
                        return list(log)

                    def run_b(DB):
                        D, H = DB
                        log.clear()
                        sm = D(listeners=[H()]) if role == "listener" else D(H()) if role == "model" else D()
                        sm.open()
                        return list(log)
                    return mk_a, mk_b, run_a, run_b
                mk_a, mk_b, run_a, run_b = world()
                alone_a = trace_of(lambda: run_a(mk_a()))
                mk_a, mk_b, run_a, run_b = world()
                alone_b = trace_of(lambda: run_b(mk_b()))
                mk_a, mk_b, run_a, run_b = world()
                A, B = mk_a(), mk_b()
                if first == "A":
                    ta = trace_of(lambda: run_a(A))
                    tb = trace_of(lambda: run_b(B))
                else:
                    tb = trace_of(lambda: run_b(B))
                    ta = trace_of(lambda: run_a(A))
                what = f"one function as inline `{grp}` of Ticket and as `{grp}_transition` of Door's {role}, {first} first"
            elif kind == "enum":
                use_inst = rng.random() < 0.5

                def mk_a():
                    class Editorial(StateMachine):
                        st = States.from_enum(Status, initial=Status.draft, final=Status.published,
                                              use_enum_instance=use_inst)
                        submit = st.draft.to(st.review)
                        approve = st.review.to(st.published)
                    return Editorial

                def mk_b():
                    class Express(StateMachine):
                        st = States.from_enum(Status, initial=Status.draft, final=Status.published,
                                              use_enum_instance=use_inst)
                        fast_track = st.draft.to(st.published)
                        park = st.draft.to(st.review)
                        unpark = st.review.to(st.draft) | st.review.to(st.published, cond="never")
                        never = False
                    return Express

                def run_cls(M, evs):
                    sm = M()
                    out = []
                    for e in evs:
                        try:
                            sm.send(e)
                            out.append(sm.current_state.id)
                        except Exception as ex:     # noqa: BLE001
                            out.append(type(ex).__name__)
                    return out + [sorted(e.id for e in sm.allowed_events) if not sm.current_state.final else []]
                ea = ["fast_track", "park", "submit", "unpark", "approve"]
                eb = ["submit", "park", "approve", "unpark", "fast_track"]
                alone_a = trace_of(lambda: run_cls(mk_a(), ea))
                alone_b = trace_of(lambda: run_cls(mk_b(), eb))
                if first == "A":
                    A = mk_a()
                    B = mk_b()
                else:
                    B = mk_b()
                    A = mk_a()
                ta = trace_of(lambda: run_cls(A, ea))
                tb = trace_of(lambda: run_cls(B, eb))
                what = f"two classes over one Enum (use_enum_instance={use_inst}), {first} defined first"
            else:
                def allowed(self):
                    return True

                def mk_a():
                    class Base(StateMachine):
                        a = State(initial=True)
                        b = State(final=True)
                        go = a.to(b, cond=allowed)
                    return Base

                def run_base(Bs):
                    sm = Bs()
                    try:
                        sm.go()
                        return sm.current_state.id
                    except Exception as ex:     # noqa: BLE001
                        return type(ex).__name__
                alone_a = trace_of(lambda: run_base(mk_a()))
                A = mk_a()

                class Sub(A):
                    def allowed(self):      # a method of the same name: the inline guard of the base is the *function*
                        return False
                alone_b = tb = None
                if first == "B":
                    trace_of(lambda: run_base(Sub))
                ta = trace_of(lambda: run_base(A))
                what = f"a guard function of the base class, a method of that name in a subclass ({'subclass used first' if first == 'B' else 'base used first'})"
        if ta != alone_a or tb != alone_b:
            fails.append(f"{what}: alone {alone_a} / {alone_b}; next to the other one {ta} / {tb}")
    return cases, fails


def probe_threads_async_facade(seed, cases=3):
    """Two unrelated machines with coroutine callbacks, each driven from synchronous code in a thread of its own. While
    a callback of the first is still running (it waits until it sees the second machine move), the second machine's
    event is processed: driving one instance never holds up another. Direct Spec on the implementation."""
    import asyncio
    import random
    import threading
    import time
    import warnings
    from statemachine import State, StateMachine
    fails = []
    for k in range(cases):
        rng = random.Random(f"{seed}:threads-async:{k}")
        same_class = rng.random() < 0.5
        started = threading.Event()
        box = {"moved": False, "saw": None, "b_took": None, "errors": []}

        def mk(name, waiter):
            async def on_go(self):
                if self.role == "waiter":
                    started.set()
                    for _ in range(400):
                        if box["moved"]:
                            break
                        await asyncio.sleep(0.01)
                    box["saw"] = box["moved"]
                else:
                    await asyncio.sleep(0)
                    box["moved"] = True
                return self.role
            ns = dict(a=State(initial=True), b=State())
            ns["go"] = ns["a"].to(ns["b"])
            ns["back"] = ns["b"].to(ns["a"])
            ns["on_go"] = on_go
            ns["role"] = waiter
            return type(StateMachine)(name, (StateMachine,), ns)
        with warnings.catch_warnings():
            warnings.simplefilter("ignore")
            A = mk("Waits", "waiter")
            B = A if same_class else mk("Moves", "mover")
            sa, sb = A(), B()
            if same_class:
                sb.role = "mover"

        def t1():
            try:
                sa.send("go")
            except Exception as e:  # noqa: BLE001
                box["errors"].append(f"waiter: {type(e).__name__}: {e}")

        def t2():
            try:
                if not started.wait(10):
                    box["errors"].append("the first machine's callback never started")
                    return
                t = time.time()
                sb.send("go")
                box["b_took"] = time.time() - t
            except Exception as e:  # noqa: BLE001
                box["errors"].append(f"mover: {type(e).__name__}: {e}")
        th = [threading.Thread(target=t1, daemon=True), threading.Thread(target=t2, daemon=True)]
        for x in th:
            x.start()
        for x in th:
            x.join(30)
        what = f"case {k} ({'instances of one class' if same_class else 'two classes'})"
        if any(x.is_alive() for x in th):
            fails.append(f"{what}: the two senders did not come back within 30 s (each machine waits for the other)")
            continue
        if box["errors"]:
            fails.append(f"{what}: {box['errors'][0]}")
            continue
        if box["saw"] is not True:
            fails.append(f"{what}: while a callback of the first machine was running (4 s), the event sent to the second "
                         f"machine from another thread was not processed (its send took {box['b_took']:.2f} s)")
        if sa.current_state.id != "b" or sb.current_state.id != "b":
            fails.append(f"{what}: final states {sa.current_state.id!r}, {sb.current_state.id!r}")
    return fails


def probe_copies_leave_originals_alone(seed, cases=30):
    """Copies are other instances: (a) a copy of a machine whose triggers were bound onto its model
    (`bind_events_to`, what `MachineMixin.bind_events_as_methods` does) is driven through the *copy's* model — the
    original does not move; (b) classes declared in local scopes under one name (a factory returning one machine class
    per configuration): a copy of an instance of the earlier class is an instance of *that* class, whatever was defined
    since."""
    import copy
    import pickle
    import random
    import warnings
    from statemachine import State, StateMachine
    fails = []

    def factory(tag, extra):
        with warnings.catch_warnings():
            warnings.simplefilter("ignore")
            if extra:
                class Workflow(StateMachine):
                    draft = State(initial=True)
                    review = State()
                    done = State(final=True)
                    submit = draft.to(review)
                    approve = review.to(done)

                    def on_submit(self):
                        return tag
            else:
                class Workflow(StateMachine):
                    draft = State(initial=True)
                    published = State(final=True)
                    submit = draft.to(published)

                    def on_submit(self):
                        return tag
        return Workflow
    for k in range(cases):
        rng = random.Random(f"{seed}:copies-alone:{k}")
        how = rng.choice(["deepcopy", "deepcopy-model", "copy-module-level-pickle"])
        try:
            if rng.random() < 0.5:
                # (a)
                W = factory("a", True)
                m = type("Mdl", (), {})()
                sm = W(m)
                sm.bind_events_to(m)
                if how == "deepcopy-model":
                    m2 = copy.deepcopy(m)
                else:
                    sm2 = copy.deepcopy(sm)
                    m2 = sm2.model
                r = m2.submit()
                moved = (sm.current_state.id, getattr(m, "state", None), getattr(m2, "state", None))
                if moved[:2] != ("draft", "draft") or moved[2] != "review" or r != "a":
                    fails.append(f"case {k}: triggers bound onto the model, {how}, `submit` called on the copy's model: "
                                 f"original machine in {moved[0]!r}, original model {moved[1]!r}, copy's model {moved[2]!r}, "
                                 f"result {r!r}; expected the copy alone to move")
            else:
                # (b)
                first = factory("first", True)
                inst = first()
                later = factory("later", False)          # same __name__, same module, another machine
                later()
                c = copy.deepcopy(inst)
                if type(c) is not first or [s.id for s in c.states] != ["draft", "review", "done"]:
                    fails.append(f"case {k}: a deep copy of an instance of the first of two same-named local classes is a "
                                 f"{type(c).__qualname__} with states {[s.id for s in c.states]}")
                    continue
                r = c.submit()
                if r != "first" or c.current_state.id != "review" or inst.current_state.id != "draft":
                    fails.append(f"case {k}: the copy answered {r!r} and is in {c.current_state.id!r}, the original in "
                                 f"{inst.current_state.id!r}")
        except Exception as e:  # noqa: BLE001
            fails.append(f"case {k} ({how}): {type(e).__name__}: {e}")
    return fails


def run(ctx):
    lean_obligations(ctx)
    cf = safe_probe(probe_copies_leave_originals_alone, ctx.seed)
    ctx.coverage["copies_leave_originals_alone_cases"] = 30
    if cf:
        ctx.violation(ctx.write_replay("copies_leave_originals_alone.txt", "\n".join(cf[:10]) + "\n"), cf[0][:200])
    tf = safe_probe(probe_threads_async_facade, ctx.seed)
    ctx.coverage["threads_async_facade_cases"] = 3
    if tf:
        ctx.violation(ctx.write_replay("threads_async_facade.txt", "\n".join(tf) + "\n"), tf[0][:200])
    ncases, sf = safe_probe(probe_shared_ingredients, ctx.seed, 60 if ctx.tier == "quick" else 1200, pair=True)
    ctx.coverage["shared_ingredients_cases"] = ncases
    if sf:
        ctx.violation(ctx.write_replay("shared_ingredients.txt", "\n".join(sf[:10]) + "\n"), sf[0][:200])
    ctx.coverage["rule"] = RULE
    ctx.assumptions += [
        "worlds never contain a subclass that declares a transition whose source is an inherited state "
        "(known finding D7) or gives an inherited event a second name (known finding D7c); those shapes are probed "
        "and reported separately",
        "the comparison `alone` is the Lean model of the instance (C16_frame) and a solo run on the implementation "
        "in the same process",
        "cross-machine nesting is generated between machines with plain (non-coroutine) callbacks only",
    ]
    if ctx.replay:
        txt = open(ctx.replay).read()
        js = txt.split("## world json\n", 1)[1].strip() if "## world json" in txt else txt
        w = W.world_from_json(js)
        fails, obs, models = check_world(w)
        for mi, kind, what in fails[:1]:
            ctx.violation(os.path.relpath(os.path.abspath(ctx.replay), VERIF), what, no_input=(kind == "corr"))
        ctx.coverage.update(evaluations=1, distinct_nontrivial=0)
        return
    # corpus: regression inputs of fixed findings (plain programs with asserts)
    cdir = os.path.join(VERIF, "corpus", "C16")
    ncorpus = 0
    for fn in sorted(os.listdir(cdir)) if os.path.isdir(cdir) else []:
        if fn.endswith(".py"):
            ncorpus += 1
            try:
                with warnings.catch_warnings():
                    warnings.simplefilter("ignore")
                    runpy.run_path(os.path.join(cdir, fn))
            except AssertionError as e:
                ctx.violation(os.path.join("corpus", "C16", fn), f"regression input fails: {e}")
    known = {k.get("exclusion"): k for k in known_findings("C16") if k.get("status") == "known"}
    bad, what = probe_d7()
    if bad:
        key = "subclass-declares-transition-from-inherited-state"
        if key in known:
            ctx.known_printed.append(known[key]["what"] + " [" + what + "]")
        else:
            ctx.violation(ctx.write_replay("d7.txt", what + "\n"), "subclass transition mutates the base class")
    bad, what = probe_d7c()
    if bad:
        key = "subclass-aliases-inherited-event"
        if key in known:
            ctx.known_printed.append(known[key]["what"] + " [" + what + "]")
        else:
            ctx.violation(ctx.write_replay("d7c.txt", what + "\n"), "a subclass aliasing an inherited event renames it in the base class")
    target = 260 if ctx.tier == "quick" else 8000
    stats = dict(worlds=0, members=0, spec=0, corr=0, cross_done=0, ops=0)
    dist = {}
    nontriv = set()
    samples = []
    i = 0
    todo = None
    if ctx.tier == "thorough":
        todo = screen_parallel(ctx, stats, nontriv, target * 6, max(30.0, ctx.left() - 90))
        target = stats["worlds"] + len(todo)
    while stats["worlds"] < target and ctx.left() > 8 and len(ctx.violations) < 3:
        if todo is not None:
            if not todo:
                break
            i = todo.pop(0)
        w = make_world(ctx.seed, i)
        i += 1
        try:
            fails, obs, models = check_world(w)
        except Exception as e:   # the harness itself must not die on one world
            import traceback
            rp = ctx.write_replay(f"c16_{ctx.seed}_{i}.crash.txt", traceback.format_exc() + "\n" + W.world_to_json(w))
            ctx.violation(rp, f"harness error {type(e).__name__}", no_input=True)
            continue
        stats["worlds"] += 1
        stats["members"] += len(w.members)
        stats["ops"] += len(w.order)
        k = f"families={len(w.families)}"
        dist[k] = dist.get(k, 0) + 1
        for key, v in (("loop", w.loop), ("cross", bool(w.cross)), ("subclass", any(f.base is not None for f in w.families)),
                       ("same_class_name", len({f.cls_name for f in w.families}) < len(w.families)),
                       ("two_instances_one_class", len({m.fam for m in w.members}) < len(w.members)),
                       ("async_member", any(m.scn.is_async() for m in w.members))):
            if v:
                dist[key] = dist.get(key, 0) + 1
        if nontrivial(w):
            nontriv.add(scn_hash(W.world_to_json(w)))
            if len(samples) < 2:
                samples.append(dict(families=[(f.cls_name, f.base, len(f.scn.cbs)) for f in w.families],
                                    order=w.order, cross=w.cross,
                                    member0=eng.canon(obs[0])[:12]))
        if fails:
            mi, kind, what = fails[0]
            stats[kind] += 1
            small = shrink(w, mi, kind)
            f2, obs2, models2 = check_world(small)
            f2 = [x for x in f2 if x[0] == mi] or fails
            rp = ctx.write_replay(f"c16_{ctx.seed}_{i}.replay.txt", describe(small, obs2, models2, f2))
            ctx.violation(rp, f2[0][2], no_input=(kind == "corr"))
    ctx.coverage.update(
        evaluations=stats["worlds"], distinct_nontrivial=len(nontriv), instances=stats["members"],
        operations=stats["ops"], traces_validated_against_impl=stats["members"],
        spec_failures=stats["spec"], correspondence_failures=stats["corr"], corpus_replayed=ncorpus,
        samples=samples, distribution=dict(sorted(dist.items())), exhaustive=False)
