"""C04 — a failing callback leaves a consistent, usable machine (systematic fault enumeration)."""
import gen
from engcorr import c01_monitor, c04_monitor, engine_check, fault_variants, split_ops
from framework import lean_obligations

PROFILE = gen.Profile(
    max_states=5, extra_trans=(1, 6), p_multi_event=0.3,
    p_group=dict(validators=0.3, cond=0.35, unless=0.2, before=0.45, on=0.45, after=0.45, enter=0.5, exit=0.45),
    p_conv=0.2, p_nested=0.6, max_nested_rows=3, p_raise=0.0, p_validator_raise=0.0, p_unknown_event=0.08,
    n_ops=(2, 7), p_rtc_off=0.25, p_allow=0.3, sigs=("ed", "kwargs", "named"),
)
PROFILE_ASYNC = gen.Profile(**{**PROFILE.__dict__, "p_coro": 0.5, "drivers": ("facade", "loop"), "p_rtc_off": 0.0})


def nontrivial(s, a, rt):
    return any(len(R) > 3 and R[2] == "err" and R[3].startswith("user:") for _, R in split_ops(a))


def monitor(s, a, rt):
    return c04_monitor(s, a, rt) + c01_monitor(s, a, rt)


def probe_property_callbacks():
    """Directed family: guards and actions referenced by name that are *properties* (or plain attributes) of the
    model; the getter works at construction and later raises — an AttributeError, a KeyError or a user
    exception. Like any failing callback: the exception reaches the caller, the state is the source (guards, before,
    on) or the target (after), queued events are dropped and the next event is processed normally."""
    import warnings
    from statemachine import State, StateMachine
    fails, cases = [], 0

    class Custom(Exception):
        pass

    for where, expect_state in (("cond", "a"), ("unless", "a"), ("validators", "a"), ("before", "a"), ("on", "a"),
                                ("after", "b")):
        for exc in (AttributeError, KeyError, Custom, LookupError):
            for rtc in (True, False):
                class Mdl:
                    state = None
                    boom = None
                    log = []

                    def _get(self, name, value):
                        if self.boom == name:
                            raise exc(name)
                        return value

                for nm, val in (("p_cond", True), ("p_unless", False), ("p_validators", None), ("p_before", 1),
                                ("p_on", 2), ("p_after", 3)):
                    setattr(Mdl, nm, property((lambda nm, val: lambda self: self._get(nm, val))(nm, val)))
                with warnings.catch_warnings():
                    warnings.simplefilter("ignore")

                    class PM(StateMachine):
                        a = State(initial=True)
                        b = State()
                        go = a.to(b, cond="p_cond", unless="p_unless", validators="p_validators", before="p_before",
                                  on="p_on", after="p_after")
                        back = b.to(a)
                        nxt = b.to(a) | a.to(a)

                        def on_enter_b(self):
                            self.send("nxt")       # queued (rtc) behind `go`: dropped if `go` fails afterwards

                    m = Mdl()
                    Mdl.log = []
                    try:
                        sm = PM(m, rtc=rtc)
                    except Exception as e:
                        fails.append(f"construction with property callbacks failed: {type(e).__name__}: {e}")
                        continue
                cases += 1
                m.boom = "p_" + where
                try:
                    r = sm.go()
                    fails.append(f"property `p_{where}` raised {exc.__name__} inside `{where}` (rtc={rtc}) but go() returned "
                                 f"{r!r}; state {sm.current_state.id}")
                    continue
                except exc:
                    pass
                except Exception as e:
                    fails.append(f"property `p_{where}` raised {exc.__name__} (rtc={rtc}) but the caller got {type(e).__name__}: {e}")
                    continue
                if rtc and sm.current_state.id != expect_state:
                    fails.append(f"failure in `{where}` (property, {exc.__name__}): state {sm.current_state.id}, expected {expect_state}")
                m.boom = None
                try:
                    if sm.current_state.id == "b":
                        sm.back()
                    sm.go()
                    if sm.current_state.id not in ("a", "b"):
                        fails.append("unexpected state after recovery")
                except Exception as e:
                    fails.append(f"machine not usable after a failing property callback in `{where}` (rtc={rtc}): {type(e).__name__}: {e}")
    return cases, fails


def run(ctx):
    ctx.level = "proof"
    lean_obligations(ctx)
    ctx.coverage["rule"] = ("fault enumeration: each generated scenario is first run fault-free on the implementation to "
                            "number the callback invocations, then re-run once per sampled invocation (stratified by "
                            "phase; quick: <=5 per scenario, thorough: <=40) with that invocation raising, sometimes "
                            "with a second failure later, followed by two more sends; non-trivial = the injected fault "
                            "was reached (a user exception escaped send); distinct = hash of scenario text")
    from framework import run_py_corpus
    ctx.coverage["corpus_programs"] = run_py_corpus(ctx)
    ncases, pf = probe_property_callbacks()
    ctx.coverage["property_callback_cases"] = ncases
    if pf:
        ctx.violation(ctx.write_replay("property_callbacks.txt", "\n".join(pf[:12]) + "\n"), pf[0])
    k = 5 if ctx.tier == "quick" else 40
    engine_check(ctx, PROFILE, 900, 30000, nontrivial, monitor=monitor, tag="C04s", expand=fault_variants(k), share=0.62)
    cov1 = dict(ctx.coverage)
    engine_check(ctx, PROFILE_ASYNC, 300, 10000, nontrivial, monitor=monitor, tag="C04a", expand=fault_variants(k))
    for key in ("evaluations", "distinct_nontrivial", "traces_validated_against_impl", "disagreements", "monitor_failures"):
        ctx.coverage[key] = ctx.coverage.get(key, 0) + cov1.get(key, 0)
    ctx.coverage["distribution_sync"] = cov1.get("distribution")
