"""C04 — a failing callback leaves a consistent, usable machine (systematic fault enumeration)."""
import gen
from engcorr import c01_monitor, c04_monitor, engine_check, fault_variants, split_ops
from framework import lean_obligations

PROFILE = gen.Profile(
    max_states=5, extra_trans=(1, 6), p_multi_event=0.3,
    p_group=dict(validators=0.3, cond=0.35, unless=0.2, before=0.45, on=0.45, after=0.45, enter=0.5, exit=0.45),
    p_conv=0.2, p_nested=0.6, max_nested_rows=3, p_raise=0.0, p_validator_raise=0.0, p_unknown_event=0.08,
    n_ops=(2, 7), p_rtc_off=0.25, p_allow=0.3, sigs=("ed", "kwargs", "named"),
)
PROFILE_ASYNC = gen.Profile(**{**PROFILE.__dict__, "p_coro": 0.5, "drivers": ("facade", "loop"), "p_rtc_off": 0.0})


def nontrivial(s, a, rt):
    return any(len(R) > 3 and R[2] == "err" and R[3].startswith("user:") for _, R in split_ops(a))


def monitor(s, a, rt):
    return c04_monitor(s, a, rt) + c01_monitor(s, a, rt)


def run(ctx):
    ctx.level = "proof"
    lean_obligations(ctx)
    ctx.coverage["rule"] = ("fault enumeration: each generated scenario is first run fault-free on the implementation to "
                            "number the callback invocations, then re-run once per sampled invocation (stratified by "
                            "phase; quick: <=5 per scenario, thorough: <=40) with that invocation raising, sometimes "
                            "with a second failure later, followed by two more sends; non-trivial = the injected fault "
                            "was reached (a user exception escaped send); distinct = hash of scenario text")
    from framework import run_py_corpus
    ctx.coverage["corpus_programs"] = run_py_corpus(ctx)
    k = 5 if ctx.tier == "quick" else 40
    engine_check(ctx, PROFILE, 900, 30000, nontrivial, monitor=monitor, tag="C04s", expand=fault_variants(k))
    cov1 = dict(ctx.coverage)
    engine_check(ctx, PROFILE_ASYNC, 300, 10000, nontrivial, monitor=monitor, tag="C04a", expand=fault_variants(k))
    for key in ("evaluations", "distinct_nontrivial", "traces_validated_against_impl", "disagreements", "monitor_failures"):
        ctx.coverage[key] = ctx.coverage.get(key, 0) + cov1.get(key, 0)
    ctx.coverage["distribution_sync"] = cov1.get("distribution")
