"""C04 — a failing callback leaves a consistent, usable machine (systematic fault enumeration)."""
import gen
from engcorr import c01_monitor, c04_monitor, engine_check, fault_variants, split_ops
from framework import lean_obligations, safe_probe

PROFILE = gen.Profile(
    max_states=5, extra_trans=(1, 6), p_multi_event=0.3,
    p_group=dict(validators=0.3, cond=0.35, unless=0.2, before=0.45, on=0.45, after=0.45, enter=0.5, exit=0.45),
    p_conv=0.2, p_nested=0.6, max_nested_rows=3, p_raise=0.0, p_validator_raise=0.0, p_unknown_event=0.08,
    n_ops=(2, 7), p_rtc_off=0.25, p_allow=0.3, sigs=("ed", "kwargs", "named"),
)
PROFILE_ASYNC = gen.Profile(**{**PROFILE.__dict__, "p_coro": 0.5, "drivers": ("facade", "loop"), "p_rtc_off": 0.0})


def nontrivial(s, a, rt):
    return any(len(R) > 3 and R[2] == "err" and R[3].startswith("user:") for _, R in split_ops(a))


def monitor(s, a, rt):
    return c04_monitor(s, a, rt) + c01_monitor(s, a, rt)


def probe_property_callbacks():
    """Directed family: guards and actions referenced by name that are *properties* (or plain attributes) of the
    model; the getter works at construction and later raises — an AttributeError, a KeyError or a user
    exception. Like any failing callback: the exception reaches the caller, the state is the source (guards, before,
    on) or the target (after), queued events are dropped and the next event is processed normally."""
    import warnings
    from statemachine import State, StateMachine
    fails, cases = [], 0

    class Custom(Exception):
        pass

    for where, expect_state in (("cond", "a"), ("unless", "a"), ("validators", "a"), ("before", "a"), ("on", "a"),
                                ("after", "b")):
        for exc in (AttributeError, KeyError, Custom, LookupError):
            for rtc in (True, False):
                class Mdl:
                    state = None
                    boom = None
                    log = []

                    def _get(self, name, value):
                        if self.boom == name:
                            raise exc(name)
                        return value

                for nm, val in (("p_cond", True), ("p_unless", False), ("p_validators", None), ("p_before", 1),
                                ("p_on", 2), ("p_after", 3)):
                    setattr(Mdl, nm, property((lambda nm, val: lambda self: self._get(nm, val))(nm, val)))
                with warnings.catch_warnings():
                    warnings.simplefilter("ignore")

                    class PM(StateMachine):
                        a = State(initial=True)
                        b = State()
                        go = a.to(b, cond="p_cond", unless="p_unless", validators="p_validators", before="p_before",
                                  on="p_on", after="p_after")
                        back = b.to(a)
                        nxt = b.to(a) | a.to(a)

                        def on_enter_b(self):
                            self.send("nxt")       # queued (rtc) behind `go`: dropped if `go` fails afterwards

                    m = Mdl()
                    Mdl.log = []
                    try:
                        sm = PM(m, rtc=rtc)
                    except Exception as e:
                        fails.append(f"construction with property callbacks failed: {type(e).__name__}: {e}")
                        continue
                cases += 1
                m.boom = "p_" + where
                try:
                    r = sm.go()
                    fails.append(f"property `p_{where}` raised {exc.__name__} inside `{where}` (rtc={rtc}) but go() returned "
                                 f"{r!r}; state {sm.current_state.id}")
                    continue
                except exc:
                    pass
                except Exception as e:
                    fails.append(f"property `p_{where}` raised {exc.__name__} (rtc={rtc}) but the caller got {type(e).__name__}: {e}")
                    continue
                if rtc and sm.current_state.id != expect_state:
                    fails.append(f"failure in `{where}` (property, {exc.__name__}): state {sm.current_state.id}, expected {expect_state}")
                m.boom = None
                try:
                    if sm.current_state.id == "b":
                        sm.back()
                    sm.go()
                    if sm.current_state.id not in ("a", "b"):
                        fails.append("unexpected state after recovery")
                except Exception as e:
                    fails.append(f"machine not usable after a failing property callback in `{where}` (rtc={rtc}): {type(e).__name__}: {e}")
    return cases, fails


def probe_orphan_sibling(seed, n):
    """Directed family (Spec checked on the implementation; the engine model has no concurrency inside a group): on
    the async engine the callbacks of one group are started together. One of them raises after j suspensions while a
    sibling is still suspended (it would go on for k > j suspensions, then send an event). After `send()` has raised
    nothing of the abandoned event may happen any more: no callback line, no event, whatever is sent or awaited later;
    the state is the source (validators … on) or the target (enter, after). Drivers: synchronous code, and inside a
    running loop. (D33.)"""
    import asyncio
    import random
    import warnings
    from statemachine import State, StateMachine
    fails, cases = [], 0
    groups = ("validators", "before", "exit", "on", "enter", "after")
    for i in range(n):
        rng = random.Random(f"{seed}:orphan:{i}")
        grp = rng.choice(groups)
        j = rng.randint(0, 2)
        k = j + rng.randint(1, 4)
        raiser_first = rng.random() < 0.5
        in_loop = rng.random() < 0.5
        on_listener = rng.random() < 0.4
        log = []
        plan = {}

        async def body(name):
            log.append(f"begin {name}")
            what = plan.get(name)
            if what and what[0] == "raise":
                for _ in range(what[1]):
                    await asyncio.sleep(0)
                raise RuntimeError(name)
            if what and what[0] == "linger":
                try:
                    for _ in range(what[1]):
                        await asyncio.sleep(0)
                    log.append(f"stale {name}")
                    r = what[2].send("nxt")
                    if asyncio.iscoroutine(r):
                        await r
                finally:
                    if what[3]:
                        # asynchronous clean-up (an `async with`, a `finally` that awaits): when the sibling is given up,
                        # it must be over before the failure is reported
                        for _ in range(what[3]):
                            await asyncio.sleep(0)
                        log.append(f"cleaned up {name}")
            log.append(f"end {name}")

        def mk(name):
            async def cb(self):
                await body(name)
            cb.__name__ = name
            return cb

        names = {g: [f"{g}_1", f"{g}_2"] for g in groups}
        ns = {}
        for g in groups:
            ns[names[g][0]] = mk(names[g][0])
        second = {names[g][1]: mk(names[g][1]) for g in groups}
        Lst = type("Lst", (), dict(second))
        if not on_listener:
            ns.update(second)
        with warnings.catch_warnings():
            warnings.simplefilter("ignore")
            a = State(initial=True, exit=names["exit"])
            b = State(enter=names["enter"])
            c = State()
            ns.update(a=a, b=b, c=c,
                      go=a.to(b, validators=names["validators"], before=names["before"], on=names["on"],
                              after=names["after"]),
                      nxt=a.to(c) | b.to(c),
                      other=a.to.itself(internal=True) | b.to.itself(internal=True) | c.to.itself(internal=True))
            M = type("Orphan", (StateMachine,), ns)
            sm = M(listeners=[Lst()] if on_listener else [])
        r_name, l_name = (names[grp][0], names[grp][1]) if raiser_first else (names[grp][1], names[grp][0])
        plan[r_name] = ("raise", j)
        plan[l_name] = ("linger", k, sm, rng.choice([0, 0, 1, 2]))
        expect = "b" if grp in ("enter", "after") else "a"
        cases += 1
        what = (f"group={grp} raiser={r_name} after {j}, sibling lingers {k} (clean-up awaits {plan[l_name][3]}), "
                f"{'loop' if in_loop else 'sync'} driver, second on {'a listener' if on_listener else 'the machine'}")

        mark = []

        def judge(raised):
            # (what the sibling did *before* the failure was noticed is its own business — the callbacks of a group
            # run concurrently —, an event it sent in that window is a queued event and is dropped)
            if not raised:
                fails.append(f"{what}: the failure did not reach the caller")
            if sm.current_state.id != expect or len(log) != mark[0]:
                fails.append(f"{what}: after the failing send had returned: state {sm.current_state.id} (expected "
                             f"{expect}), later log entries {log[mark[0]:]}")

        try:
            with warnings.catch_warnings():
                warnings.simplefilter("ignore")
                if in_loop:
                    async def main():
                        await sm.activate_initial_state()
                        raised = False
                        try:
                            await sm.send("go")
                        except RuntimeError:
                            raised = True
                        except BaseException as e:     # e.g. the CancelledError of a cancelled sibling
                            fails.append(f"{what}: the caller got {type(e).__name__} instead of the callback's exception")
                            raised = True
                        mark.append(len(log))
                        for _ in range(k + 3):
                            await asyncio.sleep(0)
                        for _ in range(2):
                            await sm.send("other")
                        return raised
                    raised = asyncio.run(main())
                else:
                    raised = False
                    try:
                        sm.send("go")
                    except RuntimeError:
                        raised = True
                    except BaseException as e:
                        if isinstance(e, (KeyboardInterrupt, SystemExit)):
                            raise
                        fails.append(f"{what}: the caller got {type(e).__name__} instead of the callback's exception")
                        raised = True
                    mark.append(len(log))
                    for _ in range(3):
                        sm.send("other")
            judge(raised)
        except BaseException as e:
            if isinstance(e, (KeyboardInterrupt, SystemExit)):
                raise
            fails.append(f"{what}: {type(e).__name__}: {e}; log {log}")
    return cases, fails


def probe_raising_operand(seed, n):
    """a name inside a guard *expression* raises while it is evaluated (`cond="priority > 3"`, `priority` doing
    `int(None)`): the exception reaches the caller as it is, the state is the source's, nothing of the transition ran —
    whatever the operator around the name and whatever the exception's type"""
    import asyncio
    import random
    import warnings
    from statemachine import State, StateMachine

    class Custom(Exception):
        pass
    rng = random.Random(f"{seed}:C04:operand")
    EXC = [TypeError, ValueError, KeyError, AttributeError, ZeroDivisionError, Custom, RuntimeError, LookupError]
    SHAPES = ["bad > 3", "bad >= fine", "fine < bad", "bad == 1", "bad != fine", "not bad", "bad and fine", "fine and bad",
              "bad or fine", "not fine or bad", "fine and not bad", "bad", "fine == 7 and bad <= 2", "1 < bad < 9"]
    fails, cases = [], 0
    for i in range(n):
        exc = rng.choice(EXC)
        shape = rng.choice(SHAPES)
        group = rng.choice(["cond", "unless"])
        is_async = rng.random() < 0.4
        how = rng.choice(["method", "property"])
        queued = rng.random() < 0.3          # the event is sent from a callback of another event
        log = []
        ns = {}

        armed = []

        def bad(self, armed=armed, exc=exc, log=log):
            if not armed:            # (a property is read once while the machine is constructed)
                return 5
            log.append("bad")
            raise exc("operand")
        ns["bad"] = property(bad) if how == "property" else bad
        ns["fine"] = 7
        a, b, c = State("a", initial=True), State("b"), State("c")
        ns.update(a=a, b=b, c=c)
        ns["go"] = a.to(b, **{group: shape}) | a.to(c)
        ns["start"] = a.to.itself(internal=True, after="go") if queued else a.to.itself(internal=True)
        ns["on_enter_b"] = lambda self: log.append("enter_b")
        ns["on_enter_c"] = lambda self: log.append("enter_c")
        ns["on_exit_a"] = lambda self: log.append("exit_a")
        if is_async:
            async def after_start(self):
                return None
            ns["after_start"] = after_start
        try:
            with warnings.catch_warnings():
                warnings.simplefilter("ignore")
                cls = type(StateMachine)("Op", (StateMachine,), ns)
                sm = cls()
                if is_async:
                    sm.activate_initial_state()
        except Exception as e:  # noqa: BLE001
            fails.append(f"[{shape!r} {group} {how}] construction raised {type(e).__name__}: {e}")
            continue
        cases += 1
        got = None
        armed.append(1)
        try:
            with warnings.catch_warnings():
                warnings.simplefilter("ignore")
                sm.send("start" if queued else "go")
        except BaseException as e:  # noqa: BLE001
            got = e
        where = f"[{shape!r} as {group}, operand a {how} raising {exc.__name__}, {'async' if is_async else 'sync'}" \
                f"{', queued from a callback' if queued else ''}]"
        if "bad" not in log:
            continue        # (short-circuited before the operand: nothing to say)
        if not isinstance(got, exc) or type(got) is not exc:
            fails.append(f"{where} the operand raised, the caller got {type(got).__name__ if got else 'no exception'}; "
                         f"state {sm.current_state.id}, log {log}")
        elif sm.current_state.id != "a" or any(x in log for x in ("enter_b", "enter_c", "exit_a")):
            fails.append(f"{where} after the exception the state is {sm.current_state.id}, log {log}")
        if len(fails) >= 3:
            break
    return cases, fails


def run(ctx):
    ctx.level = "proof"
    lean_obligations(ctx)
    ctx.coverage["rule"] = ("fault enumeration: each generated scenario is first run fault-free on the implementation to "
                            "number the callback invocations, then re-run once per sampled invocation (stratified by "
                            "phase; quick: <=5 per scenario, thorough: <=40) with that invocation raising, sometimes "
                            "with a second failure later, followed by two more sends; non-trivial = the injected fault "
                            "was reached (a user exception escaped send); distinct = hash of scenario text")
    from framework import run_py_corpus
    ctx.coverage["corpus_programs"] = run_py_corpus(ctx)
    ncases, pf = safe_probe(probe_property_callbacks, pair=True)
    ctx.coverage["property_callback_cases"] = ncases
    if pf:
        ctx.violation(ctx.write_replay("property_callbacks.txt", "\n".join(pf[:12]) + "\n"), pf[0])
    ncases, of = safe_probe(probe_orphan_sibling, ctx.seed, 120 if ctx.tier == "quick" else 2000, pair=True)
    ctx.coverage["orphan_sibling_cases"] = ncases
    if of:
        ctx.violation(ctx.write_replay("orphan_sibling.txt", "\n".join(of[:12]) + "\n"), of[0])
    ncases, rf = safe_probe(probe_raising_operand, ctx.seed, 150 if ctx.tier == "quick" else 3000, pair=True)
    ctx.coverage["raising_operand_cases"] = ncases
    if rf:
        ctx.violation(ctx.write_replay("raising_operand.txt", "\n".join(rf[:12]) + "\n"), rf[0][:200])
    k = 5 if ctx.tier == "quick" else 40
    engine_check(ctx, PROFILE, 900, 30000, nontrivial, monitor=monitor, tag="C04s", expand=fault_variants(k), share=0.62)
    cov1 = dict(ctx.coverage)
    engine_check(ctx, PROFILE_ASYNC, 300, 10000, nontrivial, monitor=monitor, tag="C04a", expand=fault_variants(k))
    for key in ("evaluations", "distinct_nontrivial", "traces_validated_against_impl", "disagreements", "monitor_failures"):
        ctx.coverage[key] = ctx.coverage.get(key, 0) + cov1.get(key, 0)
    ctx.coverage["distribution_sync"] = cov1.get("distribution")


_run_inner = run


def run(ctx):
    import engcorr
    _run_inner(ctx)
    # how many sends the C01 Spec monitor (Lean `choose` on the implementation's observation) actually judged
    ctx.coverage["c01_spec_monitor"] = dict(engcorr.C01_MON_STATS)
    if ctx.coverage.get("evaluations", 0) > 50 and not ctx.replay and engcorr.C01_MON_STATS["judged"] == 0:
        raise RuntimeError("the C01 Spec monitor judged nothing: it is vacuous")

