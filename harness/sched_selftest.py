"""C06 — harness self-test (thorough tier): can the schedulers see the races they are built for?

`python sched_selftest.py <package dir containing a mutated statemachine/> <threads|asyncio> <seconds>`
explores one small scenario against that copy and prints one JSON line with the number of schedules
run and the first Spec failure found. The copies live in a temporary directory outside /repo and
/verif and are deleted by the caller. A missed mutant is a harness bug to fix, not a property verdict.
"""
from __future__ import annotations

import json
import os
import shutil
import subprocess
import sys
import tempfile
import time

HERE = os.path.dirname(os.path.abspath(__file__))

SYNC = "statemachine/engines/sync.py"
ASYNC = "statemachine/engines/async_.py"

# (name, kind, file, old text, new text) — the mutants named in C06's why_tests_cant / DESIGN §7 "Catches"
MUTANTS = [
    ("no re-check after release (D15 reverted)", "threads", SYNC,
     "        if self._external_queue:\n            # Another thread enqueued",
     "        if False:\n            # Another thread enqueued"),
    ("result of acquire(blocking=False) ignored", "threads", SYNC,
     "        if not self._processing.acquire(blocking=False):\n            return None\n",
     "        self._processing.acquire(blocking=False)\n"),
    ("popleft -> pop (LIFO)", "threads", SYNC,
     "            while self._external_queue:\n                trigger_data = self._external_queue.popleft()",
     "            while self._external_queue:\n                trigger_data = self._external_queue.pop()"),
    ("lock released inside the while loop", "threads", SYNC,
     "                    if first_result is self._sentinel:\n                        first_result = result\n                except Exception:",
     "                    if first_result is self._sentinel:\n                        first_result = result\n"
     "                    if not self._external_queue:\n                        self._processing.release()\n"
     "                        self._processing.acquire(blocking=False)\n                except Exception:"),
    ("async: await between the last queue test and release()", "asyncio", ASYNC,
     "        finally:\n            self._processing.release()\n        return first_result",
     "            import asyncio\n            await asyncio.sleep(0)\n        finally:\n            self._processing.release()\n        return first_result"),
    ("async: popleft -> pop (LIFO)", "asyncio", ASYNC,
     "self._external_queue.popleft()", "self._external_queue.pop()"),
    ("async: result of acquire(blocking=False) ignored", "asyncio", ASYNC,
     "        if not self._processing.acquire(blocking=False):\n            return None\n",
     "        self._processing.acquire(blocking=False)\n"),
]


def child_main(kind, seconds):
    sys.path.insert(0, HERE)
    from sched_common import Scenario
    from sched_explore import explore_parallel, make_pool
    if kind == "threads":
        scns = [Scenario(kind="threads", name="st2x1", progs=[[1], [2]], nest={}, nest_at={}, yields={}, gran="engine"),
                Scenario(kind="threads", name="st2x21", progs=[[1, 2], [3]], nest={1: [7]}, nest_at={1: "on"}, yields={}, gran="engine")]
        bound = 2
    else:
        scns = [Scenario(kind="asyncio", name="sa2", progs=[[1, 2], [3]], nest={}, nest_at={}, yields={"on": 1, "after": 1}, split=[3], gaps=[0, 1])]
        bound = 2
    pool = make_pool(3)
    runs, first = 0, None
    t0 = time.time()
    try:
        for scn in scns:
            acc = explore_parallel(pool, scn, bound, t0 + seconds, procs=3)
            runs += acc.runs
            if acc.spec_fail:
                first = dict(scenario=scn.name, schedule=acc.spec_fail[0][0], what=acc.spec_fail[0][1][:2])
                break
    finally:
        pool.terminate()
    print(json.dumps(dict(runs=runs, first=first, wall=round(time.time() - t0, 1))))


def run_selftest(repo, seconds=25.0, parallel=5):
    """Returns dict(expected, caught, missed, not_applicable, details). Never touches `repo`."""
    tmp = tempfile.mkdtemp(prefix="c06_selftest_")
    procs = []
    out = dict(expected=0, caught=0, missed=[], not_applicable=[], details=[])
    try:
        for i, (name, kind, rel, old, new) in enumerate(MUTANTS):
            src = open(os.path.join(repo, rel)).read()
            if src.count(old) < 1:
                out["not_applicable"].append(name)
                continue
            d = os.path.join(tmp, f"m{i}")
            shutil.copytree(os.path.join(repo, "statemachine"), os.path.join(d, "statemachine"),
                            ignore=shutil.ignore_patterns("__pycache__"))
            with open(os.path.join(d, rel), "w") as f:
                f.write(src.replace(old, new, 1))
            env = dict(os.environ, PYTHONPATH=f"{HERE}:{d}", PYTHONDONTWRITEBYTECODE="1", VERIF_REPO=d)
            procs.append((name, subprocess.Popen([sys.executable, os.path.abspath(__file__), d, kind, str(seconds)],
                                                 env=env, stdout=subprocess.PIPE, stderr=subprocess.PIPE, text=True,
                                                 cwd=os.path.join(os.path.dirname(HERE), "lean"))))
            out["expected"] += 1
            while sum(1 for _, p in procs if p.poll() is None) >= parallel:
                time.sleep(0.1)
        for name, p in procs:
            so, se = p.communicate(timeout=seconds * 3 + 60)
            try:
                r = json.loads(so.strip().split("\n")[-1])
            except Exception:  # noqa: BLE001
                r = dict(runs=0, first=None, error=(se or so)[-300:])
            out["details"].append(dict(mutant=name, **r))
            if r.get("first"):
                out["caught"] += 1
            else:
                out["missed"].append(name)
    finally:
        shutil.rmtree(tmp, ignore_errors=True)
    return out


if __name__ == "__main__":
    child_main(sys.argv[2], float(sys.argv[3]))
