"""Correspondence check for engine scenarios: model vs implementation, shrinking, verdicts."""
from __future__ import annotations

import copy
import dataclasses
import json
import os
import re
import random
import time

import eng
import gen
from common import VERIF, first_diff, run_driver
from framework import Ctx, known_findings, scn_hash


# ----------------------------------------------------------------------------- (de)serialisation

def scn_to_json(s: eng.Scn) -> str:
    d = dataclasses.asdict(s)
    return json.dumps(d, sort_keys=True)


def scn_from_json(txt: str) -> eng.Scn:
    d = json.loads(txt)
    s = eng.Scn(name=d["name"])
    for k, v in d.items():
        if k == "states":
            s.states = [eng.St(**x) for x in v]
        elif k == "trans":
            s.trans = [eng.Tr(**x) for x in v]
        elif k == "cbs":
            s.cbs = [eng.Cb(**{**x, "at": tuple(x["at"]), "named": tuple(x["named"])}) for x in v]
        elif k == "acts":
            s.acts = [tuple(a[:5]) + (list(a[5]),) for a in v]
        elif k == "ops":
            s.ops = [tuple(o) for o in v]
        elif k == "extra_events":
            s.extra_events = {int(a): b for a, b in v.items()}
        else:
            setattr(s, k, v)
    return s


# ----------------------------------------------------------------------------- running both sides

def run_pair(scns):
    """Returns list of (scn, impl canonical lines, model canonical lines, runtime)."""
    lines = []
    for s in scns:
        eng.normalize(s)
        lines += eng.model_lines(s)
    mod = run_driver(lines)
    out = []
    for s in scns:
        impl, rt = eng.run_impl(s)
        out.append((s, eng.impl_obs(s, impl), eng.model_obs(s, mod.get(s.name, ["<no model output>"])), rt))
    return out


def disagrees(s):
    (_, a, b, _), = run_pair([s])
    return first_diff(a, b) is not None


def shrink(s: eng.Scn, still_bad, budget_s=20.0):
    """Greedy shrinking while `still_bad(scn)` holds."""
    t0 = time.time()
    cur = s
    changed = True
    while changed and time.time() - t0 < budget_s:
        changed = False
        # drop ops from the end, then single ops
        for i in range(len(cur.ops) - 1, 0, -1):
            c = copy.deepcopy(cur)
            del c.ops[i]
            if _ok(c) and still_bad(c):
                cur, changed = c, True
        for i in range(len(cur.acts) - 1, -1, -1):
            c = copy.deepcopy(cur)
            del c.acts[i]
            if _ok(c) and still_bad(c):
                cur, changed = c, True
        for i in range(len(cur.cbs) - 1, -1, -1):
            c = copy.deepcopy(cur)
            cid = c.cbs[i].id
            del c.cbs[i]
            c.acts = [a for a in c.acts if a[0] != cid]
            c.listeners_ctor = [p for p in c.listeners_ctor if any(cb.provider == p for cb in c.cbs)]
            if _ok(c) and still_bad(c):
                cur, changed = c, True
        for i in range(len(cur.trans) - 1, -1, -1):
            if len(cur.trans) <= 1:
                break
            c = copy.deepcopy(cur)
            del c.trans[i]
            ok = True
            for cb in c.cbs:
                if cb.at[0] == "t":
                    if cb.at[1] == i:
                        ok = False
                    elif cb.at[1] > i:
                        cb.at = ("t", cb.at[1] - 1)
            if ok and _ok(c) and still_bad(c):
                cur, changed = c, True
    return cur


def _ok(c):
    if not eng.legal(c):
        return False
    try:
        impl, _ = eng.run_impl(c)
        return not (impl and impl[0].startswith("DEFERR"))
    except Exception:
        return False


# ----------------------------------------------------------------------------- can the monitor see anything?

def _corrupt(kind, s, a, rng):
    """a *wrong* observation made from a right one (None when this observation offers no place for it)"""
    a = list(a)
    rs = [k for k, l in enumerate(a) if l.startswith("R ") and " ok " in l and s.ops[int(l.split(" ")[1])][0] == "send"]
    if kind == "post":          # the machine ends in a state the event does not lead to
        vals = [eng.rp(eng.POOL[st.val]) for st in s.states]
        cand = []
        for k in rs:
            cur = re.search(r"cur=(\S+)", a[k])
            others = [v for v in vals if cur and v != cur.group(1) and " " not in v]
            if others:
                cand.append((k, cur.group(1), others))
        if not cand:
            return None
        k, cur, others = rng.choice(cand)
        a[k] = a[k].replace(f"cur={cur}", f"cur={rng.choice(others)}")
        return a
    if kind == "result":        # the event returns something no callback returned
        cand = [k for k in rs if a[k].split(" ")[3] not in ("None",)]
        cand = cand or rs
        if not cand:
            return None
        k = rng.choice(cand)
        p = a[k].split(" ")
        p[3] = "'no-callback-returned-this'" if p[3] != "'no-callback-returned-this'" else "None"
        a[k] = " ".join(p)
        return a
    if kind == "phase":         # a later phase's callback before an earlier phase's, inside one trigger
        bs = [k for k, l in enumerate(a) if l.startswith("B ")]
        for x in bs:
            px = a[x].split(" ")
            for y in bs:
                py = a[y].split(" ")
                if y > x and py[1] == px[1] and RANK.get(py[2], 0) > RANK.get(px[2], 0) and px[2] != "cond" \
                        and py[2] not in ("cond",):
                    a[x], a[y] = a[y], a[x]
                    return a
        return None
    if kind == "tid":           # a callback of a later trigger in the middle of an earlier trigger's block
        bs = [k for k, l in enumerate(a) if l.startswith("B ")]
        tids = sorted({int(a[k].split(" ")[1]) for k in bs})
        if len(tids) < 2:
            return None
        hi = [k for k in bs if int(a[k].split(" ")[1]) == tids[-1]]
        lo = [k for k in bs if int(a[k].split(" ")[1]) == tids[0]]
        if not hi or not lo or lo[0] > hi[0]:
            return None
        l = a.pop(hi[0])
        a.insert(lo[0], l)
        return a
    if kind == "faultstate":    # after a failing send the machine sits in a state that is neither source nor target
        errs = [k for k, l in enumerate(a) if l.startswith("R ") and " err user:" in l]
        vals = [eng.rp(eng.POOL[st.val]) for st in s.states]
        if not errs or len(vals) < 3:
            return None
        k = rng.choice(errs)
        cur = re.search(r"cur=(\S+)", a[k])
        prev = [re.search(r"cur=(\S+)", a[j]).group(1) for j in range(k) if a[j].startswith("R ")][-1:]
        others = [v for v in vals if cur and v != cur.group(1) and v not in prev and " " not in v]
        ts = {l.split(" ", 1)[1] for l in a[:k + 1] if l.startswith("T ")}
        others = [v for v in others if v not in ts]
        if not others:
            return None
        a[k] = a[k].replace(f"cur={cur.group(1)}", f"cur={others[0]}")
        return a
    return None


SELFTEST_KIND = {"C01": "post", "C14": "result", "C02": "phase", "C03": "tid", "C04": "faultstate", "C13": "post"}
MONITOR_SELFTEST = {}


def monitor_selftest(ctx, tag, monitor, s, a, rt):
    """feed the Spec monitor a corrupted copy of an observation it accepted: it has to object (counts go into the
    evidence; a monitor that never objects is vacuous and makes the check fail as a crash, not as a verdict)"""
    kind = SELFTEST_KIND.get(ctx.prop)
    st = MONITOR_SELFTEST.setdefault(ctx.prop, dict(kind=kind, applied=0, detected=0))
    if kind is None or st["applied"] >= 60:
        return
    rng = random.Random(f"{ctx.seed}:selftest:{tag}:{s.name}")
    try:
        b = _corrupt(kind, s, a, rng)
    except Exception:       # noqa: BLE001  (an observation the corruptor cannot read: no self-test on it)
        b = None
    if b is None or b == list(a):
        return
    st["applied"] += 1
    try:
        if monitor(s, b, rt):
            st["detected"] += 1
    except Exception:       # noqa: BLE001  (a monitor that cannot even read the corrupted observation objects, too)
        st["detected"] += 1


# ----------------------------------------------------------------------------- the check

def engine_check(ctx: Ctx, profile, n_quick, n_thorough, nontrivial, monitor=None, tag=None,
                 post=None, mutate=None, expand=None, extra_scns=(), share=None):
    """Generate scenarios for `ctx.prop`, compare model and implementation, decide.

    nontrivial(scn, impl_lines, rt) -> bool ; monitor(scn, impl_lines, rt) -> list[str] failures
    (the property's Spec evaluated on the implementation's observation); post(scn, impl, rt) ->
    list[str] extra harness-level assertions that are part of the property."""
    tag = tag or ctx.prop
    target = n_quick if ctx.tier == "quick" else n_thorough
    # `share`: the fraction of the time still left that this family may use (so that the families run after it in
    # the same check are not starved when the machine is busy)
    import time as _time
    t_family = _time.time()
    t_max = ctx.left() * share if share else None
    known = {k["replay"]: k for k in known_findings(ctx.prop) if k.get("status") == "known"}
    stats = dict(evaluations=0, disagreements=0, monitor_failures=0, sends=0, ops=0)
    nontriv = set()
    samples = []
    dist = {}
    corpus_dir = os.path.join(VERIF, "corpus", ctx.prop)
    scns = []
    if os.path.isdir(corpus_dir):
        for fn in sorted(os.listdir(corpus_dir)):
            if fn.endswith(".json"):
                scns.append(scn_from_json(open(os.path.join(corpus_dir, fn)).read()))
    scns = scns + list(extra_scns)
    n_corpus = len(scns)
    i = 0
    chunk = 100
    done = False
    pending = list(scns)
    jobs = int(os.environ.get("VERIF_JOBS", "0") or 0) or (min(16, os.cpu_count() or 1) if ctx.tier == "thorough" else 1)
    if ctx.tier == "thorough" and jobs > 1 and not ctx.replay:
        # thorough tier: the index space is split over worker processes; failures come back as scenarios
        # and are judged, shrunk and reported here (in the parent) exactly like in the sequential loop
        target *= int(os.environ.get("VERIF_THOROUGH_FACTOR", "6"))
        res = _parallel(ctx, profile, target, nontrivial, monitor, post, mutate, expand, tag, jobs,
                        budget=max(30.0, ctx.left() * 0.45))
        for k in stats:
            stats[k] += res["stats"].get(k, 0)
        nontriv |= res["nontriv"]
        samples = res["samples"][:3]
        for k, v in res["dist"].items():
            dist[k] = dist.get(k, 0) + v
        i = res["next_i"]
        ctx.coverage["workers"] = jobs
        pending = pending + [scn_from_json(js) for js in res["failures"][:6]]
        target = 0           # the loop below only replays corpus + the failing scenarios
    while not done:
        if not pending:
            if stats["evaluations"] - n_corpus >= target or ctx.left() < 5:
                break
            if t_max is not None and _time.time() - t_family > t_max:
                dist["stopped_by_time_share"] = 1
                break
            for _ in range(chunk):
                rng = random.Random(f"{ctx.seed}:{tag}:{i}")
                s = gen.gen_scenario(rng, profile, f"{tag}-{ctx.seed}-{i}")
                if mutate:
                    mutate(rng, s)
                if expand:
                    pending.extend(expand(rng, s))
                else:
                    pending.append(s)
                i += 1
        batch, pending = pending[:chunk], pending[chunk:]
        batch = [s for s in batch if eng.legal(eng.normalize(s)) or dist.__setitem__("outside_scope_skipped", dist.get("outside_scope_skipped", 0) + 1)]
        for (s, a, b, rt) in run_pair(batch):
            stats["evaluations"] += 1
            stats["ops"] += len(s.ops)
            if a and a[0].startswith("DEFERR"):
                dist["deferr"] = dist.get("deferr", 0) + 1
                continue
            _distribution(dist, s, a)
            if nontrivial(s, a, rt):
                nontriv.add(scn_hash("\n".join(eng.model_lines(s)[1:])))
                if len(samples) < 3:
                    samples.append(dict(scenario=eng.model_lines(s)[:40], observation=a[:25]))
            fails = [f"harness-level assertion: {l[2:]}" for l in a if l.startswith("X ")]
            if monitor:
                fails += monitor(s, a, rt)
            if post:
                fails += post(s, a, rt)
            d = first_diff(a, b)
            if monitor and not fails and not d and not ctx.replay:
                monitor_selftest(ctx, tag, monitor, s, a, rt)
            if fails:
                stats["monitor_failures"] += 1
                _report(ctx, s, a, b, fails, monitor, post, known)
            elif d:
                stats["disagreements"] += 1
                _report(ctx, s, a, b, [], monitor, post, known, diff=d)
            if len(ctx.violations) >= 3:
                done = True
                break
    # which lines of the anchored engine / dispatch code did a sample of these inputs execute?
    try:
        import cover
        files = ["engines/sync.py", "engines/async_.py", "engines/base.py", "callbacks.py", "event.py",
                 "event_data.py", "statemachine.py", "dispatcher.py", "signature.py", "transition.py", "events.py"]
        with cover.Tracer(files) as tr:
            for k in range(60):
                rng = random.Random(f"{ctx.seed}:{tag}:{k}")
                s = gen.gen_scenario(rng, profile, f"{tag}-cov-{k}")
                if mutate:
                    mutate(rng, s)
                try:
                    eng.run_impl(s)
                except Exception:
                    pass
        ctx.coverage.setdefault("anchored_line_coverage_sample60", {})[tag] = tr.report()
    except Exception as e:      # coverage is informational
        ctx.coverage.setdefault("anchored_line_coverage_sample60", {})[tag] = f"unavailable: {type(e).__name__}: {e}"
    if ctx.prop in MONITOR_SELFTEST:
        st = MONITOR_SELFTEST[ctx.prop]
        ctx.coverage["spec_monitor_selftest"] = dict(st)
        if st["applied"] >= 15 and st["detected"] == 0:
            raise RuntimeError(f"the Spec monitor of {ctx.prop} accepted {st['applied']} corrupted observations "
                               f"(corruption `{st['kind']}`): it is vacuous")
    ctx.coverage.update(
        evaluations=stats["evaluations"], distinct_nontrivial=len(nontriv),
        traces_validated_against_impl=stats["evaluations"] - stats["disagreements"],
        disagreements=stats["disagreements"], monitor_failures=stats["monitor_failures"],
        corpus=n_corpus, samples=samples, distribution=dist,
    )
    return stats


_WORK = {}


def _worker(k):
    w = _WORK
    ctx, profile, tag = w["ctx"], w["profile"], w["tag"]
    monitor, post, mutate, expand, nontrivial = w["monitor"], w["post"], w["mutate"], w["expand"], w["nontrivial"]
    jobs, share, deadline = w["jobs"], w["share"], w["deadline"]
    stats = dict(evaluations=0, disagreements=0, monitor_failures=0, sends=0, ops=0)
    nontriv, dist, samples, failures = set(), {}, [], []
    i = k
    done_here = 0
    mon0 = dict(C01_MON_STATS)      # (forked: counts of the parent so far; what this worker adds goes back with its result)
    while done_here < share and time.time() < deadline and len(failures) < 3:
        batch = []
        for _ in range(40):
            rng = random.Random(f"{ctx.seed}:{tag}:{i}")
            s = gen.gen_scenario(rng, profile, f"{tag}-{ctx.seed}-{i}")
            if mutate:
                mutate(rng, s)
            batch.extend(expand(rng, s) if expand else [s])
            i += jobs
        batch = [s for s in batch if eng.legal(eng.normalize(s))]
        for (s, a, b, rt) in run_pair(batch):
            stats["evaluations"] += 1
            done_here += 1
            stats["ops"] += len(s.ops)
            if a and a[0].startswith("DEFERR"):
                dist["deferr"] = dist.get("deferr", 0) + 1
                continue
            _distribution(dist, s, a)
            if nontrivial(s, a, rt):
                nontriv.add(scn_hash("\n".join(eng.model_lines(s)[1:])))
                if len(samples) < 1:
                    samples.append(dict(scenario=eng.model_lines(s)[:40], observation=a[:25]))
            fails = [l for l in a if l.startswith("X ")]
            if monitor:
                fails += monitor(s, a, rt)
            if post:
                fails += post(s, a, rt)
            if fails or first_diff(a, b):
                failures.append(scn_to_json(s))
    return dict(stats=stats, nontriv=nontriv, dist=dist, samples=samples, failures=failures, next_i=i,
                c01mon={k: C01_MON_STATS[k] - mon0[k] for k in C01_MON_STATS})


def _parallel(ctx, profile, target, nontrivial, monitor, post, mutate, expand, tag, jobs, budget):
    import multiprocessing as mp
    _WORK.update(ctx=ctx, profile=profile, tag=tag, monitor=monitor, post=post, mutate=mutate, expand=expand,
                 nontrivial=nontrivial, jobs=jobs, share=(target + jobs - 1) // jobs, deadline=time.time() + budget)
    with mp.get_context("fork").Pool(jobs) as pool:
        parts = pool.map(_worker, range(jobs))
    out = dict(stats={}, nontriv=set(), dist={}, samples=[], failures=[], next_i=0)
    for p in parts:
        for k, v in p["stats"].items():
            out["stats"][k] = out["stats"].get(k, 0) + v
        out["nontriv"] |= p["nontriv"]
        for k, v in p["dist"].items():
            out["dist"][k] = out["dist"].get(k, 0) + v
        out["samples"] += p["samples"]
        out["failures"] += p["failures"]
        out["next_i"] = max(out["next_i"], p["next_i"])
        for k, v in p.get("c01mon", {}).items():
            C01_MON_STATS[k] += v
    return out


def _distribution(dist, s, a):
    def inc(k, v=1):
        dist[k] = dist.get(k, 0) + v
    inc(f"states={len(s.states)}")
    inc(f"trans={min(len(s.trans), 9)}")
    inc("rtc_off", int(not s.rtc))
    inc("allow", int(s.allow))
    inc("async", int(s.is_async()))
    inc(f"driver={s.driver}")
    for l in a:
        p = l.split(" ")
        if p[0] == "B":
            inc("cb:" + p[2])
        elif p[0] == "S":
            inc("nested_sends")
        elif p[0] == "R" and len(p) > 2:
            inc("R:" + (p[2] if p[2] != "err" else "err:" + p[3].split(":")[0]))


def _report(ctx, s, a, b, fails, monitor, post, known, diff=None):
    """Shrink, classify, record. A failing Spec on the implementation's observation is a concrete
    violation; a bare model/implementation disagreement is widened and otherwise reported as
    no-failing-input-found."""
    def spec_fails(c):
        (_, ia, _, rt), = run_pair([c])
        f = []
        if monitor:
            f += monitor(c, ia, rt)
        if post:
            f += post(c, ia, rt)
        return bool(f)

    if fails:
        small = shrink(s, spec_fails)
        (_, ia, ib, rt), = run_pair([small])
        f2 = (monitor(small, ia, rt) if monitor else []) + (post(small, ia, rt) if post else [])
        text = _replay_text(small, ia, ib, f2 or fails, "spec-fails-on-implementation")
        h = scn_hash("\n".join(eng.model_lines(small)[1:]))
        rp = ctx.write_replay(f"{h}.replay.txt", text)
        ctx.write_replay(f"{h}.json", scn_to_json(small))
        ctx.violation(rp, (f2 or fails)[0])
        return
    small = shrink(s, disagrees)
    # widen: neighbours of the disagreeing scenario — does the Spec fail anywhere near it?
    found = None
    if monitor or post:
        rng = random.Random(scn_hash(scn_to_json(small)))
        for k in range(60):
            c = copy.deepcopy(small)
            c.name = f"{small.name}-w{k}"
            _perturb(rng, c)
            try:
                if _ok(c) and spec_fails(c):
                    found = c
                    break
            except Exception:
                continue
    if found is not None:
        found = shrink(found, spec_fails)
        (_, ia, ib, rt), = run_pair([found])
        f2 = (monitor(found, ia, rt) if monitor else []) + (post(found, ia, rt) if post else [])
        h = scn_hash("\n".join(eng.model_lines(found)[1:]))
        rp = ctx.write_replay(f"{h}.replay.txt", _replay_text(found, ia, ib, f2, "spec-fails-on-implementation"))
        ctx.write_replay(f"{h}.json", scn_to_json(found))
        ctx.violation(rp, f2[0] if f2 else "spec fails")
        return
    (_, ia, ib, _), = run_pair([small])
    h = scn_hash("\n".join(eng.model_lines(small)[1:]))
    text = _replay_text(small, ia, ib, [f"correspondence corr:{ctx.prop}:engine-trace no longer checks: "
                                        f"first difference {first_diff(ia, ib)}"], "model-implementation-disagreement")
    rp = ctx.write_replay(f"{h}.replay.txt", text)
    ctx.write_replay(f"{h}.json", scn_to_json(small))
    ctx.violation(rp, "correspondence", no_input=True)


def _perturb(rng, c: eng.Scn):
    evs = sorted({e for t in c.trans for e in t.events})
    for _ in range(rng.randint(1, 3)):
        r = rng.random()
        if r < 0.5 and evs:
            c.ops.append(("send", rng.choice(evs)))
        elif r < 0.7 and len(c.ops) > 1:
            j = rng.randrange(1, len(c.ops))
            c.ops[j] = ("send", rng.choice(evs)) if evs else c.ops[j]
        elif r < 0.85:
            c.allow = not c.allow
        elif c.acts:
            j = rng.randrange(len(c.acts))
            a = list(c.acts[j])
            a[3] = rng.choice(eng.TRUTHY_TOKS + eng.FALSY_TOKS)
            c.acts[j] = tuple(a)


def _replay_text(s, ia, ib, why, kind):
    return "\n".join(
        [f"# kind: {kind}", "# why: " + " | ".join(why), "# scenario (model line protocol):"]
        + eng.model_lines(s) + ["# implementation observation (canonical):"] + ia
        + ["# model observation (canonical):"] + ib + ["# scenario json:", scn_to_json(s)]) + "\n"


# ----------------------------------------------------------------------------- Lean Spec monitors

REPR2TOK = {eng.rp(v): k for k, v in eng.POOL.items()}


def tok_of_repr(r):
    if r == "-":
        return "-"
    return str(REPR2TOK[r]) if r in REPR2TOK else "-"


def split_ops(a):
    """Split canonical observation lines into per-op blocks: [(entry lines, R line parts)]."""
    blocks, cur = [], []
    for l in a:
        if l.startswith("R "):
            blocks.append((cur, l.split(" ")))
            cur = []
        else:
            cur.append(l)
    return blocks


def c01_monitor(s, a, rt):
    """C01 Spec (`choose`, Lean) evaluated on the implementation's observation, per external send
    whose processing issued no nested send (then the op is exactly one trigger)."""
    mons = []
    prev_cur = "-" if s.cur0 is None else eng.rp(eng.POOL[s.cur0])
    for (entries, R) in split_ops(a):
        i = int(R[1])
        if R[2] == "skipped":
            continue
        kv = dict(p.split("=", 1) for p in R if "=" in p)
        op = s.ops[i]
        sends_here = any(rt.act(int(l.split(" ")[3]), int(l.split(" ")[1]))[2] for l in entries if l.startswith("B "))
        # (event 0 is the name `__initial__`: sent by the *user* to a machine that holds a state it is an undeclared
        # event like any other — the engine's own activation trigger is not an op of the history)
        # (the option assigned after construction: the monitor's scenario header carries the constructor's value, so
        # sends made while the two differ are left to the correspondence with the engine model)
        allow_now = s.allow
        for o in s.ops[:i]:
            if o[0] == "set_allow":
                allow_now = bool(o[1])
        if op[0] == "send" and not sends_here and prev_cur != "-" and allow_now == s.allow:
            out = "ok" if R[2] == "ok" else "err:" + R[3]
            var = sum(1 for o in s.ops[:i] if o[0] == "add_listener")
            mons.append(f"mon i={i} tid={kv['tid']} pre={tok_of_repr(prev_cur)} ev={op[1]} out={out} "
                        f"post={tok_of_repr(kv['cur'])} var={var}")
        prev_cur = kv["cur"]
    if not mons:
        return []
    lines = eng.model_lines(s, kind="c01mon")[:-1] + mons + ["end"]
    res = run_driver(lines).get(s.name, [])
    global C01_MON_STATS
    C01_MON_STATS["judged"] += sum(1 for l in res if l.endswith(" ok") or " FAIL " in l)
    C01_MON_STATS["skipped"] += sum(1 for l in res if " skip " in l)
    return [f"C01: {l}" for l in res if " FAIL " in l] + ([] if len(res) == len(mons) else ["C01: monitor output incomplete"])


C01_MON_STATS = {"judged": 0, "skipped": 0}



def split_top(text):
    """elements of the `repr` of a list (blanks removed), split at top-level commas; None if `text` is not a list"""
    if len(text) < 2 or text[0] != "[" or text[-1] != "]":
        return None
    out, depth, cur, q = [], 0, "", None
    body = text[1:-1]
    i = 0
    while i < len(body):
        ch = body[i]
        if q:
            cur += ch
            if ch == "\\" and i + 1 < len(body):
                cur += body[i + 1]
                i += 1
            elif ch == q:
                q = None
        elif ch in "'\"":
            q = ch
            cur += ch
        elif ch in "([{":
            depth += 1
            cur += ch
        elif ch in ")]}":
            depth -= 1
            cur += ch
        elif ch == "," and depth == 0:
            out.append(cur)
            cur = ""
        else:
            cur += ch
        i += 1
    if cur or body:
        out.append(cur)
    return out


def c14_monitor(s, a, rt):
    """C14 Spec on the implementation's observation: for an external send that issued no nested
    send and did not raise, the returned value is unwrap(before returns ++ on returns) of the
    executed transition (returns read from the callbacks' own E lines), None when nothing fired."""
    import ast
    fails = []
    for (entries, R) in split_ops(a):
        if R[2] != "ok":
            continue
        i = int(R[1])
        op = s.ops[i]
        if op[0] != "send" or (any(l.startswith("S ") for l in entries) and not s.rtc):
            continue
        kv = dict(p.split("=", 1) for p in R if "=" in p)
        tid = kv["tid"]
        # (run-to-completion: chained events run after the event's own block; their returns carry other ids)
        fired = any(l.startswith("T ") for l in entries)
        bef = [l.split(" ", 4)[4] for l in entries if l.startswith(f"E {tid} before ")]
        on = [l.split(" ", 4)[4] for l in entries if l.startswith(f"E {tid} on ")]
        got = R[3]
        if not fired:
            exp_ok = got == "None"
        else:
            rets = bef + on
            if len(rets) == 0:
                exp_ok = got == "None"
            elif len(rets) == 1:
                exp_ok = got == rets[0]
            else:
                val = split_top(got)
                exp_ok = (val is not None and len(val) == len(rets)
                          and sorted(val[:len(bef)]) == sorted(bef)
                          and sorted(val[len(bef):]) == sorted(on))
        if not exp_ok:
            fails.append(f"C14: op {i} returned {got}; before returns {bef}, on returns {on}, fired={fired}")
    return fails


def c04_monitor(s, a, rt):
    """C04 Spec on the implementation's observation (RTC): after an op that ended in a user
    exception (i) the state is the failing transition's source if the raising callback ran in
    validators/cond/before/exit/on and its target if it ran in enter/after (checked when the raising
    callback's signature lets it see source/target), (ii) nothing runs in that op after the raising
    callback, (iii) no later op shows an entry of a trigger that was queued before the failure."""
    fails = []
    if not s.rtc:
        return fails
    for (entries, R) in split_ops(a):
        if R[2] == "skipped":
            continue
        kv = dict(p.split("=", 1) for p in R if "=" in p)
        i = int(R[1])
        if R[2] == "err" and R[3].startswith("user:"):
            open_b = {}
            last_raiser = None
            for n, l in enumerate(entries):
                p = l.split(" ")
                if p[0] == "B":
                    open_b[(p[1], p[2], p[3])] = n
                elif p[0] == "E":
                    open_b.pop((p[1], p[2], p[3]), None)
            if open_b:
                key, n = max(open_b.items(), key=lambda kv_: kv_[1])
                bl = entries[n]
                f = dict(x.split("=", 1) for x in bl.split(" ")[4:])
                ph = key[1]
                # (ii) nothing but the raiser's own S lines after its B line
                for l in entries[n + 1:]:
                    p = l.split(" ")
                    if p[0] in ("B", "E", "T") or (p[0] == "S" and (p[1], p[2], p[3]) != key):
                        fails.append(f"C04: op {i}: entry after the raising callback: {l}")
                        break
                want = None
                if ph in ("enter", "after") and f.get("tgt", "?") not in ("?",):
                    want = eng.rp(eng.POOL[s.states[int(f["tgt"])].val])
                elif ph not in ("enter", "after") and f.get("src", "?") not in ("?", "-"):
                    want = eng.rp(eng.POOL[s.states[int(f["src"])].val])
                if want is not None and kv["cur"] != want:
                    fails.append(f"C04: op {i} failed in phase {ph} ({bl}); state is {kv['cur']}, expected {want}")
    # refine (iii): entries of a later op must carry ids >= that op's own id
    seen_fail = False
    for (entries, R) in split_ops(a):
        kv = dict(p.split("=", 1) for p in R if "=" in p)
        if seen_fail and kv.get("tid", "-") != "-":
            own = int(kv["tid"])
            for l in entries:
                p = l.split(" ")
                if p[0] in ("B", "S", "E") and int(p[1]) < own:
                    fails.append(f"C04: stale trigger {p[1]} ran during op {R[1]} (own id {own}): {l}")
                    break
        if len(R) > 3 and R[2] == "err":
            seen_fail = True
    return fails


def fault_variants(max_faults):
    """expand(rng, scn): run the scenario fault-free on the implementation, number the callback
    invocations, return copies each with one (or two) injected raising invocation(s)."""
    def expand(rng, s):
        base = copy.deepcopy(s)
        base.acts = [a for a in base.acts if a[4] is None]
        impl, _ = eng.run_impl(base)
        if impl and impl[0].startswith("DEFERR"):
            return []
        sib = gen.sibling_map(base)
        cbm = {c.id: c for c in base.cbs}
        pos = []
        for l in impl:
            p = l.split(" ")
            if p[0] == "B":
                cb, tid, ph = int(p[3]), int(p[1]), p[2]
                def sends_at(x, t):
                    for (c_, lo, hi, _r, _z, sd) in base.acts:
                        if c_ == x and lo <= t <= hi:
                            return bool(sd)
                    return False
                if (all(cbm[x].yields == 0 and not sends_at(x, tid) for x in sib.get(cb, ()) if x != cb)
                        and (cb, tid, ph) not in pos):
                    pos.append((cb, tid, ph))
        out = []
        if not pos:
            return [base]
        by_phase = {}
        for x in pos:
            by_phase.setdefault(x[2], []).append(x)
        chosen = []
        phases = list(by_phase)
        rng.shuffle(phases)
        while len(chosen) < min(max_faults, len(pos)):
            for ph in phases:
                cand = [x for x in by_phase[ph] if x not in chosen]
                if cand and len(chosen) < max_faults:
                    chosen.append(rng.choice(cand))
            if all(all(x in chosen for x in by_phase[ph]) for ph in phases):
                break
        for k, (cb, tid, ph) in enumerate(chosen):
            c = copy.deepcopy(base)
            c.name = f"{s.name}-f{k}"
            old = next((a for a in c.acts if a[0] == cb and a[1] <= tid <= a[2]), None)
            c.acts.insert(0, (cb, tid, tid, 0, rng.randint(1, eng.MAX_EXC_TAG), list(old[5]) if old else []))
            # two failures in a row: sometimes add a second fault later
            if rng.random() < 0.25:
                later = [x for x in pos if x[1] > tid]
                if later:
                    cb2, tid2, _ = rng.choice(later)
                    c.acts.insert(0, (cb2, tid2, tid2, 0, rng.randint(1, eng.MAX_EXC_TAG), []))
            # make sure something is sent after the failure
            evs = sorted({e for t in c.trans for e in t.events})
            c.ops = list(c.ops) + [("send", rng.choice(evs)), ("send", rng.choice(evs))]
            out.append(c)
        return out
    return expand


RANK = {"validators": 0, "cond": 1, "before": 2, "exit": 3, "on": 4, "enter": 6, "after": 7}


def c02_monitor(s, a, rt):
    """C02 Spec on the implementation's observation (RTC): inside one trigger's block, after the
    last rejected candidate, phases never go backwards (validators<=cond<=before<=exit<=on<=T<=enter<=after);
    callbacks before the assignment see the block's starting state, those after it the assigned one;
    the `__initial__` block holds only the assignment and enter callbacks."""
    fails = []
    if not s.rtc:
        return fails
    cur = "-" if s.cur0 is None else eng.rp(eng.POOL[s.cur0])
    block_tid, start_cur, last_rank, assigned = None, cur, -1, None
    for l in a:
        p = l.split(" ")
        if p[0] == "R":
            kv = dict(x.split("=", 1) for x in p if "=" in x)
            cur = kv.get("cur", cur)
            block_tid = None
            continue
        if p[0] == "T":
            # belongs to the block in progress (or opens the block of a trigger without callbacks before it)
            if last_rank > 5 or assigned is not None:
                block_tid, start_cur, last_rank, assigned = None, cur, -1, None
            assigned = p[1]
            last_rank = 5
            cur = p[1]
            continue
        tid, ph = p[1], p[2]
        if tid != block_tid:
            block_tid, start_cur, last_rank, assigned = tid, cur, -1, None
        r = RANK[ph]
        if r < last_rank:
            if last_rank <= 1 and r == 0:
                pass  # next candidate after a rejected one: validators again
            else:
                fails.append(f"C02: phase {ph} after rank {last_rank} in trigger {tid}: {l}")
                break
        last_rank = r
        if p[0] == "B":
            f = dict(x.split("=", 1) for x in p[4:])
            want = start_cur if r < 5 else assigned
            if want is not None and f["seen"] != want:
                fails.append(f"C02: callback in phase {ph} saw state {f['seen']}, expected {want}: {l}")
                break
            if f.get("st", "?") not in ("?",) and want is not None and f["st"] != want and f["ev"] != "0":
                fails.append(f"C02: `state` argument {f['st']} differs from the documented view {want}: {l}")
                break
            if f.get("ev") == "0" and ph != "enter":
                fails.append(f"C02: initial activation ran a {ph} callback: {l}")
                break
            cbd = rt.cbmap.get(int(p[3]))
            if cbd is not None and cbd.style == "conv" and cbd.at[0] == "ev" and f.get("ev", "?") != "?" \
                    and f["ev"] != str(cbd.at[1]):
                fails.append(f"C02: event-named callback {cbd.name} ran for event {f['ev']}: {l}")
                break
            if ph in ("exit", "enter") and f.get("src", "?") not in ("?", "-") and f.get("tgt", "?") != "?" \
                    and f.get("ev", "?") != "?":
                cands = [t for t in eng.expanded_trans(s) if str(t.src) == f["src"] and str(t.tgt) == f["tgt"]
                         and int(f["ev"]) in t.events]
                if cands and all(t.internal for t in cands):
                    fails.append(f"C02: {ph} callback ran for an internal transition: {l}")
                    break
    return fails


def c11_monitor(s, a, rt):
    """C11 Spec on the implementation's observation: (i) construction / activation over a model that
    holds a state produces no callback and no write; (ii) over a fresh model the first thing that
    happens is the assignment of the start state's value followed by enter callbacks under
    `__initial__` only, once; (iii) explicit re-activation of an activated machine does nothing."""
    fails = []
    cur = "-" if s.cur0 is None else eng.rp(eng.POOL[s.cur0])
    want_start = None
    if s.start is not None:
        want_start = eng.rp(eng.POOL[s.start])
    else:
        init = [st for st in s.states if st.initial]
        want_start = eng.rp(eng.POOL[init[0].val]) if init else None
    pending_initial = False
    for (entries, R) in split_ops(a):
        if R[2] == "skipped":
            continue
        i = int(R[1])
        op = s.ops[i]
        kv = dict(p.split("=", 1) for p in R if "=" in p)
        if op[0] == "write":      # somebody else stored a state: nothing is pending any more
            cur = kv["cur"]
            if cur != "-":
                pending_initial = False
            continue
        if op[0] == "fresh":
            cur = "-"
            want_start = eng.rp(eng.POOL[op[1]]) if op[1] is not None else (
                eng.rp(eng.POOL[[st for st in s.states if st.initial][0].val]) if any(st.initial for st in s.states) else None)
        if op[0] in ("construct", "reconstruct", "fresh"):
            if cur != "-":
                if entries:
                    fails.append(f"C11: op {i} constructed over stored state {cur} but something ran: {entries[0]}")
                if kv["cur"] != cur:
                    fails.append(f"C11: op {i} construction changed the stored state {cur} -> {kv['cur']}")
                valid = {eng.rp(eng.POOL[st.val]) for st in s.states}
                if R[2] == "err" and cur in valid and not (len(R) > 3 and R[3] == "invaliddef"):
                    fails.append(f"C11: op {i}: construction over the valid stored state {cur} failed ({R[3] if len(R) > 3 else '?'}) "
                                 f"instead of resuming it")
            else:
                pending_initial = True
        if op[0] == "activate" and cur != "-" and not pending_initial and entries:
            fails.append(f"C11: op {i} re-activation ran something: {entries[0]}")
        if (R[2] == "err" and len(R) > 3 and R[3].startswith("notallowed:0:") and op[0] in ("activate", "send")
                and not (op[0] == "send" and op[1] == 0)):
            # (iv) nobody sent `__initial__`: the engine's own activation found a state stored in the meantime
            # and must resume it (D36)
            fails.append(f"C11: op {i} ({op[0]}): TransitionNotAllowed(__initial__) although nobody sent it: the state "
                         f"{cur} stored before the deferred activation was not resumed")
        if pending_initial and entries:
            # the initial block comes first
            if not entries[0].startswith("T ") or (want_start is not None and entries[0] != f"T {want_start}"
                                                   and R[2] == "ok"):
                if not (R[2] == "err" and R[3] == "invalidstate"):
                    fails.append(f"C11: op {i}: first entry after a fresh construction is {entries[0]}, expected T {want_start}")
            j = 1
            t0 = None
            own = kv.get("tid", "-")
            while j < len(entries) and entries[j].split(" ")[0] in ("B", "S", "E"):
                p = entries[j].split(" ")
                if own != "-" and int(p[1]) >= int(own):
                    break  # already the block of the event this op sent
                if t0 is None:
                    t0 = p[1]
                if p[1] != t0:
                    break
                if p[2] != "enter":
                    fails.append(f"C11: op {i}: initial activation ran a {p[2]} callback: {entries[j]}")
                    break
                if p[0] == "B" and "ev=0" not in entries[j] and "ev=?" not in entries[j]:
                    fails.append(f"C11: op {i}: initial enter callback saw event {entries[j]}")
                    break
                j += 1
            pending_initial = False
        if kv["cur"] != "-":
            pending_initial = False
        cur = kv["cur"]
        for l in entries:
            if l.startswith("B ") and " ev=0 " in l and l.split(" ")[2] != "enter":
                fails.append(f"C11: non-enter callback under __initial__: {l}")
    return fails
