"""Correspondence check for engine scenarios: model vs implementation, shrinking, verdicts."""
from __future__ import annotations

import copy
import dataclasses
import json
import os
import random
import time

import eng
import gen
from common import VERIF, first_diff, run_driver
from framework import Ctx, known_findings, scn_hash


# ----------------------------------------------------------------------------- (de)serialisation

def scn_to_json(s: eng.Scn) -> str:
    d = dataclasses.asdict(s)
    return json.dumps(d, sort_keys=True)


def scn_from_json(txt: str) -> eng.Scn:
    d = json.loads(txt)
    s = eng.Scn(name=d["name"])
    for k, v in d.items():
        if k == "states":
            s.states = [eng.St(**x) for x in v]
        elif k == "trans":
            s.trans = [eng.Tr(**x) for x in v]
        elif k == "cbs":
            s.cbs = [eng.Cb(**{**x, "at": tuple(x["at"]), "named": tuple(x["named"])}) for x in v]
        elif k == "acts":
            s.acts = [tuple(a[:5]) + (list(a[5]),) for a in v]
        elif k == "ops":
            s.ops = [tuple(o) for o in v]
        else:
            setattr(s, k, v)
    return s


# ----------------------------------------------------------------------------- running both sides

def run_pair(scns):
    """Returns list of (scn, impl canonical lines, model canonical lines, runtime)."""
    lines = []
    for s in scns:
        lines += eng.model_lines(s)
    mod = run_driver(lines)
    out = []
    for s in scns:
        impl, rt = eng.run_impl(s)
        out.append((s, eng.canon(impl), eng.model_obs(s, mod.get(s.name, ["<no model output>"])), rt))
    return out


def disagrees(s):
    (_, a, b, _), = run_pair([s])
    return first_diff(a, b) is not None


def shrink(s: eng.Scn, still_bad, budget_s=20.0):
    """Greedy shrinking while `still_bad(scn)` holds."""
    t0 = time.time()
    cur = s
    changed = True
    while changed and time.time() - t0 < budget_s:
        changed = False
        # drop ops from the end, then single ops
        for i in range(len(cur.ops) - 1, 0, -1):
            c = copy.deepcopy(cur)
            del c.ops[i]
            if _ok(c) and still_bad(c):
                cur, changed = c, True
        for i in range(len(cur.acts) - 1, -1, -1):
            c = copy.deepcopy(cur)
            del c.acts[i]
            if _ok(c) and still_bad(c):
                cur, changed = c, True
        for i in range(len(cur.cbs) - 1, -1, -1):
            c = copy.deepcopy(cur)
            cid = c.cbs[i].id
            del c.cbs[i]
            c.acts = [a for a in c.acts if a[0] != cid]
            c.listeners_ctor = [p for p in c.listeners_ctor if any(cb.provider == p for cb in c.cbs)]
            if _ok(c) and still_bad(c):
                cur, changed = c, True
        for i in range(len(cur.trans) - 1, -1, -1):
            if len(cur.trans) <= 1:
                break
            c = copy.deepcopy(cur)
            del c.trans[i]
            ok = True
            for cb in c.cbs:
                if cb.at[0] == "t":
                    if cb.at[1] == i:
                        ok = False
                    elif cb.at[1] > i:
                        cb.at = ("t", cb.at[1] - 1)
            if ok and _ok(c) and still_bad(c):
                cur, changed = c, True
    return cur


def _ok(c):
    try:
        impl, _ = eng.run_impl(c)
        return not (impl and impl[0].startswith("DEFERR"))
    except Exception:
        return False


# ----------------------------------------------------------------------------- the check

def engine_check(ctx: Ctx, profile, n_quick, n_thorough, nontrivial, monitor=None, tag=None,
                 post=None, mutate=None):
    """Generate scenarios for `ctx.prop`, compare model and implementation, decide.

    nontrivial(scn, impl_lines, rt) -> bool ; monitor(scn, impl_lines, rt) -> list[str] failures
    (the property's Spec evaluated on the implementation's observation); post(scn, impl, rt) ->
    list[str] extra harness-level assertions that are part of the property."""
    tag = tag or ctx.prop
    target = n_quick if ctx.tier == "quick" else n_thorough
    known = {k["replay"]: k for k in known_findings(ctx.prop) if k.get("status") == "known"}
    stats = dict(evaluations=0, disagreements=0, monitor_failures=0, sends=0, ops=0)
    nontriv = set()
    samples = []
    dist = {}
    corpus_dir = os.path.join(VERIF, "corpus", ctx.prop)
    scns = []
    if os.path.isdir(corpus_dir):
        for fn in sorted(os.listdir(corpus_dir)):
            if fn.endswith(".json"):
                scns.append(scn_from_json(open(os.path.join(corpus_dir, fn)).read()))
    n_corpus = len(scns)
    i = 0
    chunk = 100
    done = False
    pending = list(scns)
    while not done:
        if not pending:
            if stats["evaluations"] - n_corpus >= target or ctx.left() < 5:
                break
            for _ in range(chunk):
                rng = random.Random(f"{ctx.seed}:{tag}:{i}")
                s = gen.gen_scenario(rng, profile, f"{tag}-{ctx.seed}-{i}")
                if mutate:
                    mutate(rng, s)
                pending.append(s)
                i += 1
        batch, pending = pending[:chunk], pending[chunk:]
        for (s, a, b, rt) in run_pair(batch):
            stats["evaluations"] += 1
            stats["ops"] += len(s.ops)
            if a and a[0].startswith("DEFERR"):
                dist["deferr"] = dist.get("deferr", 0) + 1
                continue
            _distribution(dist, s, a)
            if nontrivial(s, a, rt):
                nontriv.add(scn_hash("\n".join(eng.model_lines(s)[1:])))
                if len(samples) < 3:
                    samples.append(dict(scenario=eng.model_lines(s)[:40], observation=a[:25]))
            fails = []
            if monitor:
                fails += monitor(s, a, rt)
            if post:
                fails += post(s, a, rt)
            d = first_diff(a, b)
            if fails:
                stats["monitor_failures"] += 1
                _report(ctx, s, a, b, fails, monitor, post, known)
            elif d:
                stats["disagreements"] += 1
                _report(ctx, s, a, b, [], monitor, post, known, diff=d)
            if len(ctx.violations) >= 3:
                done = True
                break
    ctx.coverage.update(
        evaluations=stats["evaluations"], distinct_nontrivial=len(nontriv),
        traces_validated_against_impl=stats["evaluations"] - stats["disagreements"],
        disagreements=stats["disagreements"], monitor_failures=stats["monitor_failures"],
        corpus=n_corpus, samples=samples, distribution=dist,
    )
    return stats


def _distribution(dist, s, a):
    def inc(k, v=1):
        dist[k] = dist.get(k, 0) + v
    inc(f"states={len(s.states)}")
    inc(f"trans={min(len(s.trans), 9)}")
    inc("rtc_off", int(not s.rtc))
    inc("allow", int(s.allow))
    inc("async", int(s.is_async()))
    inc(f"driver={s.driver}")
    for l in a:
        p = l.split(" ")
        if p[0] == "B":
            inc("cb:" + p[2])
        elif p[0] == "S":
            inc("nested_sends")
        elif p[0] == "R" and len(p) > 2:
            inc("R:" + (p[2] if p[2] != "err" else "err:" + p[3].split(":")[0]))


def _report(ctx, s, a, b, fails, monitor, post, known, diff=None):
    """Shrink, classify, record. A failing Spec on the implementation's observation is a concrete
    violation; a bare model/implementation disagreement is widened and otherwise reported as
    no-failing-input-found."""
    def spec_fails(c):
        (_, ia, _, rt), = run_pair([c])
        f = []
        if monitor:
            f += monitor(c, ia, rt)
        if post:
            f += post(c, ia, rt)
        return bool(f)

    if fails:
        small = shrink(s, spec_fails)
        (_, ia, ib, rt), = run_pair([small])
        f2 = (monitor(small, ia, rt) if monitor else []) + (post(small, ia, rt) if post else [])
        text = _replay_text(small, ia, ib, f2 or fails, "spec-fails-on-implementation")
        h = scn_hash("\n".join(eng.model_lines(small)[1:]))
        rp = ctx.write_replay(f"{h}.replay.txt", text)
        ctx.write_replay(f"{h}.json", scn_to_json(small))
        ctx.violation(rp, (f2 or fails)[0])
        return
    small = shrink(s, disagrees)
    # widen: neighbours of the disagreeing scenario — does the Spec fail anywhere near it?
    found = None
    if monitor or post:
        rng = random.Random(scn_hash(scn_to_json(small)))
        for k in range(60):
            c = copy.deepcopy(small)
            c.name = f"{small.name}-w{k}"
            _perturb(rng, c)
            try:
                if _ok(c) and spec_fails(c):
                    found = c
                    break
            except Exception:
                continue
    if found is not None:
        found = shrink(found, spec_fails)
        (_, ia, ib, rt), = run_pair([found])
        f2 = (monitor(found, ia, rt) if monitor else []) + (post(found, ia, rt) if post else [])
        h = scn_hash("\n".join(eng.model_lines(found)[1:]))
        rp = ctx.write_replay(f"{h}.replay.txt", _replay_text(found, ia, ib, f2, "spec-fails-on-implementation"))
        ctx.write_replay(f"{h}.json", scn_to_json(found))
        ctx.violation(rp, f2[0] if f2 else "spec fails")
        return
    (_, ia, ib, _), = run_pair([small])
    h = scn_hash("\n".join(eng.model_lines(small)[1:]))
    text = _replay_text(small, ia, ib, [f"correspondence corr:{ctx.prop}:engine-trace no longer checks: "
                                        f"first difference {first_diff(ia, ib)}"], "model-implementation-disagreement")
    rp = ctx.write_replay(f"{h}.replay.txt", text)
    ctx.write_replay(f"{h}.json", scn_to_json(small))
    ctx.violation(rp, "correspondence", no_input=True)


def _perturb(rng, c: eng.Scn):
    evs = sorted({e for t in c.trans for e in t.events})
    for _ in range(rng.randint(1, 3)):
        r = rng.random()
        if r < 0.5 and evs:
            c.ops.append(("send", rng.choice(evs)))
        elif r < 0.7 and len(c.ops) > 1:
            j = rng.randrange(1, len(c.ops))
            c.ops[j] = ("send", rng.choice(evs)) if evs else c.ops[j]
        elif r < 0.85:
            c.allow = not c.allow
        elif c.acts:
            j = rng.randrange(len(c.acts))
            a = list(c.acts[j])
            a[3] = rng.choice(eng.TRUTHY_TOKS + eng.FALSY_TOKS)
            c.acts[j] = tuple(a)


def _replay_text(s, ia, ib, why, kind):
    return "\n".join(
        [f"# kind: {kind}", "# why: " + " | ".join(why), "# scenario (model line protocol):"]
        + eng.model_lines(s) + ["# implementation observation (canonical):"] + ia
        + ["# model observation (canonical):"] + ib + ["# scenario json:", scn_to_json(s)]) + "\n"
