"""C06 — shared pieces of the controlled schedulers: scenario, machine under test, observation,
Spec monitor (independent of the model), mapping of an implementation schedule to model steps.

Nothing here touches the library's source: the machine is built through the public API, callbacks are
harness functions, scheduling points come from `sys.settrace` (threads) or from a custom event loop
(asyncio). The only internal attribute read is `sm._engine._external_queue` *after all senders
returned* (length only), as the last observation.
"""
from __future__ import annotations

import dataclasses
import json
import linecache
import os
import re

CB_NAMES = ("before", "exit", "on", "enter", "after")


# ----------------------------------------------------------------------------- scenario

@dataclasses.dataclass
class Scenario:
    kind: str                      # "threads" | "asyncio"
    progs: list                    # progs[i] = list of uids sender i sends, in order
    nest: dict                     # uid -> list of uids the callbacks of uid send (nested sends)
    nest_at: dict                  # uid -> callback name that issues the nested sends
    yields: dict                   # asyncio: callback name -> number of `await asyncio.sleep(0)` (0-2)
    split: list = dataclasses.field(default_factory=list)   # asyncio: uids whose send is `c = sm.send(); await sleep(0); await c`
    gaps: list = dataclasses.field(default_factory=list)    # asyncio: gaps[i] = number of `await asyncio.sleep(0)` sender i does before each send
    attach: list = dataclasses.field(default_factory=list)  # asyncio: senders that call `sm.add_listener(<plain object>)` before their first send
    gran: str = "full"             # threads: "full" = every line of event/statemachine/sync/base; "engine" = sync/base only
    name: str = "scn"

    def to_json(self):
        d = dataclasses.asdict(self)
        d["nest"] = {str(k): v for k, v in self.nest.items()}
        d["nest_at"] = {str(k): v for k, v in self.nest_at.items()}
        return json.dumps(d, sort_keys=True)

    @staticmethod
    def from_json(txt):
        d = json.loads(txt)
        d["nest"] = {int(k): v for k, v in d["nest"].items()}
        d["nest_at"] = {int(k): v for k, v in d["nest_at"].items()}
        return Scenario(**d)

    @property
    def n(self):
        return len(self.progs)

    def all_uids(self):
        out = []
        for p in self.progs:
            out += p
        for v in self.nest.values():
            out += v
        return out

    def top_uids(self):
        return [u for p in self.progs for u in p]

    def describe(self):
        return (f"{self.kind} senders={self.n} events={[len(p) for p in self.progs]} "
                f"nested={sum(len(v) for v in self.nest.values())} yields={sum(self.yields.values())} "
                f"split={len(self.split)} gaps={self.gaps} gran={self.gran}")


PROBE_UID = 9999


class U:
    """The identity of a sent event travels as a keyword argument; it compares (and hashes) equal to every
    other `U`, so that two sends of `go` are *value-equal* events — they are still two events, and each must
    be processed exactly once."""
    __slots__ = ("n",)

    def __init__(self, n):
        self.n = n

    def __eq__(self, other):
        return isinstance(other, U)

    def __hash__(self):
        return 3

    def __repr__(self):
        return f"U({self.n})"


def un(uid):
    return uid.n if isinstance(uid, U) else uid


# ----------------------------------------------------------------------------- observation

class Obs:
    """What one schedule showed. Filled by the harness callbacks / senders."""

    def __init__(self, scn):
        self.scn = scn
        self.marks = []        # (kind 'B'|'E', uid, callback name, actor)
        self.sends = []        # (actor, uid, ret, exception repr | None)     top-level sends, in return order
        self.nested = []       # (actor, parent uid, uid, ret, exception repr | None)
        self.errors = []       # harness-level problems (exception in a sender, timeout, ...)
        self.final_state = None
        self.queue_left = None
        self.probe = None      # (ret of the follow-up send, final state after it)
        self.labels = []       # model steps realised by this schedule (mapper)
        self.map_notes = []
        self.decisions = 0
        self.trace = []        # per decision: (n alternatives, cost) for the DFS
        self.where = []        # optional: source position of each decision (replays)
        self.window_preempt = False   # non-triviality: a switch landed between another sender's put and release

    def summary(self):
        proc = []
        seen = set()
        for k, uid, name, actor in self.marks:
            if k == "B" and uid not in seen:
                seen.add(uid)
                proc.append((actor, uid))
        return dict(
            proc=proc,
            rets={uid: ret for _, uid, ret, _ in self.sends},
            left=self.queue_left,
            final=self.final_state,
        )


# ----------------------------------------------------------------------------- Spec monitor

def spec_check(scn: Scenario, obs: Obs):
    """Independent oracle, written from the English statement of C06, on the implementation's
    observation only. Returns a list of failure strings (empty = property holds on this schedule)."""
    fails = []
    tail = []
    for e in obs.errors:
        tail.append(f"harness/sender error: {e}")
    for actor, uid, ret, exc in obs.sends:
        if exc is not None:
            tail.append(f"send of {uid} by sender {actor} raised {exc}")
    for actor, parent, uid, ret, exc in obs.nested:
        if exc is not None:
            tail.append(f"nested send of {uid} (from callbacks of {parent}) raised {exc}")

    # (1) callback sequences of different events never overlap:
    #     along the global mark sequence the uid changes only at block boundaries, a uid never comes
    #     back once another one started, and every block is a sequence of closed B..E pairs.
    closed = set()
    cur = None
    depth = 0
    for k, uid, name, actor in obs.marks:
        if uid != cur:
            if depth != 0:
                fails.append(f"overlap: callback of event {uid} ({k} {name}, sender {actor}) while a callback of event {cur} is still running")
                depth = 0
            if uid in closed:
                fails.append(f"overlap: callbacks of event {uid} resume ({k} {name}) after callbacks of event {cur} started")
            if cur is not None:
                closed.add(cur)
            cur = uid
        depth += 1 if k == "B" else -1
        if depth < 0 or depth > 1:
            fails.append(f"overlap: unbalanced begin/end inside the block of event {uid} at {k} {name}")
            depth = max(0, min(depth, 1))
    # one event is processed by one sender only
    by_uid = {}
    for k, uid, name, actor in obs.marks:
        by_uid.setdefault(uid, set()).add(actor)
    for uid, actors in by_uid.items():
        if len(actors) > 1:
            fails.append(f"event {uid} had callbacks run by several senders {sorted(actors)}")

    # (2) exactly once: every sent (accepted) event has exactly one `on` callback run
    sent = [uid for _, uid, _, _ in obs.sends] + [uid for _, _, uid, _, _ in obs.nested]
    on_count = {}
    for k, uid, name, actor in obs.marks:
        if k == "B" and name == "on":
            on_count[uid] = on_count.get(uid, 0) + 1
    for uid in sent:
        c = on_count.get(uid, 0)
        if c != 1:
            fails.append(f"event {uid} was sent once but processed {c} times")
    for uid in on_count:
        if uid not in sent:
            fails.append(f"event {uid} processed but never sent")

    #     per-sender order: each sender's events are processed in the order it sent them
    order = []
    for k, uid, name, actor in obs.marks:
        if k == "B" and name == "on" and uid not in order:
            order.append(uid)
    pos = {u: i for i, u in enumerate(order)}
    for i, prog in enumerate(scn.progs):
        got = [u for u in prog if u in pos]
        if sorted(got, key=lambda u: pos[u]) != got:
            fails.append(f"sender {i} sent {prog} but they were processed in order {sorted(got, key=lambda u: pos[u])}")
    for parent, kids in scn.nest.items():
        got = [u for u in kids if u in pos]
        if sorted(got, key=lambda u: pos[u]) != got:
            fails.append(f"nested sends {kids} of event {parent} processed in order {sorted(got, key=lambda u: pos[u])}")
        for u in got:
            if parent in pos and pos[u] < pos[parent]:
                fails.append(f"nested event {u} processed before its sender's event {parent}")

    # (3) all senders returned => nothing left unprocessed
    total = len(sent)
    if obs.queue_left is not None and obs.queue_left != 0:
        fails.append(f"stranded: all senders returned, {obs.queue_left} event(s) still in the queue "
                     f"({len(order)} of {total} processed)")
    if len(order) != total:
        fails.append(f"all senders returned but {len(order)} of {total} sent events were processed")
    if obs.final_state is not None and obs.final_state != f"s{total}":
        fails.append(f"final state {obs.final_state} but {total} events were sent (expected s{total})")
    if obs.probe is not None:
        ret, st = obs.probe
        if ret != PROBE_UID:
            fails.append(f"follow-up send returned {ret!r}: a stale result of an event left behind (expected {PROBE_UID})")
    # dedupe, keep order (clauses of the property first, then escaped exceptions)
    out = []
    for f in fails + tail:
        if f not in out:
            out.append(f)
    return out


# ----------------------------------------------------------------------------- mapping lines -> protocol steps

ACQ, TEST, POP, TRIG, REL, RECHECK, PUT = "ACQ", "TEST", "POP", "TRIG", "REL", "RECHECK", "PUT"


def classify_engine(engine_file, base_file):
    """Find the protocol's source lines by their text (no line numbers hard-wired, no source hooks).
    Returns ({(file, lineno): KIND}, text lookup, problems)."""
    kinds = {}
    problems = []

    def func_lines(path, func):
        lines = linecache.getlines(path)
        out = []
        inside = False
        indent = None
        for no, l in enumerate(lines, 1):
            m = re.match(r"^(\s*)(async\s+)?def\s+(\w+)\s*\(", l)
            if m:
                if m.group(3) == func:
                    inside, indent = True, len(m.group(1))
                    continue
                elif inside and len(m.group(1)) <= indent:
                    inside = False
            if inside:
                out.append((no, l.strip()))
        return out

    seen_rel = False
    seen_acq = False
    for no, t in func_lines(engine_file, "processing_loop"):
        if t.startswith("#") or not t:
            continue
        k = None
        if ".acquire(" in t:
            k = ACQ
            seen_acq = True
        elif not seen_acq:
            continue          # the non-RTC branch of the sync engine precedes the acquire
        elif t.startswith("while ") and "_external_queue" in t:
            k = TEST
        elif re.search(r"_external_queue\.pop(left)?\(", t):
            k = POP
        elif "._trigger(" in t:
            k = TRIG
        elif ".release(" in t:
            k = REL
            seen_rel = True
        elif t.startswith("if ") and "_external_queue" in t and seen_rel and "_rtc" not in t:
            k = RECHECK
        if k:
            kinds[(engine_file, no)] = k
    for no, t in func_lines(base_file, "put"):
        if "_external_queue.append" in t:
            kinds[(base_file, no)] = PUT
    have = set(kinds.values())
    for k in (ACQ, TEST, POP, TRIG, REL, PUT):
        if k not in have:
            problems.append(f"anchor {k} not found in {os.path.basename(engine_file)}/{os.path.basename(base_file)}")
    for k in (ACQ, TEST, POP, TRIG, REL, PUT, RECHECK):
        if sum(1 for v in kinds.values() if v == k) > 1:
            problems.append(f"anchor {k} found more than once")
    return kinds, problems


class Mapper:
    """Turns the per-actor stream of trace events into model labels, in global execution order.

    A `line` event fires *before* the line runs; the line's effect happens when the actor continues.
    An actor runs exclusively from the moment it continues until its next trace event (threads: baton;
    asyncio: single thread), so emitting the label at the actor's *next* event keeps the global order.
    """

    def __init__(self, kinds, engine_file):
        self.kinds = kinds
        self.engine_file = engine_file
        self.labels = []
        self.pending = {}      # actor -> (KIND, frame id)
        self.prev = {}         # frame id -> previous KIND seen in that processing_loop frame
        self.in_cb = {}        # actor -> number of open callbacks (the actor is `processing`)
        self.sending = {}      # actor -> uid of the send in progress (set by the harness)
        self.notes = []
        self.open = set()      # senders between their put and their return (non-triviality rule)
        self.has_recheck = RECHECK in set(kinds.values())

    def _emit(self, label):
        self.labels.append(label)
        p = label.split(" ")
        if p[0] == "put":
            self.open.add(int(p[1]))
        elif p[0] in ("acqFail", "recheckEmpty") or (p[0] == "release" and not self.has_recheck):
            self.open.discard(int(p[1]))

    def set_sending(self, actor, uid):
        self.sending[actor] = uid

    def cb(self, actor, kind):
        self._resolve(actor, None, None)
        self.in_cb[actor] = self.in_cb.get(actor, 0) + (1 if kind == "B" else -1)

    def _resolve(self, actor, frame, text):
        p = self.pending.pop(actor, None)
        if p is None:
            return
        kind, fid = p
        nested = self.in_cb.get(actor, 0) > 0
        if kind == PUT:
            uid = self.sending.get(actor, -1)
            self._emit(f"nested {actor} {uid}" if nested else f"put {actor} {uid}")
        elif kind == ACQ:
            failed = text is not None and text.startswith("return")
            if nested:
                if not failed:
                    self._emit(f"acqOk {actor}")   # impossible in the model: will be rejected
            else:
                self._emit(f"acqFail {actor}" if failed else f"acqOk {actor}")
        elif kind == TEST:
            same = frame is not None and id(frame) == fid
            k2 = self.kinds.get((frame.f_code.co_filename, frame.f_lineno)) if same else None
            if k2 != POP:
                self._emit(f"empty {actor}")
        elif kind == POP:
            self._emit(f"pop {actor}")
        elif kind == REL:
            self._emit(f"release {actor}")
        elif kind == RECHECK:
            more = text is not None and "processing_loop(" in text
            self._emit(f"recheckMore {actor}" if more else f"recheckEmpty {actor}")

    def line(self, actor, frame):
        fn, no = frame.f_code.co_filename, frame.f_lineno
        k = self.kinds.get((fn, no))
        text = linecache.getline(fn, no).strip()
        self._resolve(actor, frame, text)
        if frame.f_code.co_name == "processing_loop" and fn == self.engine_file:
            fid = id(frame)
            if self.prev.get(fid) == TRIG:
                self._emit(f"done {actor}")
            self.prev[fid] = k
        if k in (ACQ, TEST, POP, REL, RECHECK, PUT):
            self.pending[actor] = (k, id(frame))

    def other(self, actor, frame):
        """call / return events: they only complete a pending single-line step"""
        p = self.pending.get(actor)
        if p and p[0] in (PUT, POP, REL):
            self._resolve(actor, frame, None)

    def finish(self, actor):
        self._resolve(actor, None, "return")


# ----------------------------------------------------------------------------- model side

def validate_lines(name, scn: Scenario, labels):
    fixed, atomic = (1, 0) if scn.kind == "threads" else (0, 1)
    out = [f"scn validate {name}", f"cfg fixed={fixed} atomic={atomic} n={scn.n}"]
    out += [f"l {l}" for l in labels]
    out.append("end")
    return out


def enum_lines(name, scn: Scenario, limit=300000):
    fixed, atomic = (1, 0) if scn.kind == "threads" else (0, 1)
    out = [f"scn enum {name}", f"cfg fixed={fixed} atomic={atomic} n={scn.n} limit={limit}"]
    for i, p in enumerate(scn.progs):
        out.append(f"prog {i} {','.join(map(str, p)) or '-'}")
    for u, kids in scn.nest.items():
        if kids:
            out.append(f"nest {u} {','.join(map(str, kids))}")
    out.append("end")
    return out


def outcome_line(scn: Scenario, obs: Obs):
    """The implementation's outcome in the driver's `out ...` format."""
    s = obs.summary()
    proc = ",".join(f"{a}:{u}" for a, u in s["proc"]) or "-"
    rets = ",".join(f"{u}:{'N' if r is None else r}" for u, r in sorted(s["rets"].items())) or "-"
    left = "-" if not obs.queue_left else f"#{obs.queue_left}"
    return f"out proc={proc} rets={rets} left={left}"


def model_outcome_matches(impl_line, model_line):
    """Compare `out` lines; the implementation only knows how many events were left, not which."""
    a = impl_line.split(" ")
    b = model_line.split(" ")
    if a[:3] != b[:3]:
        return False
    la, lb = a[3][5:], b[3][5:]
    if la.startswith("#"):
        return lb != "-" and len(lb.split(",")) == int(la[1:])
    return la == lb and len(b) == 4
