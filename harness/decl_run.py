"""C15: run rendered declaration programs against the real library; canonical structure and traces.

Only public API is used: `cls.states`, `state.transitions`, `transition.source/target/internal/events`,
the callback groups of a transition/state (`validators/cond/before/on/after`, `enter/exit`),
`cls.events`, `sm.allowed_events`, `sm.send`, `sm.current_state`.
"""
from __future__ import annotations

import json
import warnings
from enum import Enum, IntEnum

from decl_gen import EV0, EVNAMES


def cb(n):
    def deco(f):
        f.__cbid__ = n
        return f
    return deco


class Rec:
    """the model object: records callback invocations; guards read the step's valuation"""

    def __init__(self):
        self.state = None
        self.log = []
        self.rho = {}
        self.raises = ()

    def hit(self, n):
        self.log.append(n)
        if n in self.raises:
            raise ValueError(f"cb{n}")
        if n in self.rho:
            return self.rho[n]
        return f"r{n}"


class Ext:
    """an object outside the machine; its bound methods `EXT.cb<n>` are given as callbacks. It is armed only after
    the class statement has run: the callbacks a machine calls must be methods of *this* object, not of a copy
    taken while the class was being put together."""
    armed = False


def _ext_method(n):
    def f(self, model):
        if not self.armed:
            raise AssertionError(f"cb{n} was called on a stale copy of the object it is bound to")
        return model.hit(n)
    f.__name__ = f.__qualname__ = f"cb{n}"
    f.__cbid__ = n
    return f


for _n in range(1, 120):
    setattr(Ext, f"cb{_n}", _ext_method(_n))


def build(src, clsname="M"):
    """exec the source text; returns (class, None) or (None, 'ExceptionType: msg')"""
    from statemachine import State, StateMachine
    from statemachine.event import Event
    from statemachine.states import States
    def use_first(base):
        if getattr(base, "_abstract", True):
            return
        for st in list(base.states):
            try:
                list(base(model=Rec(), start_value=st.value).allowed_events)
            except Exception:  # noqa: BLE001  (a base that cannot be instantiated on its own: nothing to use)
                pass
    ext = Ext()
    ns = dict(StateMachine=StateMachine, State=State, States=States, Event=Event, Enum=Enum, IntEnum=IntEnum, cb=cb,
              use_first=use_first, EXT=ext)
    try:
        with warnings.catch_warnings():
            warnings.simplefilter("ignore")
            exec(compile(src, "<rendering>", "exec"), ns)
        ext.armed = True
        return ns[clsname], None
    except Exception as ex:  # noqa: BLE001
        return None, f"{type(ex).__name__}: {ex}"


def _evid(name):
    name = str(name)
    if name in EVNAMES:
        return EV0 + EVNAMES.index(name)
    if name.startswith("ev") and name[2:].isdigit():
        return EV0 + int(name[2:])
    return 9000 + (sum(map(ord, name)) % 1000)     # not an event of the abstract machine


def _cbid(spec):
    f = spec.func
    if isinstance(f, str):
        if f.startswith("cb") and f[2:].isdigit():
            return int(f[2:])
        return 7000 + (sum(map(ord, f)) % 1000)
    return getattr(f, "__cbid__", 7999)


def _show(xs):
    xs = sorted(xs)
    return ",".join(str(x) for x in xs) if xs else "-"


def _specs(grouper, cond=False):
    out = []
    for spec in grouper:
        if spec.is_convention:
            continue
        n = _cbid(spec)
        out.append(2 * n + (1 if spec.expected_value else 0) if cond else n)
    return out


def _sid(state):
    i = state.id
    return int(i[1:]) if i.startswith("s") and i[1:].isdigit() else 8000 + (sum(map(ord, i)) % 1000)


def _val(state):
    v = state.value
    if isinstance(v, Enum):
        v = v.value
    return "-" if v == state.id else str(v)


def extract(cls):
    """canonical lines, same format as the Lean driver `drv_decl`"""
    out = ["err 0"]
    states = list(cls.states)
    for s in states:
        out.append(f"state {_sid(s)} {_val(s)} {int(bool(s.initial))} {int(bool(s.final))} "
                   f"en={_show(_specs(s.enter))} ex={_show(_specs(s.exit))}")
    for s in states:
        for t in s.transitions:
            if t.source is not s and t.source != s:
                out.append(f"t {_sid(s)} FOREIGN-SOURCE {t.source!r}")
                continue
            out.append(f"t {_sid(s)} {_sid(t.target)} {int(bool(t.internal))} ev={_show(_evid(e) for e in t.events)} "
                       f"v={_show(_specs(t.validators))} c={_show(_specs(t.cond, cond=True))} "
                       f"b={_show(_specs(t.before))} o={_show(_specs(t.on))} a={_show(_specs(t.after))}")
    out.append(f"events {_show(_evid(e) for e in cls.events)}")
    # a base class of the machine is a machine of its own: its instances are used *first* (every state, allowed_events
    # read) — what the subclass then answers must not depend on that
    for base in cls.__mro__[1:]:
        if getattr(base, "states", None) and not getattr(base, "_abstract", True):
            for s in list(base.states):
                with warnings.catch_warnings():
                    warnings.simplefilter("ignore")
                    try:
                        list(base(model=Rec(), start_value=s.value).allowed_events)
                    except Exception:  # noqa: BLE001  (finding D7: a subclass may have changed its base)
                        pass
    for s in states:
        with warnings.catch_warnings():
            warnings.simplefilter("ignore")
            try:
                sm = cls(model=Rec(), start_value=s.value)
                al = _show({_evid(e.id) for e in sm.allowed_events})
            except Exception as ex:  # noqa: BLE001
                al = f"EXC:{type(ex).__name__}"
        out.append(f"allowed {_sid(s)} {al}")
    return out


def semantic(lines):
    """what `≈` compares: states, event set, per (state, event) the ordered candidates, allowed events"""
    if lines and lines[0] != "err 0":
        return dict(err=lines[0])
    states, cands, events, allowed = [], {}, None, {}
    for l in lines[1:]:
        p = l.split(" ")
        if p[0] == "state":
            states.append(l)
        elif p[0] == "t" and p[2] == "FOREIGN-SOURCE":
            cands.setdefault((p[1], "any"), []).append("transition listed under a state that is not its source: " + " ".join(p[3:]))
        elif p[0] == "t":
            evs = p[4][3:]
            for e in ([] if evs == "-" else evs.split(",")):
                cands.setdefault((p[1], e), []).append(" ".join(p[2:4] + p[5:]))
        elif p[0] == "events":
            events = p[1]
        elif p[0] == "allowed":
            allowed[p[1]] = p[2]
    return dict(err="err 0", states=states, cands=cands, events=events, allowed=allowed)


def sem_diff(a, b):
    """first difference between two `semantic` values, or None"""
    if a.get("err") != b.get("err"):
        return f"err: {a.get('err')} vs {b.get('err')}"
    if a["err"] != "err 0":
        return None
    if a["states"] != b["states"]:
        return f"states: {a['states']} vs {b['states']}"
    if a["events"] != b["events"]:
        return f"events: {a['events']} vs {b['events']}"
    for k in sorted(set(a["cands"]) | set(b["cands"])):
        if a["cands"].get(k, []) != b["cands"].get(k, []):
            return f"candidates of state {k[0]} for event {k[1]}: {a['cands'].get(k, [])} vs {b['cands'].get(k, [])}"
    if a["allowed"] != b["allowed"]:
        return f"allowed_events: {a['allowed']} vs {b['allowed']}"
    return None


def gen_scenario(rng, nev, guard_ids, all_ids, nsteps=None):
    steps = []
    for _ in range(nsteps or rng.randint(4, 10)):
        r = rng.random()
        if r < 0.06:
            ev = "nope"
        else:
            e = rng.randrange(nev)
            ev = EVNAMES[e] if e < len(EVNAMES) else f"ev{e}"
        rho = {str(g): (rng.random() < 0.6) for g in guard_ids}
        raises = [rng.choice(all_ids)] if all_ids and rng.random() < 0.05 else []
        steps.append(dict(ev=ev, rho=rho, raises=raises))
    return steps


def trace(cls, steps):
    """construct, then send every step's event; one line per step"""
    out = []
    m = Rec()
    with warnings.catch_warnings():
        warnings.simplefilter("ignore")
        try:
            sm = cls(model=m)
        except Exception as ex:  # noqa: BLE001
            return [f"construct EXC {type(ex).__name__}"]
        out.append(f"construct state={sm.current_state.id} log={sorted(m.log)}")
        for i, st in enumerate(steps):
            m.log = []
            m.rho = {int(k): v for k, v in st["rho"].items()}
            m.raises = tuple(st["raises"])
            try:
                r = sm.send(st["ev"])
                res = f"ok {sorted(r) if isinstance(r, list) else r!r}"
            except Exception as ex:  # noqa: BLE001
                res = f"exc {type(ex).__name__}"
            try:
                cur = sm.current_state.id
                al = sorted(e.id for e in sm.allowed_events)
            except Exception as ex:  # noqa: BLE001
                cur, al = f"EXC {type(ex).__name__}", []
            out.append(f"{i} {st['ev']} {res} state={cur} log={sorted(m.log)} allowed={al}")
    return out


# ----------------------------------------------------------------------------- replay files

def replay_text(what, machine, renderings, steps):
    """renderings: list of dict(tags, src, model=[driver lines] or None)"""
    out = [f"# C15 replay: {what}",
           "# every rendering below declares the same abstract machine; they must be equivalent (same states,",
           "# same events, same ordered candidates per (state, event), same allowed events) and give the same",
           "# trace on the scenario; each must elaborate like the Lean model of its program (section model).",
           "=== machine"] + machine.split("\n")
    for i, r in enumerate(renderings):
        out.append(f"=== rendering {i} tags={','.join(sorted(r.get('tags', [])))}")
        out += r["src"].split("\n")
        if r.get("model"):
            out.append(f"=== model {i}")
            out += r["model"]
    out.append("=== scenario")
    out.append(json.dumps(steps))
    return "\n".join(out) + "\n"


def parse_replay(text):
    sections = []
    cur = None
    for l in text.split("\n"):
        if l.startswith("=== "):
            cur = (l[4:].strip(), [])
            sections.append(cur)
        elif cur is not None:
            cur[1].append(l)
    rend, steps = {}, []
    for head, body in sections:
        p = head.split(" ")
        if p[0] == "rendering":
            rend.setdefault(int(p[1]), {})["src"] = "\n".join(body)
        elif p[0] == "model":
            rend.setdefault(int(p[1]), {})["model"] = [b for b in body if b.strip()]
        elif p[0] == "scenario":
            steps = json.loads("\n".join(body).strip() or "[]")
    return [rend[k] for k in sorted(rend)], steps


def check_renderings(rends, steps, model_out=None):
    """rends: list of dict(src, model?); model_out: {index: [lines]} from the driver.
    Returns (failures, info): failures = list of (kind, text), kind in {'spec', 'corr'}"""
    fails = []
    sems, traces, lines_all = [], [], []
    for i, r in enumerate(rends):
        cls, err = build(r["src"])
        if cls is None:
            lines = ["err 1 " + err]
            sems.append(dict(err="err 1" if err.startswith("InvalidDefinition") else "err " + err))
            traces.append(["not built: " + err.split(":")[0]])
        else:
            lines = extract(cls)
            sems.append(semantic(lines))
            traces.append(trace(cls, steps))
        lines_all.append(lines)
        if model_out is not None and i in model_out:
            mo = model_out[i]
            a = [lines[0].split(" ")[0] + " " + lines[0].split(" ")[1]] + lines[1:] if lines else lines
            if mo != a and not (mo[:1] == ["err 1"] and a[:1] == ["err 1"]):
                from common import first_diff
                fails.append(("corr", f"rendering {i}: model elaboration differs from the library at {first_diff(mo, a)}"))
    for i in range(1, len(rends)):
        d = sem_diff(sems[0], sems[i])
        if d:
            fails.append(("spec", f"renderings 0 and {i} are not equivalent: {d}"))
        if traces[0] != traces[i]:
            from common import first_diff
            fails.append(("spec", f"renderings 0 and {i} behave differently: {first_diff(traces[0], traces[i])}"))
    return fails, dict(lines=lines_all, traces=traces, sems=sems)
