"""C15: the recorded D16 shapes of `from_.any()` as replay files (written to /verif/findings/).

Run `PYTHONPATH=/verif/harness:/repo /venv/bin/python /verif/harness/decl_findings.py` to regenerate them.
Each replay holds two renderings of one abstract machine — the `from_.any()` spelling and the explicit
`from_(s1, …, sk)` spelling — plus the Lean-model program of each, and a scenario.
"""
from __future__ import annotations

import os

import decl_gen as G
import decl_run as R
from common import VERIF

NOKW = dict(event=dict(items=[], aslist=False), internal=False, validators=(), cond=(), unless=(), before=(), on=(), after=())


def kw(evs=(), **cbs):
    d = dict(NOKW)
    d.update({k: tuple(v) for k, v in cbs.items()})
    if evs:
        d["event"] = dict(items=[("s", [e]) for e in evs], aslist=len(evs) > 1)
    return d


def st(k, initial=False, final=False):
    return dict(k=k, value=None, initial=initial, final=final, enter=[], exit=[])


# events: 0 = go, 5 = stop ("cancel"), 7 = x
GO, CANCEL, X = 0, 5, 7
AM = dict(conv=[], ncb=1)


def shapes():
    s0, s1, z = st(0, initial=True), st(1), st(2, final=True)
    out = {}
    # D16a: a state declared after the event gets no any()-transition
    out["C15_D16a_any_state_declared_later"] = (
        "from_.any() skips states declared after the event: `stop = s2.from_.any()` written before `s1 = State()` "
        "gives s1 no `stop` transition, the explicit `s2.from_(s0, s1)` does",
        [[[("state", s0), ("state", z), ("assign", CANCEL, ("any", 2, kw())), ("state", s1),
           ("assign", GO, ("to", 0, [1], kw()))]],
         [[("state", s0), ("state", z), ("state", s1), ("assign", CANCEL, ("from", 2, [0, 1], kw())),
           ("assign", GO, ("to", 0, [1], kw()))]]],
        [dict(ev="go", rho={}, raises=[]), dict(ev="stop", rho={}, raises=[])])
    # D16b: expansions are appended after explicit same-event transitions
    out["C15_D16b_any_ordered_after_explicit"] = (
        "from_.any() expansions are ordered after explicit transitions of the same event: in "
        "`stop = s2.from_.any(cond='cb1') | s0.to(s1)` state s0 tries s0->s1 first, the explicit "
        "`s2.from_(s0, s1, cond='cb1') | s0.to(s1)` tries s0->s2 first",
        [[[("state", s0), ("state", s1), ("state", z),
           ("assign", CANCEL, ("or", ("any", 2, kw(cond=[1])), ("to", 0, [1], kw()))),
           ("assign", GO, ("to", 0, [1], kw()))]],
         [[("state", s0), ("state", s1), ("state", z),
           ("assign", CANCEL, ("or", ("from", 2, [0, 1], kw(cond=[1])), ("to", 0, [1], kw()))),
           ("assign", GO, ("to", 0, [1], kw()))]]],
        [dict(ev="stop", rho={"1": True}, raises=[])])
    # D16c: subclassing re-expands any() for the inherited states
    base = [("state", s0), ("state", s1), ("state", z), ("assign", GO, ("to", 0, [1], kw())),
            ("assign", CANCEL, ("any", 2, kw(cond=[1])))]
    sub = [("assign", X, ("to", 1, [0], kw()))]
    out["C15_D16c_any_duplicated_by_subclass"] = (
        "subclassing a machine that uses from_.any() expands it again: `class M(Base): x = Base.s1.to(Base.s0)` has "
        "three `stop` transitions out of s0 and two out of s1 (the flat class has one each), so a failing guard "
        "is evaluated repeatedly",
        [[base, sub], [base + sub]],
        [dict(ev="stop", rho={"1": False}, raises=[]), dict(ev="go", rho={}, raises=[]),
         dict(ev="stop", rho={"1": False}, raises=[])])
    # D16d: event= on from_.any() is dropped
    out["C15_D16d_any_event_kw_dropped"] = (
        "`event=` passed to from_.any() is dropped: `stop = s2.from_.any(event='x')` declares no event `x`, "
        "the explicit `s2.from_(s0, s1, event='x')` does",
        [[[("state", s0), ("state", s1), ("state", z), ("assign", GO, ("to", 0, [1], kw())),
           ("assign", CANCEL, ("any", 2, kw(evs=[X])))]],
         [[("state", s0), ("state", s1), ("state", z), ("assign", GO, ("to", 0, [1], kw())),
           ("assign", CANCEL, ("from", 2, [0, 1], kw(evs=[X])))]]],
        [dict(ev="x", rho={}, raises=[])])
    return out


def main():
    d = os.path.join(VERIF, "findings")
    os.makedirs(d, exist_ok=True)
    for name, (what, progs, steps) in shapes().items():
        rends = []
        for i, classes in enumerate(progs):
            p = dict(classes=classes, tags={"from_any"} if i == 0 else {"from_"})
            rends.append(dict(tags=p["tags"], src=G.python_source(AM, p), model=G.model_lines(p, f"r{i}")))
        text = R.replay_text(what, "(hand-written; see the renderings)", rends, steps)
        with open(os.path.join(d, name + ".replay"), "w") as f:
            f.write(text)
        print("wrote", name)


if __name__ == "__main__":
    main()
