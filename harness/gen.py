"""Seeded generator of engine scenarios. Every random choice comes from the `rng` passed in."""
from __future__ import annotations

import random
from dataclasses import dataclass, field

from eng import (MAX_EXC_TAG, EVENTS, FALSY_TOKS, POOL, RET_TOKS, STATE_VALUE_TOKS, TRUTHY_TOKS, Cb, Scn, St, Tr,
                 flatten)


@dataclass
class Profile:
    max_states: int = 5
    p_final: float = 0.2
    max_events: int = 4
    extra_trans: tuple = (0, 6)
    p_internal: float = 0.12
    p_multi_event: float = 0.3
    p_group: dict = field(default_factory=lambda: dict(validators=0.15, cond=0.45, unless=0.3, before=0.3,
                                                        on=0.35, after=0.3, enter=0.35, exit=0.3))
    max_per_group: int = 2
    p_conv: float = 0.25             # per convention name
    styles: tuple = ("name", "callable", "decorator")
    providers: tuple = ("machine", "model", "L0", "L1")
    p_coro: float = 0.0
    p_sync_scn: float = 0.0          # scenarios without any coroutine callback (p_coro is per callback: with a dozen
                                     # callbacks nearly every scenario would otherwise be async, and rtc=False never drawn)
    max_yields: int = 2
    n_ops: tuple = (3, 12)
    p_unknown_event: float = 0.15
    p_nested: float = 0.25           # per scenario: expected number of nested-send rows scale
    max_nested_rows: int = 3
    p_raise: float = 0.15
    p_validator_raise: float = 0.3
    p_rtc_off: float = 0.2
    p_allow: float = 0.3
    p_cur0: float = 0.0
    p_start: float = 0.0
    p_activate: float = 0.05
    p_reconstruct: float = 0.0
    drivers: tuple = ("sync",)
    sigs: tuple = ("ed", "named", "kwargs", "bare")
    guard_ret_any: bool = True       # guards return arbitrary truthy/falsy values, not only bools
    p_any: float = 0.2               # per scenario: 1-2 transitions declared with from_.any()
    p_wrap: float = 0.12             # per callback: wrapped by a functools.wraps decorator (half of them with __signature__)
    p_alias: float = 0.2             # per scenario: a name attached to 2-3 action groups of one transition
    p_model_shape: float = 0.2       # falsy model object
    p_listener_kind: float = 0.3     # listeners that compare equal / generic hooks objects
    p_write: float = 0.0             # per op: somebody assigns the model field directly
    p_same_name: float = 0.35        # per inline callable: its __name__ is `check`, like others'
    p_lazy: float = 0.15             # per coroutine callback (async machines): a plain function returning the awaitable
    p_attr_event: float = 0.3        # per unknown event: its name is an attribute of the machine (state id, method, ...)
    p_fresh: float = 0.0             # per op: another instance of the class over a fresh model, other start_value
    p_set_allow: float = 0.0         # per op: allow_event_without_transition assigned after construction
    p_alias_sub: float = 0.12        # per scenario: an event re-declared under a second name by a subclass
    p_state_field: float = 0.12      # per scenario: the model attribute is not called `state`
    p_attr: float = 0.18             # per guard given by name: it is a plain attribute (a value), not a method
    p_share: float = 0.3             # per scenario: a named callback referred to from several transitions


def gen_machine(rng: random.Random, P: Profile, scn: Scn):
    n = rng.choice([1, 2, 2, 3, 3, 3, 4, 4, 5, 6][: 4 + P.max_states]) if P.max_states >= 2 else 1
    n = min(n, P.max_states)
    vals = rng.sample(STATE_VALUE_TOKS, n) if rng.random() < 0.7 else [20 + i for i in range(n)]
    if vals[0] == 20 and n > 1 and rng.random() < 0.6:
        # state values that are the *ids* of other states ("s1" is the value of s0, ...): values and ids are
        # different name spaces (start_value, the model field and states_map speak values only)
        rng.shuffle(vals)
    init = rng.randrange(n)
    for i in range(n):
        scn.states.append(St(val=vals[i], initial=(i == init)))
    for i in range(n):
        if i != init and rng.random() < P.p_final:
            scn.states[i].final = True
    evs = rng.sample(range(1, len(EVENTS)), rng.randint(1, P.max_events))
    nonfinal = lambda: [i for i in range(n) if not scn.states[i].final]

    def rand_events():
        k = 1
        if rng.random() < P.p_multi_event:
            k = rng.randint(2, min(3, len(evs))) if len(evs) >= 2 else 1
        return rng.sample(evs, k)

    reach = [init]
    others = [i for i in range(n) if i != init]
    rng.shuffle(others)
    trans = []
    for s in others:
        pred = rng.choice([r for r in reach if not scn.states[r].final])
        trans.append(Tr(pred, s, rand_events()))
        reach.append(s)
    for _ in range(rng.randint(*P.extra_trans)):
        src = rng.choice(nonfinal())
        if rng.random() < P.p_internal:
            trans.append(Tr(src, src, rand_events(), internal=True))
        else:
            trans.append(Tr(src, rng.randrange(n), rand_events()))
    for s in nonfinal():
        if not any(t.src == s for t in trans) and (rng.random() < 0.8 or n == 1):
            trans.append(Tr(s, rng.choice([s, init]), rand_events()))
    if not trans:
        trans.append(Tr(init, init, rand_events()))
    rng.shuffle(trans)
    if rng.random() < P.p_any:
        for _ in range(rng.choice([1, 1, 2])):
            e = rng.choice(evs + [rng.choice(evs)] + [x for x in range(1, len(EVENTS)) if x not in evs][:1])
            if any(t.any and t.events == [e] for t in trans):
                continue
            if e not in evs:
                evs.append(e)
            pos = rng.randint(0, len(trans))
            trans.insert(pos, Tr(0, rng.randrange(n), [e], any=True))
    if rng.random() < P.p_alias_sub:
        single = [e for e in evs if all((not t.any) and t.events == [e] for t in trans if e in t.events)
                  and any(e in t.events for t in trans)]
        spare = [x for x in range(1, len(EVENTS)) if x not in evs]
        if single and spare:
            e1, e2 = rng.choice(single), rng.choice(spare)
            # `e2 = Base.e1` in the subclass *renames* the event on those transitions: they carry e2 only;
            # e1 stays a declared event without transitions, its before_/on_/after_ callbacks must never run
            for t in trans:
                if t.events == [e1]:
                    t.events = [e2]
            evs.append(e2)
            scn.alias_sub = [e1, e2]
    scn.trans = trans
    return evs


def gen_callbacks(rng: random.Random, P: Profile, scn: Scn, evs):
    cid = [0]

    def new(group, style, provider, name, at):
        cid[0] += 1
        sig = rng.choice(P.sigs)
        named = tuple(k for k in ("event", "source", "target", "state") if rng.random() < 0.5) if sig == "named" else ()
        coro = rng.random() < P.p_coro
        c = Cb(cid[0], group, style, provider, name or f"cb{cid[0]}", at, coro=coro, sig=sig, named=named,
               yields=rng.randint(0, P.max_yields) if coro else 0)
        if rng.random() < P.p_wrap:
            c.wrap = rng.choice(["wraps", "sig"])
        elif style in ("conv", "name") and provider != "-" and rng.random() < P.p_wrap / 2:
            c.wrap = "prop"      # exposed through a property that returns the bound method
        scn.cbs.append(c)
        return c

    def attach(at, group):
        for _ in range(rng.randint(1, P.max_per_group)):
            style = rng.choice(P.styles)
            prov = "-"
            if style == "name":
                prov = rng.choice(P.providers)
            elif style == "decorator":
                prov = "machine"
            # distinct inline callables that share a __name__ (lambdas, closures of one factory)
            new(group, style, prov, "check" if style == "callable" and rng.random() < P.p_same_name else None, at)

    for ti, tr in enumerate(scn.trans):
        for g in ("validators", "cond", "unless", "before", "on", "after"):
            if rng.random() < P.p_group[g]:
                attach(("t", ti), g)
    for si, st in enumerate(scn.states):
        for g in ("enter", "exit"):
            if rng.random() < P.p_group[g]:
                attach(("s", si), g)
    conv = [("before", "before_transition", ("all",)), ("on", "on_transition", ("all",)),
            ("after", "after_transition", ("all",)), ("enter", "on_enter_state", ("all",)),
            ("exit", "on_exit_state", ("all",))]
    for e in evs:
        for g in ("before", "on", "after"):
            conv.append((g, f"{g}_{EVENTS[e]}", ("ev", e)))
    for si in range(len(scn.states)):
        conv.append(("enter", f"on_enter_{scn.sid(si)}", ("s", si)))
        conv.append(("exit", f"on_exit_{scn.sid(si)}", ("s", si)))
    for g, nm, at in conv:
        if rng.random() < P.p_conv:
            provs = rng.sample(list(P.providers), rng.choice([1, 1, 1, 2]))
            for p in provs:
                new(g, "conv", p, nm, at)
    # one name attached to several action groups of one transition (one function, several specs)
    if rng.random() < P.p_alias:
        cands = [c for c in scn.cbs if c.style == "name" and c.at[0] == "t" and c.group in ("before", "on", "after")
                 and sum(1 for x in scn.cbs if x.name == c.name) == 1]
        if cands:
            c = rng.choice(cands)
            others = [g for g in ("before", "on", "after") if g != c.group]
            for g in rng.sample(others, rng.choice([1, 1, 2])):
                cid[0] += 1
                scn.cbs.append(Cb(cid[0], g, "name", c.provider, c.name, c.at, coro=c.coro, sig=c.sig, named=c.named,
                                  yields=c.yields, wrap=c.wrap, alias_of=c.id))
    # an inline plain function whose __name__ happens to be the name of an unrelated method of the model or of a
    # listener (the attached function must run, not the provider's method)
    methods = [c.name for c in scn.cbs if c.style == "name" and c.provider != "machine" and not c.alias_of]
    if methods:
        for c in scn.cbs:
            if c.style == "callable" and rng.random() < 0.2:
                c.name = rng.choice(methods)
    # one method referred to by name from several transitions (`cond="ok"` on two candidates of one event, `on="log"`
    # on many transitions): one function, one callback id per place of use
    if rng.random() < P.p_share:
        def sig_of(t):
            return (t.src, t.tgt, tuple(sorted(t.events)), t.internal)
        uniq = [ti for ti, t in enumerate(scn.trans) if not t.any
                and sum(1 for u in scn.trans if not u.any and sig_of(u) == sig_of(t)) == 1]
        busy = {x.alias_of for x in scn.cbs if x.alias_of} | {x.id for x in scn.cbs if x.alias_of}
        prims = [c for c in scn.cbs if c.style == "name" and c.at[0] == "t" and c.at[1] in uniq and c.id not in busy
                 and sum(1 for x in scn.cbs if x.name == c.name) == 1 and c.wrap != "prop"]
        rng.shuffle(prims)
        for c in prims[:rng.choice([1, 1, 2])]:
            t0 = scn.trans[c.at[1]]
            # candidates of the same (state, event) first: that is where a guard shared between transitions matters
            near = [ti for ti in uniq if ti != c.at[1] and scn.trans[ti].src == t0.src
                    and set(scn.trans[ti].events) & set(t0.events)]
            far = [ti for ti in uniq if ti != c.at[1] and ti not in near]
            rng.shuffle(far)
            places = (near + far)[:rng.choice([1, 1, 2])]
            if not places:
                continue
            c.sig, c.named = rng.choice(["ed", "kwargs"]), ()
            for tj in places:
                cid[0] += 1
                scn.cbs.append(Cb(cid[0], c.group, "name", c.provider, c.name, ("t", tj), coro=c.coro, sig=c.sig,
                                  named=(), yields=c.yields, wrap=c.wrap, same_as=c.id))
    # a guard (or an action whose value nobody uses) given by name may be a *plain attribute* of its provider: the value
    # read at that moment is the callback's value (`dispatcher.attr_method`)
    shared = {x.alias_of for x in scn.cbs if x.alias_of}
    for c in scn.cbs:
        if c.style == "name" and not c.alias_of and c.id not in shared and not c.coro and not c.same_as \
                and not any(x.same_as == c.id for x in scn.cbs):
            pa = P.p_attr if c.group in ("cond", "unless") else (P.p_attr / 3 if c.group in ("after", "enter", "exit") else 0)
            if rng.random() < pa:
                c.style, c.wrap, c.sig, c.named = "attr", "", "bare", ()
    used = sorted({c.provider for c in scn.cbs if c.provider.startswith("L")})
    scn.listeners_ctor = used
    if rng.random() < P.p_model_shape:
        scn.model_shape = rng.choice(["len0", "boolF", "lib", "eq"])
    if used and rng.random() < P.p_listener_kind:
        scn.listener_kind = rng.choice(["eq", "hooks", "falsy", "proxy", "inherit", "shared"])
    real = [c for c in scn.cbs if c.coro and not c.alias_of and c.id not in {x.alias_of for x in scn.cbs}]
    if len(real) >= 2:
        for c in real[1:]:
            if not c.wrap and rng.random() < P.p_lazy:
                c.wrap = "lazy"


def sibling_map(scn: Scn):
    tl, sl = flatten(scn)
    sib = {}
    for groups in tl:
        for g, lst in groups.items():
            ids = [x[0] for x in lst]
            for i in ids:
                sib.setdefault(i, set()).update(ids)
    for groups in sl:
        for g, ids in groups.items():
            for i in ids:
                sib.setdefault(i, set()).update(ids)
    return sib


def gen_acts(rng: random.Random, P: Profile, scn: Scn, evs, n_ops):
    cbm = {c.id: c for c in scn.cbs}
    sib = sibling_map(scn)
    phase_of = lambda c: "cond" if c.group == "unless" else c.group
    busy = {}        # tid -> set of phases that already have a send/raise row
    rows_first, rows_last = [], []
    horizon = n_ops + 6
    attrs = [c for c in scn.cbs if c.style == "attr"]
    live = [c for c in scn.cbs if c.style not in ("attr", "evref")]
    actions = [c for c in live if c.group not in ("cond", "unless", "validators")]
    guards = [c for c in live if c.group in ("cond", "unless")]
    vals = [c for c in live if c.group == "validators"]
    for c in attrs:      # one value per instance
        want = rng.random() < (0.7 if c.group == "cond" else 0.3)
        rows_last.append((c.id, 0, 10**9, rng.choice(TRUTHY_TOKS if want else FALSY_TOKS) if c.group in ("cond", "unless")
                          else rng.choice([t for t in RET_TOKS if not callable(POOL[t])]), None, []))
    for c in guards:
        lo = 0
        while lo < horizon + 10:
            hi = lo + rng.randint(0, 3)
            want = rng.random() < (0.7 if c.group == "cond" else 0.3)
            pool = (TRUTHY_TOKS if want else FALSY_TOKS) if P.guard_ret_any else ([13] if want else [7])
            rows_last.append((c.id, lo, hi, rng.choice(pool), None, []))
            lo = hi + 1
        rows_last.append((c.id, lo, 10**9, rng.choice(TRUTHY_TOKS if c.group == "cond" else FALSY_TOKS), None, []))
    for c in actions:
        if rng.random() < 0.6:
            rows_last.append((c.id, 0, 10**9, rng.choice(RET_TOKS), None, []))

    def can_fault(c, tid):
        ph = phase_of(c)
        if ph in busy.get(tid, set()):
            return False
        for s in sib.get(c.id, ()):  # siblings must not yield (gather would leave them running)
            if s != c.id and cbm[s].yields > 0:
                return False
        return True

    # nested sends
    if actions and rng.random() < P.p_nested:
        for _ in range(rng.randint(1, P.max_nested_rows)):
            c = rng.choice(actions)
            tid = rng.randint(0, horizon)
            ph = phase_of(c)
            if ph in busy.get(tid, set()):
                continue
            busy.setdefault(tid, set()).add(ph)
            sends = [rng.choice(evs + [rng.randrange(1, len(EVENTS))]) for _ in range(rng.randint(1, 2))]
            rows_first.append((c.id, tid, tid, rng.choice(RET_TOKS), None, sends))
    # raising callbacks
    if rng.random() < P.p_raise and live:
        for _ in range(rng.randint(1, 2)):
            c = rng.choice(live)
            tid = rng.randint(0, horizon)
            if can_fault(c, tid):
                busy.setdefault(tid, set()).add(phase_of(c))
                rows_first.append((c.id, tid, tid, 0, rng.randint(1, MAX_EXC_TAG), []))
    for c in vals:
        if rng.random() < P.p_validator_raise:
            tid = rng.randint(1, horizon)
            if can_fault(c, tid):
                busy.setdefault(tid, set()).add("validators")
                rows_first.append((c.id, tid, tid, 0, rng.randint(1, MAX_EXC_TAG), []))
    scn.acts = rows_first + rows_last


def gen_ops(rng: random.Random, P: Profile, scn: Scn, evs):
    n = rng.randint(*P.n_ops)
    ops = [("construct",)]
    for _ in range(n):
        r = rng.random()
        if rng.random() < P.p_fresh:
            ops.append(("fresh", rng.choice([None] + [st.val for st in scn.states])))
        elif rng.random() < P.p_set_allow:
            ops.append(("set_allow", rng.random() < 0.5))
        elif rng.random() < P.p_write:
            ops.append(("write", rng.choice([st.val for st in scn.states])))
        elif r < P.p_activate:
            ops.append(("activate",))
        elif r < P.p_activate + P.p_reconstruct:
            # a new machine object over the same model, or the machine replaced by a deep copy of itself
            ops.append(("reconstruct", "copy") if rng.random() < 0.4 else ("reconstruct",))
        elif rng.random() < P.p_unknown_event:
            if rng.random() < P.p_attr_event:
                # not an event, but an attribute of the machine: a state id, a callback method, API names
                names = [scn.sid(i) for i in range(len(scn.states))] + [c.name for c in scn.cbs if c.provider == "machine"] + \
                    ["model", "states", "current_state", "allowed_events", "name", "send", "events", "state_field"]
                nm = rng.choice(names)
                k = next((i for i, v in scn.extra_events.items() if v == nm), 100 + len(scn.extra_events))
                scn.extra_events[k] = nm
                ops.append(("send", k))
            else:
                # any name of the pool, declared or not, including the reserved `__initial__` (id 0)
                ops.append(("send", rng.randrange(0, len(EVENTS))))
        else:
            ops.append(("send", rng.choice(evs)))
    scn.ops = ops
    return n


def gen_scenario(rng: random.Random, P: Profile, name: str) -> Scn:
    scn = Scn(name=name)
    evs = gen_machine(rng, P, scn)
    if P.p_sync_scn > 0 and rng.random() < P.p_sync_scn:
        import dataclasses
        P = dataclasses.replace(P, p_coro=0.0)
    gen_callbacks(rng, P, scn, evs)
    scn.allow = rng.random() < P.p_allow
    scn.driver = rng.choice(P.drivers)
    if scn.is_async():
        scn.rtc = True
        if scn.driver == "sync":
            scn.driver = "facade"
    else:
        scn.rtc = not (rng.random() < P.p_rtc_off)
    if rng.random() < P.p_cur0:
        scn.cur0 = rng.choice([s.val for s in scn.states])
    if rng.random() < P.p_start:
        scn.start = rng.choice([s.val for s in scn.states])
        spare = [t for t in STATE_VALUE_TOKS if t not in [s.val for s in scn.states]]
        if spare and rng.random() < 0.2:
            # a start_value that is no state's value (a configured start state that was renamed since): an error when
            # the machine is activated over an empty model, never looked at when the model already holds a state
            scn.start = rng.choice(spare)
    n = gen_ops(rng, P, scn, evs)
    gen_acts(rng, P, scn, evs, n)
    r = rng.random()
    if r < 0.15:
        scn.decl_style = "placeholder"
    elif r < 0.25:
        scn.decl_style = "spaced"
    elif r < 0.4:
        scn.decl_style = "eventobj"
    elif r < 0.5:
        scn.decl_style = "eventobj2"
    if rng.random() < P.p_state_field:
        scn.state_field = rng.choice(["status", "st8", "_s", "current"])
    return scn


def plant_evrefs(rng: random.Random, scn: Scn):
    """mutate: turn the scenario into a *chain scenario* — one to three action callbacks are **events** given by name
    (`before="go"`, `enter="stop"`, ...: the library sends that event with the parent's arguments,
    `dispatcher.event_method`; under run-to-completion the callback returns None and the event is queued, under
    `rtc=False` it runs at once and the callback returns the event's own result).

    Chains terminate because an event may only refer to an event of higher id than every event that can run the
    callback. Scripted callbacks of a chain scenario send nothing themselves and their behaviour rows are keyed by
    the state value they see (trigger ids cannot be tracked through the library's own forwarding of keyword
    arguments)."""
    if scn.alias_sub or not scn.trans:
        return
    declared = sorted({e for t in scn.trans for e in t.events})
    spots = []
    nonfinal = [i for i, st in enumerate(scn.states) if not st.final]
    for ti, t in enumerate(scn.trans):
        for g in ("before", "on", "after"):
            spots.append((("t", ti), g, max(t.events)))
    for si, st in enumerate(scn.states):
        into = [max(t.events) for t in scn.trans if t.tgt == si and not t.internal]
        spots.append((("s", si), "enter", max(into + [0])))
        outof = [max(t.events) for t in scn.trans if not t.internal and ((t.any and si in nonfinal) or (not t.any and t.src == si))]
        if outof:
            spots.append((("s", si), "exit", max(outof)))
    rng.shuffle(spots)
    nid = max([c.id for c in scn.cbs] + [0]) + 1
    planted = 0
    for at, g, bound in spots:
        higher = [e for e in declared if e > bound]
        if not higher:
            continue
        ref = rng.choice(higher)
        if any(c.style == "evref" and c.at == at and c.group == g and c.ref == ref for c in scn.cbs):
            continue
        scn.cbs.append(Cb(nid, g, "evref", "machine", EVENTS[ref], at, sig="ed", ref=ref))
        nid += 1
        planted += 1
        if planted >= rng.choice([1, 1, 2, 3]):
            break
    if not planted:
        return
    if rng.random() < 0.5:      # chained events that are not allowed in the state of the moment are then ignored
        scn.allow = True
    # chain scenario: no aliases, event_data-bearing signatures, state-keyed behaviour rows without sends
    drop = {c.id for c in scn.cbs if c.alias_of}
    scn.cbs = [c for c in scn.cbs if c.id not in drop]
    for c in scn.cbs:
        if c.sig not in ("ed", "kwargs"):
            c.sig = "ed"
            c.named = ()
    vals = [st.val for st in scn.states]
    rows = []
    keep = [a for a in scn.acts if any(c.id == a[0] and c.style == "attr" for c in scn.cbs)]
    for c in scn.cbs:
        if c.style in ("evref", "attr"):
            continue
        guard = c.group in ("cond", "unless")
        for v in vals + [999]:
            if guard:
                want = rng.random() < (0.75 if c.group == "cond" else 0.25)
                ret = rng.choice(TRUTHY_TOKS if want else FALSY_TOKS)
            else:
                ret = rng.choice(RET_TOKS)
            rz = None      # failures come from the chained events themselves (not allowed in the state of the moment)
            rows.append((c.id, v, v, ret, rz, []))
        rows.append((c.id, 0, 10**9, rng.choice(TRUTHY_TOKS if c.group == "cond" else FALSY_TOKS if c.group == "unless" else RET_TOKS), None, []))
    scn.acts = rows + keep


def chain_nontrivial(s, a, rt):
    """a chained event actually ran: some callback saw an event other than the one the caller sent (scripted
    callbacks of a chain scenario send nothing, so it was sent by the library's event-as-callback wrapper)"""
    cur = []
    k = 0
    for l in a:
        p = l.split(" ")
        if p[0] == "B":
            cur.append(dict(x.split("=", 1) for x in p[4:] if "=" in x).get("ev"))
        elif p[0] == "R":
            op = s.ops[int(p[1])] if int(p[1]) < len(s.ops) else ("?",)
            sent = str(op[1]) if op[0] == "send" else "0"
            if any(e not in (sent, "?") for e in cur):
                return True
            cur = []
    return False


def late_listeners(rng: random.Random, s: Scn, p: float = 0.35):
    """mutate: with probability `p`, listeners on which nothing depends at construction (convention names only)
    are attached with `add_listener` at a random point of the history instead — typically *after* the
    transitions they listen to have already run — and sometimes attached again later"""
    if rng.random() >= p or s.is_chain():
        return
    if any(o[0] == "fresh" for o in s.ops):
        # (another instance of the class made in mid-history gets the constructor's listeners only; which of the
        # late ones it should get is the scenario writer's choice, not the library's: the two are not combined)
        return
    used = sorted({c.provider for c in s.cbs if c.provider.startswith("L")})
    was_async = s.is_async()
    ops = list(s.ops)
    moved = False
    for L in used:
        if L not in s.listeners_ctor:
            continue
        conv_only = all(c.style == "conv" and not c.alias_of for c in s.cbs if c.provider == L)
        if not conv_only or rng.random() < 0.3:
            continue
        s.listeners_ctor.remove(L)
        pos = rng.randint(max(1, len(ops) // 2), len(ops)) if rng.random() < 0.6 else rng.randint(1, len(ops))
        ops.insert(pos, ("add_listener", L))
        moved = True
        if not was_async or not any(c.coro and c.wrap != "lazy" for c in s.cbs
                                    if c.provider != L and s._cb_live_at_ctor(c) and s._cb_bound(c)):
            for c in s.cbs:
                if c.provider == L:       # D12: an async listener attached late to a sync machine
                    c.coro, c.yields = False, 0
                    if c.wrap == "lazy":
                        c.wrap = ""
        if rng.random() < 0.25:
            ops.insert(rng.randint(pos + 1, len(ops)), ("add_listener", L))
    if rng.random() < 0.2 and len(ops) > 1 and not s.is_async():
        # an object that is a provider already — the model, the machine itself — attached as a listener as well
        ops.insert(rng.randint(1, len(ops)), ("add_listener", rng.choice(["model", "machine"])))
        moved = True
    if not moved:
        return
    # a few more events after the attachment, so that transitions that ran before run again
    evs = sorted({e for t in s.trans for e in t.events})
    for _ in range(rng.randint(1, 4)):
        ops.append(("send", rng.choice(evs)))
    s.ops = ops
    if s.is_async():
        s.rtc = True
        if s.driver == "sync":
            s.driver = "facade"
    elif s.driver != "sync":
        s.driver = "sync"
