"""C06 — controlled asyncio scheduler over the REAL async engine (no source hooks).

`ChoiceLoop` is a `SelectorEventLoop` whose `_run_once` runs exactly ONE ready handle per iteration;
which one is the schedule's decision (choice 0 = the sender that ran last continues if it has a ready
handle, else the head of the ready queue; switching away from a sender that could continue is a
deviation of cost 1 — a preemption in the CHESS sense; any other choice is free). Every `await` that really suspends (callbacks
`await asyncio.sleep(0)` 0-2 times; the engine runs each callback group through `asyncio.gather`,
i.e. in child tasks) is therefore a scheduling point at which any other ready task may run.

Senders are tasks; the sender identity travels in a `ContextVar` (child tasks created by `gather`
inherit it), so callback marks and traced lines are attributed to the sender that processes the event.
`sys.settrace` is used only to *observe* (map executed lines of `processing_loop`/`put` to model
steps); it does not schedule anything here.
"""
from __future__ import annotations

import asyncio
import contextvars
import sys

from sched_common import PROBE_UID, Mapper, Obs, Scenario, U, classify_engine, un
from sched_threads import decode_ret

_CLASS_CACHE = {}
_FILES = {}
_LOOP = {}
ACTOR = contextvars.ContextVar("c06_actor", default=-1)


def _files():
    if not _FILES:
        import statemachine.engines.async_ as a
        import statemachine.engines.base as b
        import statemachine.event as e
        import statemachine.statemachine as m
        _FILES.update(eng=a.__file__, base=b.__file__, event=e.__file__, sm=m.__file__)
        kinds, problems = classify_engine(a.__file__, b.__file__)
        _FILES.update(kinds=kinds, problems=problems)
    return _FILES


def make_class(K):
    if K in _CLASS_CACHE:
        return _CLASS_CACHE[K]
    from statemachine import State, StateMachine
    ns = {}
    sts = [State(f"s{i}", initial=(i == 0)) for i in range(K)]
    for i, s in enumerate(sts):
        ns[f"s{i}"] = s
    go = sts[0].to(sts[1])
    for i in range(1, K):
        go = go | sts[i].to(sts[(i + 1) % K])
    ns["go"] = go

    async def _cb(self, name, uid):
        h = getattr(self, "h", None)
        if h is None or uid is None:
            return None
        uid = un(uid)
        return await h.callback(self, name, uid)

    async def before_go(self, uid=None):
        return await self._cb("before", uid)

    async def on_go(self, uid=None):
        return await self._cb("on", uid)

    async def after_go(self, uid=None):
        return await self._cb("after", uid)

    async def on_exit_state(self, uid=None):
        return await self._cb("exit", uid)

    async def on_enter_state(self, uid=None):
        return await self._cb("enter", uid)

    ns.update(_cb=_cb, before_go=before_go, on_go=on_go, after_go=after_go,
              on_exit_state=on_exit_state, on_enter_state=on_enter_state)
    for k in ("before_go", "on_go", "after_go", "on_exit_state", "on_enter_state"):
        ns[k].__qualname__ = f"C06AMachine{K}.{k}"
    cls = type(StateMachine)(f"C06AMachine{K}", (StateMachine,), ns)
    _CLASS_CACHE[K] = cls
    return cls


class AsyncHarness:
    def __init__(self, scn: Scenario, devs: dict, want_where=False):
        f = _files()
        self.scn = scn
        self.devs = devs
        self.obs = Obs(scn)
        self.mapper = Mapper(f["kinds"], f["eng"])
        self.step = 0
        self.probing = False
        self.active = False
        self.last = None
        self.want_where = want_where
        self.map_files = {f["eng"], f["base"], f["event"], f["sm"]}

    def decide(self, actors):
        """`actors[j]` = sender that ready handle j belongs to (-1: the main task). Alternatives are
        ordered [default] + the others in FIFO order; default = the first handle of the sender that ran
        last (its chain of tasks continues, like a thread that is not preempted), else the queue head.
        Deviating while the last sender could continue costs 1 (a preemption), otherwise 0."""
        k = self.step
        self.step += 1
        n = len(actors)
        d = 0
        cost = 0
        if self.last is not None and self.last in actors:
            d = actors.index(self.last)
            cost = 1
        order = [d] + [j for j in range(n) if j != d]
        c = self.devs.get(k, 0)
        if c >= n and self.devs.get(-1) == 1:
            c %= n                 # sampled schedule: choices wrap around
        if c >= n:
            self.obs.map_notes.append(f"schedule diverged at decision {k}: choice {c} of {n}")
            c = 0
        self.obs.trace.append((n, cost))
        j = order[c]
        if self.want_where:
            self.obs.where.append((k, c, n, self.last, actors[j]))
        if c != 0 and cost == 1 and self.mapper.open:
            self.obs.window_preempt = True
        self.last = actors[j]
        return j

    async def callback(self, sm, name, uid):
        if self.probing:
            return uid if name == "on" else None
        a = ACTOR.get()
        self.mapper.cb(a, "B")
        self.obs.marks.append(("B", uid, name, a))
        y = self.scn.yields.get(name, 0)
        for _ in range((y + 1) // 2):
            await asyncio.sleep(0)
        if self.scn.nest_at.get(uid) == name:
            for kid in self.scn.nest.get(uid, []):
                self.mapper.set_sending(a, kid)
                try:
                    r, exc = await sm.send("go", uid=U(kid)), None
                except Exception as e:  # noqa: BLE001
                    r, exc = None, repr(e)
                self.obs.nested.append((a, uid, kid, decode_ret(r), exc))
        for _ in range(y // 2):
            await asyncio.sleep(0)
        self.mapper.cb(a, "E")
        self.obs.marks.append(("E", uid, name, a))
        return uid if name == "on" else None

    def tracer(self):
        mapper, map_files = self.mapper, self.map_files

        def local(frame, event, arg):
            if self.active:
                if event == "line":
                    mapper.line(ACTOR.get(), frame)
                elif event == "return":
                    mapper.other(ACTOR.get(), frame)
            return local

        def glob(frame, event, arg):
            if event == "call" and frame.f_code.co_filename in map_files:
                if self.active:
                    mapper.other(ACTOR.get(), frame)
                return local
            return None

        return glob


class ChoiceLoop(asyncio.SelectorEventLoop):
    """Runs exactly one ready handle per iteration, chosen by the schedule."""

    def __init__(self, h: AsyncHarness):
        super().__init__()
        self._h = h

    def _run_once(self):
        ready = self._ready
        if len(ready) > 1:
            if self._h.active:
                c = self._h.decide([_actor_of(hd) for hd in ready])
            else:
                c = 0
            items = list(ready)
            ready.clear()
            ready.append(items.pop(c))
            super()._run_once()
            new = list(ready)
            ready.clear()
            ready.extend(items)
            ready.extend(new)
        else:
            if self._h.active and len(ready) == 1:
                self._h.last = _actor_of(ready[0])
            super()._run_once()


def _actor_of(handle):
    ctx = getattr(handle, "_context", None)
    try:
        return ctx.get(ACTOR, -1) if ctx is not None else -1
    except Exception:  # noqa: BLE001
        return -1


def run_schedule(scn: Scenario, devs: dict, want_where=False, timeout=20.0) -> Obs:
    total = len(scn.all_uids())
    cls = make_class(total + 2)
    h = AsyncHarness(scn, devs, want_where)
    f = _files()
    if f["problems"]:
        h.obs.map_notes += f["problems"]
    obs = h.obs
    loop = _LOOP.get("loop")
    if loop is None or loop.is_closed():
        loop = _LOOP["loop"] = ChoiceLoop(h)      # one loop per worker process, reused across schedules
    loop._h = h
    box = {}

    async def sender(sm, i, fut, counter):
        ACTOR.set(i)
        try:
            first = True
            for uid in scn.progs[i]:
                for _ in range(scn.gaps[i] if i < len(scn.gaps) else 0):
                    await asyncio.sleep(0)
                if first and i in scn.attach:
                    # attaching a listener while another task may be in the middle of a callback changes nothing
                    # about who processes what
                    sm.add_listener(type("PlainListener", (), {"helper": lambda self: None})())
                first = False
                h.mapper.set_sending(i, uid)
                try:
                    if uid in scn.split:
                        c = sm.send("go", uid=U(uid))     # enqueues now; the drain loop starts when awaited
                        await asyncio.sleep(0)
                        r, exc = await c, None
                    else:
                        r, exc = await sm.send("go", uid=U(uid)), None
                except Exception as e:  # noqa: BLE001
                    r, exc = None, repr(e)
                h.mapper.finish(i)
                obs.sends.append((i, uid, decode_ret(r), exc))
        except BaseException as e:  # noqa: BLE001
            obs.errors.append(f"sender {i}: {e!r}")
        counter[0] -= 1
        if counter[0] == 0 and not fut.done():
            fut.set_result(None)

    async def main():
        sm = cls()
        sm.h = h
        box["sm"] = sm
        await sm.activate_initial_state()
        fut = loop.create_future()
        counter = [scn.n]
        h.active = True
        tasks = []
        for i in range(scn.n):
            cx = contextvars.copy_context()
            cx.run(ACTOR.set, i)           # the sender identity is in the task's context from its first step
            tasks.append(loop.create_task(sender(sm, i, fut, counter), context=cx))
        try:
            await asyncio.wait_for(fut, timeout)
        except asyncio.TimeoutError:
            obs.errors.append("schedule timed out")
            for t in tasks:
                t.cancel()
        h.active = False
        try:
            obs.queue_left = len(sm._engine._external_queue)
        except Exception:  # noqa: BLE001
            obs.queue_left = None
        try:
            obs.final_state = sm.current_state.id
        except Exception as e:  # noqa: BLE001
            obs.final_state = f"<{e!r}>"
        h.probing = True
        try:
            r = decode_ret(await sm.send("go", uid=U(PROBE_UID)))
            obs.probe = (r, sm.current_state.id)
        except Exception as e:  # noqa: BLE001
            obs.probe = (f"<{e!r}>", None)

    old = sys.gettrace()
    sys.settrace(h.tracer())
    try:
        loop.run_until_complete(main())
    except BaseException as e:  # noqa: BLE001
        obs.errors.append(f"loop: {e!r}")
    finally:
        sys.settrace(old)
        if obs.errors or asyncio.all_tasks(loop):
            try:
                loop.close()
            except Exception:  # noqa: BLE001
                pass
            _LOOP.pop("loop", None)
    obs.labels = h.mapper.labels
    obs.map_notes += h.mapper.notes
    obs.decisions = h.step
    return obs
