"""C18 — the property's Spec, written from the English statement, evaluated on a graph the
implementation produced (either its pydot objects or the graph its DOT text denotes).

"The DOT graph generated for any machine has exactly one node per state plus the initial pseudo-node
pointing at the initial state, exactly one edge per external transition from its source to its target
labelled with its events and guards, internal transitions listed inside their state rather than as
edges, final states drawn with a double border, and for an instance exactly the current state
highlighted."

Input: the scenario (the machine as the user wrote it), the subject (class / instance in state k) and
the item list (`diagram_impl.read_objects` / `read_dot`).  Nothing of the Lean model is used here.
"""
from __future__ import annotations

from collections import Counter

from diagram_gen import DScn, guards_of, state_name, trans_events, value_text

PSEUDO = "i"


def _edge_label_parts(label: str):
    """'<events separated by blanks>' optionally followed by a line '[g1, !g2]'"""
    head, _, rest = label.partition("\n")
    events = tuple(x for x in head.split(" ") if x)
    guards = ()
    if rest:
        if not (rest.startswith("[") and rest.endswith("]")):
            return events, None
        guards = tuple(rest[1:-1].split(", "))
    return events, guards


def highlighted(attrs) -> bool:
    """a node is highlighted when it is not drawn like an ordinary state (white fill, default pen)"""
    return str(attrs.get("fillcolor", "white")) != "white" or "penwidth" in attrs


def check(s: DScn, subject, items) -> list:
    fails = []
    if subject[0] == "inst" and not any(value_text(st) == subject[1] for st in s.states):
        return fails             # the model stores no state's value: outside the property
    nodes = [it for it in items if it["kind"] == "N"]
    edges = [it for it in items if it["kind"] == "E"]
    ids = [st.id for st in s.states]

    # exactly one node per state plus the initial pseudo-node
    cnt = Counter(n["id"] for n in nodes)
    want = Counter(ids + [PSEUDO])
    if cnt != want:
        extra = sorted((cnt - want).elements())
        missing = sorted((want - cnt).elements())
        fails.append(f"nodes: expected exactly one node per state {ids} plus pseudo-node {PSEUDO!r}; "
                     f"extra={extra} missing={missing}")
    dups = sorted(k for k, v in cnt.items() if v > 1)
    if dups:
        fails.append(f"nodes: several nodes share the id {dups} (a DOT node is identified by its id, they are one node)")
    by_id = {}
    for n in nodes:
        by_id.setdefault(n["id"], []).append(n)

    # ... pointing at the initial state
    init = [st.id for st in s.states if st.initial]
    from_pseudo = [e for e in edges if e["src"] == PSEUDO and PSEUDO not in ids]
    if PSEUDO not in ids:
        if [e["dst"] for e in from_pseudo] != init:
            fails.append(f"initial edge: edges leaving the pseudo-node go to {[e['dst'] for e in from_pseudo]}, "
                         f"expected exactly one to the initial state {init}")
        if any(e["dst"] == PSEUDO for e in edges):
            fails.append("initial edge: an edge enters the pseudo-node")
        rest = [e for e in edges if e["src"] != PSEUDO]
    else:
        # a state is called like the pseudo-node: the pseudo-node cannot be told apart (reported with
        # the node count above); compare the edges after removing one edge i -> initial
        rest = list(edges)
        for k, e in enumerate(rest):
            if e["src"] == PSEUDO and [e["dst"]] == init and e["attrs"].get("label", "") == "":
                del rest[k]
                break
        else:
            fails.append("initial edge: no unlabelled edge from the pseudo-node to the initial state")

    # exactly one edge per external transition, source -> target, labelled with events and guards
    got = Counter()
    for e in rest:
        ev, gd = _edge_label_parts(str(e["attrs"].get("label", "")))
        got[(e["src"], e["dst"], ev, gd)] += 1
    exp = Counter()
    for t in s.trans:
        if t.internal:
            continue
        gd = tuple(("" if ex else "!") + n for n, ex in guards_of(t))
        exp[(s.states[t.src].id, s.states[t.tgt].id, tuple(trans_events(t)), gd)] += 1
    if got != exp:
        fails.append(f"edges: not one edge per external transition: unexpected={sorted((got - exp).elements(), key=repr)} "
                     f"missing={sorted((exp - got).elements(), key=repr)}")

    for k, st in enumerate(s.states):
        ns = by_id.get(st.id, [])
        if len(ns) != 1 or st.id == PSEUDO:
            continue
        a = ns[0]["attrs"]
        label = str(a.get("label", ""))
        lines = label.split("\n")
        nm = state_name(st)
        # the node shows the state (its name)
        if "\n" not in nm and lines[0] != nm:
            fails.append(f"label: node {st.id} is labelled {lines[0]!r}, the state is named {nm!r}")
        # internal transitions listed inside their state
        body = "\n".join(lines[1:]) if "\n" not in nm else label
        for t in s.trans:
            if t.internal and t.src == k:
                piece = " ".join(trans_events(t)) + " / "
                if piece not in body:
                    fails.append(f"internal: transition {trans_events(t)} of {st.id} is not listed in its node "
                                 f"(label {label!r})")
        # final states drawn with a double border
        per = str(a.get("peripheries", "1"))
        if (per == "2") != bool(st.final) or per not in ("1", "2"):
            fails.append(f"border: node {st.id} has peripheries={per}, final={st.final}")

    # for an instance exactly the current state highlighted (for a class: none)
    def is_pseudo(n):
        return n["id"] == PSEUDO and (PSEUDO not in ids or "label" not in n["attrs"])

    hl = sorted(n["id"] for n in nodes if n["id"] in ids and not is_pseudo(n) and highlighted(n["attrs"]))
    if subject[0] in ("cls", "unset"):     # (an instance whose model holds no state yet: nothing to highlight)
        want_hl = []
    else:
        want_hl = sorted(st.id for st in s.states if value_text(st) == subject[1])
    if hl != want_hl:
        fails.append(f"highlight: highlighted nodes {hl}, expected {want_hl} for subject {subject}")
    return fails
