"""C10 Spec: the English statement as a checker over the *implementation's* observation.

Written from the property text, not from the Lean model: it never looks at the model's output.

  "The machine's current state is exactly what is stored in the user's model under `state_field`:
   after every transition that field holds the target state's `value`, and `current_state`,
   `current_state_value` and `is_active` reflect any valid value written there (by the machine or
   externally) for every kind of value including falsy ones such as 0, with exactly one state active
   at any time. The model object supplied by the user is the one used, an unmapped value raises
   `InvalidStateValue` without being stored, and `start_value` selects the starting state when the
   model has none."

Values are compared through their pool keys (`store_gen.key_of`: strict on type, equality and repr),
so `False` stored where `0` was written is a difference.
"""
from __future__ import annotations

from store_gen import EVENTS, SScn


def _declared(s: SScn, k):
    return k is not None and k in s.values


def _state_of(s: SScn, k):
    """the state holding value k (the property presupposes distinct values; with duplicates: any of them)"""
    return [i for i, v in enumerate(s.values) if v == k]


def check_point(s: SScn, o, where):
    """what must hold at every moment, as a function of what the user's object stores (o['f'])"""
    fails = []
    f = o["f"]
    if o["id"] != 1:
        fails.append(f"{where}: sm.model is not the object the user supplied")
    if o["v"] != f:
        fails.append(f"{where}: current_state_value is {o['v']!r} but the user's model stores {f!r}")
    n = len(s.values)
    if _declared(s, f):
        owners = _state_of(s, f)
        if not (o["s"].isdigit() and int(o["s"]) in owners):
            fails.append(f"{where}: model stores {f!r} (state {owners}) but current_state is {o['s']}")
        elif o["sv"] != f:
            fails.append(f"{where}: current_state.value is {o['sv']!r}, model stores {f!r}")
        ones = [i for i, c in enumerate(o["a"]) if c == "1"]
        if len(ones) != 1 or any(c not in "01" for c in o["a"]):
            fails.append(f"{where}: exactly one state must be active, is_active = {o['a']!r}")
        elif ones[0] not in owners:
            fails.append(f"{where}: model stores {f!r} (state {owners}) but the active state is {ones[0]}")
        elif o["s"].isdigit() and ones[0] != int(o["s"]):
            fails.append(f"{where}: active state {ones[0]} is not current_state {o['s']}")
    else:
        if o["s"] != "!invalidstate":
            fails.append(f"{where}: model stores the unmapped {f!r} but current_state gave {o['s']} "
                         f"instead of raising InvalidStateValue")
        if o["a"] != "!" * n:
            fails.append(f"{where}: model stores the unmapped {f!r}; every is_active must raise "
                         f"InvalidStateValue, got {o['a']!r}")
    return fails


def spec(s: SScn, obs):
    """-> list of failure strings (empty = the implementation's observation satisfies C10)"""
    fails = []
    c = obs[0]
    # ---- construction: the user's object is used; start_value selects the start iff the model has none
    if s.cell0 is not None:
        exp_f, exp_res = s.cell0, "ok"
    elif s.start is not None:
        if _declared(s, s.start):
            exp_f, exp_res = s.start, "ok"
        else:
            exp_f, exp_res = None, "err:invalidstate"
    else:
        exp_f, exp_res = s.values[s.initial], "ok"
    if c["res"] != exp_res:
        fails.append(f"constructor: expected {exp_res}, got {c['res']}")
        return fails
    if c["f"] != exp_f:
        fails.append(f"constructor: the user's model should store {exp_f!r} "
                     f"(stored before={s.cell0!r}, start_value={s.start!r}, initial={s.values[s.initial]!r}), "
                     f"it stores {c['f']!r}")
    if c["res"] != "ok":
        return fails
    fails += check_point(s, c, "after constructor")
    prev = c["f"]
    for op, o in zip(s.ops, obs[1:]):
        where = f"after op {o['op']} {op}"
        kind = op[0]
        if o["res"] == "skipped":
            fails.append(f"{where}: skipped")
            continue
        if kind == "send":
            if not _declared(s, prev):
                exp_res, exp_f = "err:invalidstate", prev
            else:
                owners = _state_of(s, prev)
                src = owners[0] if len(owners) == 1 else None   # duplicate values: not determined
                if src is None:
                    exp_res = exp_f = None
                else:
                    tr = next((t for t in s.trans if t[0] == src and t[1] == op[1]), None)
                    if tr is not None:
                        exp_res, exp_f = "ok", s.values[tr[2]]
                    elif s.allow:
                        exp_res, exp_f = "ok", prev
                    else:
                        exp_res, exp_f = f"err:notallowed:{op[1]}:{src}", prev
        elif kind == "wv":
            if _declared(s, op[1]):
                exp_res, exp_f = "ok", op[1]
            else:
                exp_res, exp_f = "err:invalidstate", prev
        elif kind == "ws":
            exp_res, exp_f = "ok", s.values[op[1]]
        elif kind == "raw":
            exp_res, exp_f = "ok", op[1]
        elif kind == "del":
            exp_res, exp_f = "ok", None
        else:
            exp_res, exp_f = "ok", prev
        if exp_res is not None:
            if o["res"] != exp_res:
                fails.append(f"{where}: expected {exp_res}, got {o['res']}")
            if o["f"] != exp_f:
                fails.append(f"{where}: the user's model should store {exp_f!r}, it stores {o['f']!r}")
        fails += check_point(s, o, where)
        prev = o["f"]
    return fails
