"""C15: abstract machines, their renderings as declaration programs in random styles, and the two
concrete syntaxes of a program: Python source text (for the real library) and driver lines (for the
Lean model `SMV.Model.Decl`).

An abstract machine fixes: states (value, flags, inline enter/exit callbacks), an ordered list of
transitions (source, target, event set, internal, callbacks per group), convention methods.
A rendering = a *program*: list of classes (a chain Base <- Sub), each a list of statements.
Renderings of one machine must be equivalent (same states, same events, same ordered candidates per
(state, event)); the creation order of transitions that share source and an event is therefore kept.
"""
from __future__ import annotations

EVNAMES = ["go", "go_back", "e", "e1", "e10", "stop", "run", "x", "tick", "e2"]
EV0 = 100   # model name of event i = EV0 + i; model name of state k = k


def evname(i):
    return EVNAMES[i] if i < len(EVNAMES) else f"ev{i}"


def cbname(n):
    return f"cb{n}"


GROUPS = ("validators", "cond", "unless", "before", "on", "after")


# ----------------------------------------------------------------------------- abstract machines

def gen_machine(rng, allow_any=True):
    n = rng.choice([2, 3, 3, 4, 4, 5])
    vmode = rng.choice(["none", "int", "int", "mixed"])
    vals = rng.sample(range(0, 9), n)
    cbc = [0]

    def cb():
        cbc[0] += 1
        return cbc[0]

    states = []
    for k in range(n):
        v = None if vmode == "none" or (vmode == "mixed" and rng.random() < 0.5) else vals[k]
        st = dict(k=k, value=v, initial=(k == 0), final=(k > 0 and rng.random() < 0.22),
                  enter=[cb()] if rng.random() < 0.15 else [], exit=[cb()] if rng.random() < 0.1 else [])
        states.append(st)
    nonfinal = [s["k"] for s in states if not s["final"]]
    nev = rng.choice([1, 2, 2, 3, 3, 4, 5])

    def callbacks(p):
        d = {g: [] for g in GROUPS}
        if rng.random() < p:
            d["cond"] = [cb() for _ in range(rng.choice([1, 1, 2]))]
        if rng.random() < p * 0.5:
            d["unless"] = [cb()]
        for g in ("before", "on", "after"):
            if rng.random() < p * 0.6:
                d[g] = [cb() for _ in range(rng.choice([1, 1, 2]))]
        if rng.random() < 0.06:
            d["validators"] = [cb()]
        return d

    def events():
        k = 1 if rng.random() < 0.7 else 2
        return sorted(rng.sample(range(nev), min(k, nev)))

    trans = []
    for k in range(1, n):
        src = rng.choice([j for j in nonfinal if j < k])
        trans.append(dict(src=src, tgt=k, events=events(), internal=False, **callbacks(0.35)))
    for _ in range(rng.randint(0, 2 * n)):
        src = rng.choice(nonfinal)
        tgt = src if rng.random() < 0.25 else rng.randrange(n)
        t = dict(src=src, tgt=tgt, events=events(), internal=(src == tgt and rng.random() < 0.35), **callbacks(0.45))
        # twins: same kw as an existing transition (feeds multi-target / multi-source styles)
        if trans and rng.random() < 0.35:
            o = rng.choice(trans)
            if not o["internal"]:
                t = dict(o)
                if rng.random() < 0.5:
                    t["tgt"] = rng.randrange(n)
                else:
                    t["src"] = rng.choice(nonfinal)
        trans.append(t)
    rng.shuffle(trans)
    # keep the spanning transitions' reachability: order is irrelevant for validity
    for i, t in enumerate(trans):
        t["any"] = None
    anyg = None
    if allow_any and rng.random() < 0.3:
        evs = [nev] if rng.random() < 0.7 else [nev, nev + 1]
        nev += len(evs)
        z = rng.randrange(n)
        kw = callbacks(0.5)
        for s in nonfinal:
            trans.append(dict(src=s, tgt=z, events=list(evs), internal=False, any=0, **{g: list(kw[g]) for g in GROUPS}))
        anyg = dict(events=evs, tgt=z)
    for i, t in enumerate(trans):
        t["i"] = i
    # an event without transitions (only declarable as `e = Event(name=…)`)
    dangling = []
    if rng.random() < 0.12:
        dangling.append(nev)
        nev += 1
    conv = []
    for e in range(nev):
        for ph in ("before", "on", "after"):
            if rng.random() < 0.12:
                conv.append((f"{ph}_{evname(e)}", cb()))
    for s in states:
        if rng.random() < 0.12:
            conv.append((f"on_enter_s{s['k']}", cb()))
        if rng.random() < 0.08:
            conv.append((f"on_exit_s{s['k']}", cb()))
    return dict(states=states, trans=trans, nev=nev, anyg=anyg, conv=conv, ncb=cbc[0], dangling=dangling)


def machine_text(am):
    out = []
    for s in am["states"]:
        out.append(f"S {s['k']} v={s['value']} i={int(s['initial'])} f={int(s['final'])} en={s['enter']} ex={s['exit']}")
    for t in am["trans"]:
        out.append("T %d->%d ev=%s int=%d any=%s %s" % (
            t["src"], t["tgt"], t["events"], int(t["internal"]), t["any"],
            " ".join(f"{g}={t[g]}" for g in GROUPS if t[g])))
    out.append(f"conv={am['conv']} dangling={am.get('dangling', [])}")
    return "\n".join(out)


# ----------------------------------------------------------------------------- rendering (styles)

def _conflict(a, b):
    return a["src"] == b["src"] and bool(set(a["events"]) & set(b["events"]))


def _linear_extension(rng, items, before):
    """random order of `items` such that before(x, y) pairs keep x first; None if cyclic"""
    items = list(items)
    out = []
    while items:
        ready = [x for x in items if not any(before(y, x) for y in items if y is not x)]
        if not ready:
            return None
        x = rng.choice(ready)
        items.remove(x)
        out.append(x)
    return out


def render(am, rng, allow_any=True, allow_split=True, force=None):
    """returns dict(classes=[[stmt…], …], tags=set, base_states=int) or None when the drawn style is not
    realisable (caller redraws)"""
    force = force or {}
    tags = set()
    trans = am["trans"]
    nev = am["nev"]
    use_any = am["anyg"] is not None and allow_any and rng.random() < force.get("p_any", 0.6)
    # --- how each event reaches its transitions
    owner = {}            # transition index -> owning event (the attribute whose statement creates it)
    group = {}            # event -> list of transition indices created by its statement
    alias = {}            # event -> event whose list it shares
    extends = {}          # event -> event whose list it extends: `e = o | more`
    phmode = set()
    kwev = {t["i"]: [] for t in trans}   # events carried in event=
    any_evs = am["anyg"]["events"] if am["anyg"] else []
    order = list(range(nev))
    rng.shuffle(order)
    p_attr = force.get("p_attr", rng.choice([0.2, 0.5, 0.8, 1.0]))
    p_ph = rng.choice([0.3, 0.3, 0.9])      # (0.9: several placeholder `Event()` objects on one transition)
    for e in order:
        mine = [t["i"] for t in trans if e in t["events"]]
        if not mine:
            continue
        if e in any_evs and use_any:
            if e == any_evs[0]:
                group[e] = mine
                for i in mine:
                    owner[i] = e
            else:
                alias[e] = any_evs[0]
            continue
        r = rng.random()
        if r < p_attr:
            owners = {owner.get(i) for i in mine}
            if len(owners) == 1 and None not in owners:
                o = next(iter(owners))
                if sorted(group[o]) == sorted(mine) and o not in alias and o not in extends and rng.random() < 0.8:
                    alias[e] = o
                    continue
            free = [i for i in mine if i not in owner]
            named = owners - {None}
            if (free and len(named) == 1 and rng.random() < 0.6):
                o = next(iter(named))
                if set(group[o]) <= set(mine) and o not in alias and o not in any_evs and o not in extends:
                    extends[e] = o
            if e not in extends and rng.random() < 0.25 and len(free) > 1:
                free = rng.sample(free, rng.randint(1, len(free) - 1))
            if free:
                group[e] = sorted(free)
                for i in free:
                    owner[i] = e
            for i in mine:
                if owner.get(i) != e:
                    if not (e in extends and owner.get(i) == extends[e]):
                        kwev[i].append(e)
                elif rng.random() < 0.05:
                    kwev[i].append(e)        # redundant: named by the attribute and by event=
        else:
            if rng.random() < force.get("p_ph", p_ph):
                phmode.add(e)
            for i in mine:
                kwev[i].append(e)
    # --- statements: one per owning event, singletons for the rest
    stmts = []
    for e, idxs in group.items():
        stmts.append(dict(kind="group", ev=e, idxs=sorted(idxs)))
    for t in trans:
        if t["i"] not in owner:
            stmts.append(dict(kind="bare", ev=None, idxs=[t["i"]]))
    where = {}
    for s in stmts:
        for i in s["idxs"]:
            where[i] = s

    def sbefore(x, y):
        if y["ev"] is not None and extends.get(y["ev"]) == x["ev"] and x["ev"] is not None:
            return True
        return any(_conflict(trans[i], trans[j]) and i < j for i in x["idxs"] for j in y["idxs"])

    sorder = _linear_extension(rng, stmts, sbefore)
    if sorder is None:
        return None
    # --- build expressions
    used_ph = set()

    def kw_of(t, drop_on=None):
        evs = list(kwev[t["i"]])
        rng.shuffle(evs)
        on = list(t["on"])
        if drop_on is not None:
            on.remove(drop_on)
        return dict(evs=tuple(evs), internal=t["internal"], validators=tuple(t["validators"]), cond=tuple(t["cond"]),
                    unless=tuple(t["unless"]), before=tuple(t["before"]), on=tuple(on), after=tuple(t["after"]))

    def sig(k):
        return (frozenset(k["evs"]), k["internal"], k["validators"], k["cond"], k["unless"], k["before"], k["on"], k["after"])

    def items_of(evs):
        evs = list(evs)
        if not evs:
            return []
        form = rng.choice(["spaced", "list", "objs", "chunks"]) if len(evs) > 1 else rng.choice(["str", "str", "obj", "list1"])
        items = []
        plain = []
        for e in evs:
            if e in phmode and rng.random() < 0.8:
                items.append(("p", e))
                used_ph.add(e)
                tags.add("ev_placeholder")
            else:
                plain.append(e)
        if form == "spaced" and len(plain) > 1:
            items.append(("s", plain))
            tags.add("ev_spaced")
        elif form == "chunks" and len(plain) > 1:
            # a list whose items are themselves space-separated designators: event=["go e1", "stop"]
            rest = list(plain)
            while rest:
                k = min(len(rest), rng.choice([1, 2, 2, 3]))
                chunk, rest = rest[:k], rest[k:]
                items.append(("s", chunk))
                if k > 1:
                    tags.add("ev_spaced")
            items.append(("s", [plain[0]])) if rng.random() < 0.1 else None      # (a designator named twice)
            tags.add("ev_chunks")
        else:
            for e in plain:
                if form in ("objs", "obj") and rng.random() < 0.6:
                    items.append(("o", e))
                    tags.add("ev_obj")
                else:
                    items.append(("s", [e]))
                    tags.add("ev_str")
        rng.shuffle(items)
        aslist = len(items) > 1 or form == "list1"
        if aslist:
            tags.add("ev_list")
        return dict(items=items, aslist=aslist)

    def mk_kw(k):
        d = dict(k)
        d["event"] = items_of(k["evs"]) or dict(items=[], aslist=False)
        return d

    def calls_for(idxs, drop_on=None):
        ts = [trans[i] for i in idxs]
        seq = _linear_extension(rng, ts, lambda a, b: _conflict(a, b) and a["i"] < b["i"])
        exprs = []
        p = 0
        while p < len(seq):
            t = seq[p]
            k = kw_of(t, drop_on)
            run_t = [t]
            run_s = [t]
            q = p + 1
            while q < len(seq) and seq[q]["src"] == t["src"] and sig(kw_of(seq[q], drop_on)) == sig(k) and not t["internal"]:
                run_t.append(seq[q])
                q += 1
            q = p + 1
            while q < len(seq) and seq[q]["tgt"] == t["tgt"] and sig(kw_of(seq[q], drop_on)) == sig(k) and not t["internal"]:
                run_s.append(seq[q])
                q += 1
            kk = mk_kw(k)
            if len(run_t) > 1 and rng.random() < 0.7:
                m = rng.randint(2, len(run_t))
                exprs.append(("to", t["src"], [x["tgt"] for x in run_t[:m]], kk))
                tags.add("multi_target")
                p += m
            elif len(run_s) > 1 and rng.random() < 0.7:
                m = rng.randint(2, len(run_s))
                exprs.append(("from", t["tgt"], [x["src"] for x in run_s[:m]], kk))
                tags.add("multi_source")
                p += m
            else:
                if t["src"] == t["tgt"] and rng.random() < 0.6:
                    if rng.random() < 0.7:
                        exprs.append(("toit", t["src"], kk))
                        tags.add("to_itself")
                    else:
                        exprs.append(("fromit", t["src"], kk))
                        tags.add("from_itself")
                elif rng.random() < 0.5:
                    exprs.append(("to", t["src"], [t["tgt"]], kk))
                    tags.add("to")
                else:
                    exprs.append(("from", t["tgt"], [t["src"]], kk))
                    tags.add("from_")
                p += 1
        # combine with `|` in a random association
        while len(exprs) > 1:
            j = rng.randrange(len(exprs) - 1)
            exprs[j:j + 2] = [("or", exprs[j], exprs[j + 1])]
            tags.add("or")
        return exprs[0]

    body = []      # statements in order, each with the set of states it mentions
    for s in sorder:
        if s["kind"] == "bare":
            body.append(("bare", calls_for(s["idxs"])))
            tags.add("bare_statement")
            continue
        e = s["ev"]
        ts = [trans[i] for i in s["idxs"]]
        if use_any and e in any_evs:
            t0 = ts[0]
            k = kw_of(t0)
            assert not k["evs"]
            body.append(("assign", e, ("any", t0["tgt"], mk_kw(k))))
            tags.add("from_any")
            continue
        common_on = set(ts[0]["on"]).intersection(*[set(t["on"]) for t in ts[1:]]) if ts else set()
        r = rng.random()
        if common_on and r < force.get("p_deco", 0.45) and e not in extends and e not in extends.values():
            cbid = rng.choice(sorted(common_on))
            body.append(("deco", e, cbid, calls_for(s["idxs"], drop_on=cbid)))
            tags.add("decorator_event")
        elif e in extends:
            ex = calls_for(s["idxs"])
            ref = ("ref", extends[e])
            body.append(("assign", e, ("or", ref, ex) if rng.random() < 0.6 else ("or", ex, ref)))
            tags.add("extends_list")
        elif r < 0.7 or e in alias.values() or e in extends.values():
            body.append(("assign", e, calls_for(s["idxs"])))
            tags.add("assign")
        else:
            body.append(("eventof", e, calls_for(s["idxs"]), rng.random() < 0.6))
            tags.add("explicit_event")
    # aliases right after their original, or at the end
    for e, o in alias.items():
        pos = next(i for i, st in enumerate(body) if st[0] in ("assign", "deco") and st[1] == o)
        at = rng.randint(pos + 1, len(body))
        body.insert(at, ("assign", e, ("ref", o)))
        tags.add("shared_list")
    # placeholder events: before first use
    for e in sorted(phmode):
        if e in group or e in alias:
            continue
        first = len(body)
        for i, st in enumerate(body):
            if _mentions_ph(st, e):
                first = i
                break
        body.insert(rng.randint(0, first), ("ph", e))
        tags.add("placeholder_event")
    for e in am.get("dangling", []):
        body.insert(rng.randint(0, len(body)), ("ph", e))
        tags.add("event_without_transitions")
    # --- states: in order, grouped in runs, placed at the top or lazily before first use
    n = len(am["states"])
    runs = []
    k = 0
    while k < n:
        m = rng.choice([1, 1, 2, 3, n])
        run = am["states"][k:k + m]
        kind = "state"
        r = rng.random()
        if r < force.get("p_sdict", 0.25):
            kind = "sdict"
        elif r < force.get("p_sdict", 0.25) + force.get("p_senum", 0.2) and all(
                s["value"] is not None and not s["enter"] and not s["exit"] for s in run):
            kind = "senum"
        if kind == "state":
            for s in run:
                runs.append(("state", [s]))
        else:
            runs.append((kind, run))
            tags.add("States_dict" if kind == "sdict" else "States_from_enum")
        k += len(run)
    lazy = (not use_any) and rng.random() < 0.3
    full = []
    if not lazy:
        for i, (kind, run) in enumerate(runs):
            full.append(_state_stmt(kind, run, i, rng))
        full += body
    else:
        tags.add("states_declared_late")
        declared = 0   # number of runs emitted
        have = 0       # number of states declared
        for st in body:
            need = max(_states_of(st), default=-1)
            while have <= need:
                kind, run = runs[declared]
                full.append(_state_stmt(kind, run, declared, rng))
                declared += 1
                have += len(run)
            full.append(st)
        while declared < len(runs):
            kind, run = runs[declared]
            full.append(_state_stmt(kind, run, declared, rng))
            declared += 1
    classes = [full]
    # --- base class + subclass split
    if allow_split and rng.random() < force.get("p_split", 0.3):
        cuts = [c for c in range(1, len(full)) if _valid_split(am, full, c)]
        if use_any:
            # every state is declared (in the base) before anything else: a state first declared in the
            # subclass after the base's any() event is finding D16a (no expansion to later states)
            nstate = sum(1 for st in full if st[0] in ("state", "sdict", "senum"))
            cuts = [c for c in cuts if c >= nstate]
            tags.add("inheritance_with_any") if cuts else None
        if cuts:
            c = rng.choice(cuts)
            classes = [full[:c], full[c:]]
            tags.add("inheritance")
    # --- callbacks given as bound methods of an object outside the machine instead of by name (the object is
    # "armed" only after the class statement: a declaration style that worked on a copy of it would be seen)
    p_bound = force.get("p_bound", rng.choice([0.0, 0.0, 0.4, 0.9]))
    conv = {cid for _nm, cid in am["conv"]}
    bound = sorted(n for n in range(1, am["ncb"] + 1) if n not in conv and rng.random() < p_bound)
    if bound:
        tags.add("bound_methods")
    sloppy = rng.random() < force.get("p_sloppy", 0.3)
    if sloppy:
        tags.add("sloppy_event_strings")
    return dict(classes=classes, tags=tags, bound=bound, sloppy=sloppy)


def _state_stmt(kind, run, i, rng):
    if kind == "state":
        return ("state", run[0])
    if kind == "sdict":
        return ("sdict", run, f"_sd{i}")
    return ("senum", run, f"_se{i}", rng.random() < 0.3, rng.random() < 0.5, rng.random() < 0.3)


def _texprs(st):
    if st[0] in ("assign", "eventof"):
        return [st[2]]
    if st[0] == "bare":
        return [st[1]]
    if st[0] == "deco":
        return [st[3]]
    return []


def _walk(e):
    if e[0] == "or":
        yield from _walk(e[1])
        yield from _walk(e[2])
    else:
        yield e


def _states_of(st):
    out = set()
    for te in _texprs(st):
        for e in _walk(te):
            if e[0] == "to":
                out |= {e[1], *e[2]}
            elif e[0] == "from":
                out |= {e[1], *e[2]}
            elif e[0] in ("toit", "fromit", "any"):
                out.add(e[1])
    return out


def _kws(st):
    for te in _texprs(st):
        for e in _walk(te):
            if e[0] != "ref":
                yield e[-1]


def _mentions_ph(st, ev):
    return any(("p", ev) in kw["event"]["items"] for kw in _kws(st))


def _refs(st):
    return {e[1] for te in _texprs(st) for e in _walk(te) if e[0] == "ref"}


def _phs(st):
    return {it[1] for kw in _kws(st) for it in kw["event"]["items"] if it[0] == "p"}


def _valid_split(am, full, c):
    base, sub = full[:c], full[c:]
    bstates = []
    for st in base:
        if st[0] == "state":
            bstates.append(st[1]["k"])
        elif st[0] in ("sdict", "senum"):
            bstates += [s["k"] for s in st[1]]
    if 0 not in bstates:
        return False
    edges = set()
    nevents = 0
    battrs = set()
    for st in base:
        if st[0] in ("assign", "eventof", "deco", "ph"):
            battrs.add(st[1])
            nevents += 1
        for te in _texprs(st):
            for e in _walk(te):
                if e[0] == "to":
                    edges |= {(e[1], t) for t in e[2]}
                elif e[0] == "from":
                    edges |= {(s, e[1]) for s in e[2]}
                if e[0] != "ref" and e[-1]["event"]["items"]:
                    nevents += 1
    if nevents == 0:
        return False
    reach = {0}
    while True:
        new = {t for (s, t) in edges if s in reach} - reach
        if not new:
            break
        reach |= new
    if set(bstates) - reach:
        return False
    for st in sub:
        if _refs(st) & battrs or _phs(st) & battrs:
            return False
    # a subclass must add something
    return any(st[0] != "state" or True for st in sub)


# ----------------------------------------------------------------------------- program -> driver lines

def _lst(xs):
    xs = list(xs)
    return " ".join([str(len(xs))] + [str(x) for x in xs])


def _kw_lines(kw):
    items = kw["event"]["items"]
    parts = ["kw", str(len(items))]
    for it in items:
        if it[0] == "s":
            parts.append("s " + _lst(EV0 + e for e in it[1]))
        elif it[0] == "o":
            parts.append(f"o {EV0 + it[1]}")
        elif it[0] == "u":
            parts.append(f"p {EV0 + 50 + it[1]}")     # a placeholder object that is bound to no attribute
        else:
            parts.append(f"p {EV0 + it[1]}")
    parts.append("1" if kw["internal"] else "0")
    for g in GROUPS:
        parts.append(_lst(kw[g]))
    return " ".join(parts)


def _texpr_line(e):
    k = e[0]
    if k == "to":
        return f"to {e[1]} {_lst(e[2])} {_kw_lines(e[3])}"
    if k == "from":
        return f"from {e[1]} {_lst(e[2])} {_kw_lines(e[3])}"
    if k in ("toit", "fromit", "any"):
        return f"{k} {e[1]} {_kw_lines(e[2])}"
    if k == "or":
        return f"or {_texpr_line(e[1])} {_texpr_line(e[2])}"
    return f"ref {EV0 + e[1]}"


def _sdecl(s):
    v = "-" if s["value"] is None else str(s["value"])
    return f"{s['k']} {v} {int(s['initial'])} {int(s['final'])} {_lst(s['enter'])} {_lst(s['exit'])}"


def model_lines(prog, name):
    out = [f"scn decl {name}"]
    for cl in prog["classes"]:
        out.append("class")
        for st in cl:
            k = st[0]
            if k == "state":
                out.append("state " + _sdecl(st[1]))
            elif k == "sdict":
                out.append(f"sdict {len(st[1])} " + " ".join(_sdecl(s) for s in st[1]))
            elif k == "senum":
                ini = next((s["k"] for s in st[1] if s["initial"]), 99999)
                out.append(f"senum {len(st[1])} " + " ".join(f"{s['k']} {s['value']}" for s in st[1])
                           + f" {ini} " + _lst(s["k"] for s in st[1] if s["final"]))
            elif k == "assign":
                out.append(f"assign {EV0 + st[1]} {_texpr_line(st[2])}")
            elif k == "bare":
                out.append(f"bare {_texpr_line(st[1])}")
            elif k == "eventof":
                out.append(f"eventof {EV0 + st[1]} {_texpr_line(st[2])}")
            elif k == "ph":
                out.append(f"ph {EV0 + st[1]}")
            elif k == "deco":
                out.append(f"deco {EV0 + st[1]} {st[2]} {_texpr_line(st[3])}")
    out.append("end")
    return out


# ----------------------------------------------------------------------------- program -> Python source

def _names(xs, bound=frozenset()):
    """callbacks by name; those in `bound` as bound methods of the object `EXT` that lives outside the machine"""
    rs = [f"EXT.{cbname(x)}" if x in bound else repr(cbname(x)) for x in xs]
    if len(rs) == 1:
        return rs[0]
    return "[" + ", ".join(rs) + "]"


def python_source(am, prog, clsname="M"):
    """source text of the class chain; the last class is `clsname`. Needs in the exec namespace:
    StateMachine, State, States, Event, Enum, cb (decorator that tags a function with its id)."""
    lines = []
    sexpr = {}      # state k -> expression usable in the current class body
    nclasses = len(prog["classes"])
    bound = frozenset(prog.get("bound", ()))
    sloppy = bool(prog.get("sloppy"))
    for ci, cl in enumerate(prog["classes"]):
        last = ci == nclasses - 1
        cname = clsname if last else f"Base{ci}"
        parent = "StateMachine" if ci == 0 else f"Base{ci - 1}"
        pre = []
        body = []
        if ci > 0:
            # states of the base are reached through the base class
            sexpr = {k: f"{parent}.s{k}" for k in sexpr}

        def S(k):
            return sexpr[k]

        def kw_src(kw):
            parts = []
            items = kw["event"]["items"]
            if items:
                rs = []
                for it in items:
                    if it[0] == "s":
                        # a space-separated string; `sloppy`: written with runs of blanks / blanks at the ends
                        names_ = [evname(e) for e in it[1]]
                        k_ = sum(map(ord, "".join(names_))) + len(body)
                        if sloppy and k_ % 3 == 0:
                            txt_ = ("  " if k_ % 2 else " ").join(names_)
                            txt_ = (" " if k_ % 5 == 0 else "") + txt_ + (" " if k_ % 7 == 0 else "")
                        else:
                            txt_ = " ".join(names_)
                        rs.append(repr(txt_))
                    elif it[0] == "u":
                        rs.append(f"Event(name={('N u' + str(it[1]))!r})")
                    elif it[0] == "o":
                        rs.append(f"Event({evname(it[1])!r})" if (it[1] % 2) else f"Event({evname(it[1])!r}, name={('N ' + evname(it[1]))!r})")
                    else:
                        rs.append(evname(it[1]))
                parts.append("event=" + (("[" + ", ".join(rs) + "]") if kw["event"]["aslist"] else rs[0]))
            if kw["internal"]:
                parts.append("internal=True")
            for g in GROUPS:
                if kw[g]:
                    parts.append(f"{g}={_names(kw[g], bound)}")
            return ", ".join(parts)

        def tx(e):
            k = e[0]
            if k == "to":
                a = ", ".join([S(t) for t in e[2]] + ([kw_src(e[3])] if kw_src(e[3]) else []))
                return f"{S(e[1])}.to({a})"
            if k == "from":
                a = ", ".join([S(s) for s in e[2]] + ([kw_src(e[3])] if kw_src(e[3]) else []))
                return f"{S(e[1])}.from_({a})"
            if k == "toit":
                return f"{S(e[1])}.to.itself({kw_src(e[2])})"
            if k == "fromit":
                return f"{S(e[1])}.from_.itself({kw_src(e[2])})"
            if k == "any":
                return f"{S(e[1])}.from_.any({kw_src(e[2])})"
            if k == "or":
                return f"({tx(e[1])} | {tx(e[2])})"
            return evname(e[1])

        def state_ctor(s):
            a = []
            if s["value"] is not None:
                a.append(f"value={s['value']!r}")
            if s["initial"]:
                a.append("initial=True")
            if s["final"]:
                a.append("final=True")
            if s["enter"]:
                a.append(f"enter={_names(s['enter'], bound)}")
            if s["exit"]:
                a.append(f"exit={_names(s['exit'], bound)}")
            return "State(" + ", ".join(a) + ")"

        for st in cl:
            k = st[0]
            if k == "state":
                s = st[1]
                body.append(f"s{s['k']} = {state_ctor(s)}")
                sexpr[s["k"]] = f"s{s['k']}"
            elif k == "sdict":
                body.append(f"{st[2]} = States({{" + ", ".join(f"'s{s['k']}': {state_ctor(s)}" for s in st[1]) + "})")
                for s in st[1]:
                    sexpr[s["k"]] = f"{st[2]}.s{s['k']}"
            elif k == "senum":
                en = f"E{ci}{st[2]}"
                pre.append(f"class {en}({'IntEnum' if len(st) > 4 and st[4] else 'Enum'}):")
                for s in st[1]:
                    pre.append(f"    s{s['k']} = {s['value']!r}")
                if len(st) > 5 and st[5]:      # an enum alias (second name for a value) is not a member: no state
                    pre.append(f"    alias_of_s{st[1][-1]['k']} = {st[1][-1]['value']!r}")
                ini = next((f"{en}.s{s['k']}" for s in st[1] if s["initial"]), "None")
                fins = [f"{en}.s{s['k']}" for s in st[1] if s["final"]]
                a = [en, f"initial={ini}"]
                if len(fins) == 1 and (st[1][0]["k"] % 2 == 0):
                    a.append(f"final={fins[0]}")
                elif fins:
                    a.append("final=[" + ", ".join(fins) + "]")
                if st[3]:
                    a.append("use_enum_instance=True")
                body.append(f"{st[2]} = States.from_enum(" + ", ".join(a) + ")")
                for s in st[1]:
                    sexpr[s["k"]] = f"{st[2]}.s{s['k']}"
            elif k == "assign":
                e = st[2]
                if e[0] == "or" and e[1][0] == "ref" and (st[1] + len(body)) % 2 == 0:
                    # `tour = advance` then `tour |= more`: augmented assignment builds a new list, the shared one
                    # (`advance`) must not grow
                    body.append(f"{evname(st[1])} = {tx(e[1])}")
                    body.append(f"{evname(st[1])} |= {tx(e[2])}")
                else:
                    body.append(f"{evname(st[1])} = {tx(st[2])}")
            elif k == "bare":
                body.append(tx(st[1]))
            elif k == "eventof":
                nm = f", name={('N ' + evname(st[1]))!r}" if st[3] else ""
                body.append(f"{evname(st[1])} = Event({tx(st[2])}{nm})")
            elif k == "ph":
                body.append(f"{evname(st[1])} = Event(name={('N ' + evname(st[1]))!r})")
            elif k == "deco":
                body.append(f"@{_deco_target(tx(st[3]))}")
                body.append(f"@cb({st[2]})")
                body.append(f"def {evname(st[1])}(self):")
                body.append(f"    return self._hit({st[2]})")
        if last:
            conv = dict((cid, nm) for nm, cid in am["conv"])
            for n in range(1, am["ncb"] + 1):
                nm = conv.get(n, cbname(n))
                body.append(f"@cb({n})")
                body.append(f"def {nm}(self):")
                body.append(f"    return self._hit({n})")
            body.append("def _hit(self, n):")
            body.append("    return self.model.hit(n)")
        lines += pre
        lines.append(f"class {cname}({parent}):")
        lines += ["    " + b for b in body] or ["    pass"]
        lines.append("")
        if not last:
            # the base class is a machine of its own and is *used* before the subclass is written: one instance per
            # state, `allowed_events` read — the subclass must not be affected by anything that remembered
            lines.append(f"use_first({cname})")
            lines.append("")
    return "\n".join(lines)


def _deco_target(src):
    # a decorator must be a primary expression on old grammars; 3.9+ accepts any expression
    return src


def styles_differ(tags_list):
    """≥2 renderings whose style-tag sets differ in ≥2 choices"""
    for i in range(len(tags_list)):
        for j in range(i + 1, len(tags_list)):
            if len(tags_list[i] ^ tags_list[j]) >= 2:
                return True
    return False


def poison(prog, am, rng, kind):
    """append a statement that makes the definition invalid (every rendering must then be rejected)"""
    nonfinal = [s["k"] for s in am["states"] if not s["final"]]
    a = rng.choice(nonfinal)
    b = rng.choice([s["k"] for s in am["states"] if s["k"] != a])
    kw = dict(event=dict(items=[("s", [0])], aslist=False), internal=False, validators=(), cond=(), unless=(),
              before=(), on=(), after=())
    if kind == "internal":
        kw["internal"] = True
    else:
        kw["event"] = dict(items=[("u", 0)], aslist=rng.random() < 0.5)
    st = ("bare", ("to", a, [b], kw) if rng.random() < 0.5 else ("from", b, [a], kw))
    classes = [list(c) for c in prog["classes"]]
    classes[-1].append(st)
    return dict(classes=classes, tags=set(prog["tags"]) | {"invalid_" + kind}, bound=prog.get("bound", []),
                sloppy=prog.get("sloppy", False))
