"""C07: running the real code for one (signature, call) pair, and the modelled externals."""
from __future__ import annotations

import asyncio
import inspect

from bind_gen import DFLT, NAME_ID, canon_frame, kw_line, make_function, sig_line


class FalsyInt(int):
    """an argument value that is falsy (like 0, '' or None) but keeps its identity as a token"""

    def __bool__(self):
        return False


def _vals(args, kw):
    """every second token is passed as a falsy object: no decision of the binder may depend on truthiness"""
    w = lambda v: FalsyInt(v) if isinstance(v, int) and not isinstance(v, bool) and v % 2 == 0 else v
    return tuple(w(a) for a in args), {k: w(v) for k, v in dict(kw).items()}


def impl_direct(f, args, kw):
    """`callable_method(f)(*args, **kw)`: the adapter every resolved callback is wrapped in
    (`SignatureAdapter.from_callable(f).bind_expected` + `f(*ba.args, **ba.kwargs)`)"""
    from statemachine.dispatcher import callable_method
    try:
        w = callable_method(f)
        a2, k2 = _vals(args, kw)
        r = w(*a2, **k2)
        if inspect.isawaitable(r):
            r = asyncio.run(_await(r))
        return canon_frame(r)
    except TypeError:
        return "TypeError"


def impl_two_step(f, args, kw):
    """the same through the two internal entry points, when importable (DESIGN 5.3)"""
    from statemachine.signature import SignatureAdapter
    try:
        a2, k2 = _vals(args, kw)
        ba = SignatureAdapter.from_callable(f).bind_expected(*a2, **k2)
        r = f(*ba.args, **ba.kwargs)
        if inspect.isawaitable(r):
            r = asyncio.run(_await(r))
        return canon_frame(r)
    except TypeError:
        return "TypeError"


async def _await(r):
    return await r


# ----------------------------------------------------------------------------- externals

def cpython_call(f, cargs, ckw):
    try:
        return canon_frame(f(*cargs, **dict(ckw)))
    except TypeError:
        return "TypeError"


def call_scn(name, sig, cargs, ckw):
    return [f"scn call {name}", sig_line(sig), "args " + " ".join(map(str, cargs)), kw_line(ckw), "end"]


def arguments_entries(sig, present, dict_keys=("u1",)):
    """a `BoundArguments.arguments` dict with entries for the parameters in `present`"""
    out = []
    for n, k, _ in sig:
        if n not in present:
            continue
        if k == "vp":
            out.append((n, (150, 151)))
        elif k == "vk":
            out.append((n, {d: 250 + NAME_ID[d] for d in dict_keys}))
        else:
            out.append((n, 200 + NAME_ID[n]))
    return out


def cpython_ba(f, entries):
    ba = inspect.BoundArguments(inspect.signature(f), dict(entries))
    a = ba.args
    k = ba.kwargs
    if any(isinstance(v, tuple) for v in k.values()):
        return None  # a *args tuple stored by keyword: outside the model (never produced by bind_expected)
    return ("args " + ",".join(map(str, a))).rstrip(), \
        ("kwargs " + ",".join(f"{NAME_ID[n]}:{v}" for n, v in k.items())).rstrip()


def ba_scn(name, sig, entries):
    toks = []
    for n, v in entries:
        if isinstance(v, tuple):
            t = "tuple:" + ",".join(map(str, v))
        elif isinstance(v, dict):
            t = "dict:" + ",".join(f"{NAME_ID[k]}:{x}" for k, x in v.items())
        else:
            t = f"one:{v}"
        toks.append(f"{NAME_ID[n]}={t}")
    return [f"scn ba {name}", sig_line(sig), "arguments " + " ".join(toks), "end"]


__all__ = ["impl_direct", "impl_two_step", "cpython_call", "call_scn", "arguments_entries", "cpython_ba",
           "ba_scn", "make_function", "DFLT"]
