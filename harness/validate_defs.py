"""C09 inputs: class definitions (states with flags, events = lists of transition specs, loose
transitions, strict flag), their scenario text, exhaustive enumerators and seeded samplers.

A definition is a plain tuple structure (cheap to build by the million):
    states : tuple[(initial, final)]
    events : tuple[(pos, tuple[spec])]   pos = number of states declared before the event attribute
    loose  : tuple[spec]                 transitions created in the class body, bound to no event
    strict : bool
    spec   : ('e', src, tgt, internal) | ('a', tgt, internal)        ('a' = tgt.from_.any())
How the definition is *written* (does not reach the model): `mode` 'meta' (namespace dict handed to
StateMachineMetaclass) or 'exec' (a real `class` statement), and per explicit spec a style letter
't' = src.to(tgt) / 'f' = tgt.from_(src) / 'i' = src.to.itself().
"""
from __future__ import annotations

import itertools
import random
from collections import namedtuple

Defn = namedtuple("Defn", "states events loose strict mode styles")


def n_specs(d):
    return sum(len(e[1]) for e in d.events) + len(d.loose)


def spec_txt(sp, upto):
    if sp[0] == "e":
        return f"e:{sp[1]}:{sp[2]}:{int(sp[3])}"
    return f"a:{sp[1]}:{int(sp[2])}:{upto}"


def scn_lines(d, name):
    """Scenario text = what the Lean driver reads (it ignores the `opt` line)."""
    n = len(d.states)
    out = [f"scn validate {name}", f"strict {int(d.strict)}"]
    for i, f in d.states:
        out.append(f"state {int(i)} {int(f)}")
    for pos, specs in d.events:
        out.append("event " + (",".join(spec_txt(s, pos) for s in specs) or "-"))
    if d.loose:
        out.append("loose " + ",".join(spec_txt(s, n) for s in d.loose))
    out.append(f"opt mode={d.mode} pos={','.join(str(p) for p, _ in d.events) or '-'} styles={d.styles or '-'}")
    out.append("end")
    return out


def canon(d):
    return "\n".join(scn_lines(d, "x")[1:-2])


def parse_scn(lines):
    """Inverse of scn_lines (for --replay and the corpus)."""
    states, events, loose, strict, mode, styles, poss = [], [], [], False, "meta", "", None
    name = "replay"

    def spec(t):
        p = t.split(":")
        if p[0] == "e":
            return ("e", int(p[1]), int(p[2]), p[3] == "1"), None
        return ("a", int(p[1]), p[2] == "1"), int(p[3])

    for l in lines:
        p = l.split()
        if not p:
            continue
        if p[0] == "scn":
            name = p[2] if len(p) > 2 else p[1]
        elif p[0] == "strict":
            strict = p[1] == "1"
        elif p[0] == "state":
            states.append((p[1] == "1", p[2] == "1"))
        elif p[0] == "event":
            sps, upto = [], None
            if p[1] != "-":
                for t in p[1].split(","):
                    s, u = spec(t)
                    sps.append(s)
                    if u is not None:
                        upto = u
            events.append([upto, tuple(sps)])
        elif p[0] == "loose":
            loose += [spec(t)[0] for t in p[1].split(",")]
        elif p[0] == "opt":
            kv = dict(x.split("=", 1) for x in p[1:])
            mode = kv.get("mode", "meta")
            styles = "" if kv.get("styles", "-") == "-" else kv["styles"]
            if kv.get("pos", "-") != "-":
                poss = [int(x) for x in kv["pos"].split(",")]
        elif p[0] == "end":
            break
    n = len(states)
    for i, e in enumerate(events):
        if poss is not None and i < len(poss):
            e[0] = poss[i]
        elif e[0] is None:
            e[0] = n
    return name, Defn(tuple(states), tuple((p, s) for p, s in events), tuple(loose), strict, mode, styles)


# ----------------------------------------------------------------------------- writing style

def exec_ok(d):
    """Can the definition be written as a class statement (names defined before use)?"""
    for pos, specs in d.events:
        for s in specs:
            if s[0] == "e" and (s[1] >= pos or s[2] >= pos):
                return False
            if s[0] == "a" and s[1] >= pos:
                return False
    return True


def decorate(rng, states, events, loose, strict):
    """Choose mode and styles from `rng` (the writing style is not seen by the model)."""
    styles = []
    for _, specs in events:
        for s in specs:
            if s[0] == "e":
                styles.append(rng.choice("tfi" if s[1] == s[2] else "tf"))
    for s in loose:
        if s[0] == "e":
            styles.append(rng.choice("tfi" if s[1] == s[2] else "tf"))
    d = Defn(states, events, loose, strict, "meta", "".join(styles))
    if exec_ok(d) and rng.random() < 0.4:
        d = d._replace(mode="exec")
    return d


def group(rng, specs, n):
    """Partition a transition multiset into events declared after all states."""
    if not specs:
        return ()
    k = rng.randint(1, len(specs))
    buckets = [[] for _ in range(k)]
    for s in specs:
        buckets[rng.randrange(k)].append(s)
    return tuple((n, tuple(b)) for b in buckets if b)


# ----------------------------------------------------------------------------- exhaustive cores

def kinds(n, internal):
    ks = [("e", s, t, False) for s in range(n) for t in range(n)] + [("a", t, False) for t in range(n)]
    if internal:
        ks += [("e", s, t, True) for s in range(n) for t in range(n)] + [("a", t, True) for t in range(n)]
    return ks


def flag_assignments(n):
    return list(itertools.product([(False, False), (True, False), (False, True), (True, True)], repeat=n))


def core_tasks(tier):
    """(core, n, flag index, strict, kmax). Core 'A': every multiset of <= kmax plain transitions
    (explicit incl. self-loops and parallel edges, from_.any()); core 'B': every multiset of <= 2
    transitions with >= 1 `internal=True` flag (incl. invalid internal non-self / internal any)."""
    tasks = []
    if tier == "quick":
        a_max = {0: 0, 1: 3, 2: 3, 3: 3}
    else:
        a_max = {0: 0, 1: 4, 2: 4, 3: 4, 4: 4}
    for n, kmax in a_max.items():
        for fi in range(4 ** n):
            for strict in (False, True):
                tasks.append(("A", n, fi, strict, kmax))
                tasks.append(("B", n, fi, strict, 2))
    return tasks


def core_size(task):
    from math import comb
    core, n, fi, strict, kmax = task
    ka, kb = n * n + n, 2 * (n * n + n)
    if core == "A":
        return comb(ka + kmax, kmax) + 1          # +1: the empty multiset is written twice
    return comb(kb + 2, 2) - comb(ka + 2, 2)


def core_defs(seed, task):
    core, n, fi, strict, kmax = task
    states = flag_assignments(n)[fi]
    plain = kinds(n, False)
    if core == "A":
        for k in range(kmax + 1):
            for ms in itertools.combinations_with_replacement(plain, k):
                key = f"{seed}:C09:{core}:{n}:{fi}:{int(strict)}:{ms}"
                rng = random.Random(key)
                if k == 0:
                    # no event at all, and one event holding an empty TransitionList
                    yield decorate(rng, states, (), (), strict)
                    yield decorate(rng, states, ((n, ()),), (), strict)
                else:
                    yield decorate(rng, states, group(rng, ms, n), (), strict)
    else:
        allk = kinds(n, True)
        for k in (1, 2):
            for ms in itertools.combinations_with_replacement(allk, k):
                if not any(s[-1] for s in ms):
                    continue
                rng = random.Random(f"{seed}:C09:{core}:{n}:{fi}:{int(strict)}:{ms}")
                yield decorate(rng, states, group(rng, ms, n), (), strict)


# ----------------------------------------------------------------------------- seeded samplers

def sample(seed, tag, i):
    rng = random.Random(f"{seed}:C09:{tag}:{i}")
    return SAMPLERS[tag](rng)


def _flags(rng, n, p_final=0.3):
    init = rng.randrange(n)
    st = []
    for j in range(n):
        r = rng.random()
        ini = (j == init) if r > 0.08 else rng.random() < 0.5
        st.append((ini, rng.random() < p_final))
    return tuple(st)


def _spec(rng, n, p_any=0.15, p_int=0.08):
    if rng.random() < p_any:
        return ("a", rng.randrange(n), rng.random() < p_int / 2)
    s = rng.randrange(n)
    t = s if rng.random() < 0.2 else rng.randrange(n)
    internal = rng.random() < (p_int * 3 if s == t else p_int / 3)
    return ("e", s, t, internal)


def s_early(rng):
    """Events declared before some states (from_.any() then covers only the states registered so
    far), loose transitions, empty events. Restriction (printed in the evidence): an event that
    holds a from_.any() and is declared early holds no explicit transition whose source is
    declared after it (the library would then re-expand the placeholder when that state is
    registered - declaration-order behaviour that belongs to C15)."""
    n = rng.randint(1, 4)
    states = _flags(rng, n)
    events = []
    for _ in range(rng.randint(0, 3)):
        pos = rng.randint(0, n) if rng.random() < 0.7 else n
        specs = [_spec(rng, n, p_any=0.4) for _ in range(rng.randint(0, 3))]
        if pos < n and any(s[0] == "a" for s in specs):
            specs = [s for s in specs if s[0] == "a" or s[1] < pos]
        events.append((pos, tuple(specs)))
    events.sort(key=lambda e: e[0])
    loose = tuple(_spec(rng, n, p_any=0.2) for _ in range(rng.randint(0, 2))) if rng.random() < 0.6 else ()
    return decorate(rng, states, tuple(events), loose, rng.random() < 0.5)


def s_random(rng, lo=4, hi=5, emax=5):
    n = rng.randint(lo, hi)
    states = _flags(rng, n)
    specs = [_spec(rng, n) for _ in range(rng.randint(0, emax))]
    return decorate(rng, states, group(rng, specs, n), (), rng.random() < 0.5)


def s_wf(rng, lo=3, hi=6):
    """Biased towards accepted machines (a random graph of this size is almost always rejected by
    an early check): spanning tree from the initial state, a few extra edges, finals mostly at
    leaves; then 0-2 random perturbations (flip a flag, reverse/redirect/drop an edge)."""
    n = rng.randint(lo, hi)
    order = list(range(n))
    rng.shuffle(order)
    init = order[0]
    edges = []
    for k in range(1, n):
        edges.append([order[rng.randrange(k)], order[k]])
    for _ in range(rng.randint(0, 3)):
        edges.append([rng.randrange(n), rng.randrange(n)])
    srcs = {s for s, _ in edges}
    final = [False] * n
    for j in range(n):
        if j not in srcs and j != init and rng.random() < 0.6:
            final[j] = True
    initial = [j == init for j in range(n)]
    specs = [("e", s, t, s == t and rng.random() < 0.3) for s, t in edges]
    if any(final) and rng.random() < 0.25:
        specs.append(("a", rng.choice([j for j in range(n) if final[j]]), False))
    for _ in range(rng.choice((0, 0, 1, 1, 2))):
        r = rng.random()
        if r < 0.25:
            j = rng.randrange(n)
            final[j] = not final[j]
        elif r < 0.35:
            j = rng.randrange(n)
            initial[j] = not initial[j]
        elif specs:
            k = rng.randrange(len(specs))
            sp = specs[k]
            if sp[0] == "e":
                if r < 0.55:
                    specs[k] = ("e", sp[2], sp[1], sp[3])
                elif r < 0.75:
                    specs[k] = ("e", sp[1], rng.randrange(n), False)
                else:
                    del specs[k]
    states = tuple(zip(initial, final))
    return decorate(rng, states, group(rng, specs, n), (), rng.random() < 0.5)


def s_big(rng):
    return s_wf(rng, 6, 9) if rng.random() < 0.7 else s_random(rng, 6, 8, 10)


def s_orphan(rng):
    """some transitions point at a `State` object that is not declared in the class (index n): it counts as a way out
    of its source, and it never makes a declared state reachable"""
    d = s_wf(rng, 2, 5)
    n = len(d.states)
    events = []
    for pos, specs in d.events:
        new = []
        for sp in specs:
            if sp[0] == "e" and not sp[3] and rng.random() < 0.35:
                new.append(("e", sp[1], n, False))          # redirected to the undeclared state
                if rng.random() < 0.5:
                    new.append(sp)                          # … next to the original
            else:
                new.append(sp)
        events.append((pos, tuple(new)))
    if not any(sp[0] == "e" and sp[2] == n for _, specs in events for sp in specs):
        events.append((n, (("e", rng.randrange(n), n, False),)))
    return decorate(rng, d.states, tuple(events), (), d.strict)._replace(mode="meta")


def s_anyfinal(rng):
    """`<final>.from_.any()` declared *before* some of the states: it covers the states registered so far only. The
    states declared later are reachable and have transitions of their own — among themselves, back to earlier states,
    sometimes to the final state: whether every state can reach a final one has to be worked out by walking, not
    concluded from the presence of an any() to a final state."""
    n = rng.randint(3, 6)
    k = rng.randint(2, n - 1)                    # states 0..k-1 are declared before the any() event
    states = tuple((j == 0, j == 1) for j in range(n))
    events = [(k, (("a", 1, False),))]
    late = list(range(k, n))
    early = [0] + list(range(2, k))
    specs = []
    for j in late:                               # every late state is entered from somewhere and has a way out
        specs.append(("e", rng.choice(early + [x for x in late if x < j]), j, False))
        r = rng.random()
        if r < 0.35:
            specs.append(("e", j, j, False))
        elif r < 0.6:
            specs.append(("e", j, rng.choice(late), False))
        elif r < 0.8:
            specs.append(("e", j, rng.choice(early), False))
        else:
            specs.append(("e", j, 1, False))
    for _ in range(rng.randint(0, 2)):
        specs.append(_spec(rng, n, p_any=0.0))
    rng.shuffle(specs)
    events += list(group(rng, specs, n))
    return decorate(rng, states, tuple(events), (), rng.random() < 0.5)


SAMPLERS = {"anyfinal": s_anyfinal, "early": s_early, "random": s_random, "wf": s_wf, "big": s_big, "orphan": s_orphan}
