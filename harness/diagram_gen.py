"""C18 — machine definitions for the diagram check: scenario description, seeded generator,
(de)serialisation, and the rendering of a scenario as input lines of the Lean driver `drv_diagram`.

A scenario describes a machine the way a user writes it (states, transitions, callback names and who
provides them); everything the diagram is supposed to show is derivable from it *without* running
the library.  `expected_*` functions at the bottom derive, by the documented rules, what the model
takes as input (state name, event list, visible action names for a class / for an instance).
"""
from __future__ import annotations

import json
import random
from dataclasses import asdict, dataclass, field

# ----------------------------------------------------------------------------- string encoding

_PLAIN = set("abcdefghijklmnopqrstuvwxyzABCDEFGHIJKLMNOPQRSTUVWXYZ0123456789_")


def enc(s: str) -> str:
    """every character outside [A-Za-z0-9_] as %<hex>; (same function in DrvDiagram.lean)"""
    return "".join(c if c in _PLAIN else f"%{ord(c):x};" for c in s)


def enc_list(xs) -> str:
    return ",".join(enc(x) for x in xs) if xs else "-"


# ----------------------------------------------------------------------------- scenario

@dataclass
class DState:
    id: str
    name: str | None = None          # explicit name or None (derived from the id)
    value: object = None             # explicit value (int / str / tuple as list) or None (= id)
    initial: bool = False
    final: bool = False
    enter: list = field(default_factory=list)    # inline callbacks: [name, style] style in name|callable
    exit: list = field(default_factory=list)


@dataclass
class DTrans:
    src: int
    tgt: int
    events: list = field(default_factory=list)   # explicit `event=` names
    attr: str | None = None                      # declared as class attribute `<attr> = ...` (adds that event)
    internal: bool = False
    cond: list = field(default_factory=list)     # [text, style]
    unless: list = field(default_factory=list)
    on: list = field(default_factory=list)
    event_as_list: bool = True                   # event=[..] vs event="a b"
    any_group: int = 0                           # >0: written, with the other members of the group (one per non-final
                                                 # state, same target and arguments), as `<attr> = tgt.from_.any(...)`


@dataclass
class DScn:
    name: str
    states: list = field(default_factory=list)
    trans: list = field(default_factory=list)
    machine_methods: list = field(default_factory=list)   # names defined on the machine class
    model_methods: list = field(default_factory=list)     # names defined on the model class
    guard_vals: dict = field(default_factory=dict)         # guard name -> bool it returns
    late_guards: list = field(default_factory=list)    # guard names also offered by a listener attached after construction
    coro: bool = False       # the machine has a coroutine callback (one that no diagram shows): async engine, not
                             # activated by its constructor — the first instance diagram has no current state (D38)
    fill: str | None = None          # custom DotGraphMachine.state_active_fillcolor
    pen: object = None               # custom state_active_penwidth
    walks: list = field(default_factory=list)              # [[event, ...], ...]
    sets: list = field(default_factory=list)               # state indices assigned to current_state_value
    via: str = "graph"               # instances observed through sm._graph() or DotGraphMachine(sm)()
    rtc: bool = True
    subclass: bool = False           # observe through an empty subclass `class Sub(M): pass`
    states_dict: bool = False        # states declared through `States({id: State(...), ...})`: ids are arbitrary strings
    override: int = -1               # >= 0: the class is written as a base class plus a subclass that *overrides* that
                                     # state (a new State object under the same id) and declares its outgoing transitions
    placeholders: bool = False       # the events named in `event=` are id-less `Event(name=…)` objects that get their
                                     # ids from the class attributes they are assigned to (same machine, other spelling)


def to_json(s: DScn) -> str:
    return json.dumps(asdict(s), sort_keys=True, ensure_ascii=True)


def from_json(txt: str) -> DScn:
    d = json.loads(txt)
    s = DScn(name=d["name"])
    for k, v in d.items():
        if k == "states":
            s.states = [DState(**x) for x in v]
        elif k == "trans":
            s.trans = [DTrans(**x) for x in v]
        else:
            setattr(s, k, v)
    return s


def pyvalue(v):
    """JSON-safe scenario value -> the Python value given to State(value=...)"""
    if isinstance(v, list):
        return tuple(pyvalue(x) for x in v)
    return v


def value_text(st: DState) -> str:
    """canonical text of a state's value (what `inst <value>` carries)"""
    v = st.id if st.value is None else pyvalue(st.value)
    return repr(v)


# ----------------------------------------------------------------------------- documented rules

def state_name(st: DState) -> str:
    """docs: a state without a name is named after its id (`_` -> blank, capitalised)"""
    return st.name if st.name else st.id.replace("_", " ").capitalize()


def trans_events(t: DTrans) -> list:
    """explicit `event=` names in order without repetitions, then the attribute it was assigned to"""
    out = []
    for e in t.events + ([t.attr] if t.attr else []):
        if e not in out:
            out.append(e)
    return out


def guards_of(t: DTrans) -> list:
    """[(text, expected)] in the order cond..., unless..."""
    return [(c[0], True) for c in t.cond] + [(c[0], False) for c in t.unless]


def _visible(s: DScn, inline, generic, specific, instance: bool) -> list:
    """Names the label shows for one callback group.

    class: the declared (inline) callbacks, then the convention names that exist on the class.
    instance: the callbacks actually registered, in execution order: generic convention
    (`on_enter_state` ...), inline, specific convention (`on_enter_<id>` ...); a name provided by the
    machine and by the model is registered (and listed) twice."""
    mm, md = set(s.machine_methods), set(s.model_methods)
    if not instance:
        return [c[0] for c in inline] + [n for n in generic + specific if n in mm]
    out = []

    def providers(n):
        return int(n in mm) + int(n in md)

    for n in generic:
        out += [n] * providers(n)
    for c in inline:
        out += [c[0]] * (1 if c[1] == "callable" else providers(c[0]))
    for n in specific:
        out += [n] * providers(n)
    return out


def visible_enter(s: DScn, st: DState, instance: bool) -> list:
    return _visible(s, st.enter, ["on_enter_state"], [f"on_enter_{st.id}"], instance)


def visible_exit(s: DScn, st: DState, instance: bool) -> list:
    return _visible(s, st.exit, ["on_exit_state"], [f"on_exit_{st.id}"], instance)


def visible_on(s: DScn, t: DTrans, instance: bool) -> list:
    return _visible(s, t.on, ["on_transition"], [f"on_{e}" for e in trans_events(t)], instance)


# ----------------------------------------------------------------------------- driver input

def model_lines(s: DScn, subjects, fill="turquoise", pen="2"):
    """subjects: list of ('cls',) / ('inst', value_text). Action names depend on class/instance, so
    one driver scenario is emitted per kind: `<name>#cls`, `<name>#inst`."""
    out = []
    for kind in ("cls", "inst"):
        subs = [x for x in subjects if x[0] == kind or (kind == "inst" and x[0] == "unset")]
        if not subs:
            continue
        inst = kind == "inst"
        out.append(f"scn diagram {s.name}#{kind}")
        out.append(f"style fill={enc(str(fill))} pen={enc(str(pen))}")
        for st in s.states:
            out.append(
                f"state id={enc(st.id)} name={enc(state_name(st))} value={enc(value_text(st))} "
                f"init={int(st.initial)} final={int(st.final)} "
                f"enter={enc_list(visible_enter(s, st, inst))} exit={enc_list(visible_exit(s, st, inst))}")
        for t in s.trans:
            g = ",".join(f"{enc(n)}:{int(e)}" for n, e in guards_of(t)) or "-"
            out.append(
                f"trans src={t.src} tgt={enc(s.states[t.tgt].id)} int={int(t.internal)} "
                f"ev={enc_list(trans_events(t))} guards={g} on={enc_list(visible_on(s, t, inst))}")
        for x in subs:
            out.append("subject cls" if kind == "cls" else "subject unset" if x[0] == "unset" else f"subject inst {enc(x[1])}")
        out.append("end")
    return out


# ----------------------------------------------------------------------------- generator

# state ids `i` (name of the pseudo-node) and node/edge/graph in any letter case (DOT keywords that
# pydot writes unquoted) are excluded here: known findings `state-id-i`, `state-id-dot-keyword`.
EXCLUDED_IDS = {"i"}
EXCLUDED_IDS_CI = {"node", "edge", "graph"}

ID_POOL = ["s0", "s1", "s2", "s3", "s4", "s5", "a", "b", "idle", "running_fast", "Done", "_x", "I", "n",
           "e", "ii", "i_", "strict", "subgraph", "digraph", "Digraph", "label", "list", "nodes", "node_",
           "été", "x9", "A1", "wait_for_it", "closed"]
NAME_POOL = ["Nice name", "In progress", 'He said "hi"', "[w]", "a / b", "entry / x", "!x", "go", "S0",
             "Größe", "x, y", "  padded ", "i", "node", "100%", "a;b", "a->b", "{r}", "<b>"]
EVENT_POOL = ["go", "tick", "stop", "e1", "e_2", "reset", "go_back", "Go", "cycle", "é"]
ACTION_POOL = ["a1", "a2", "a3", "act", "log_it", "notify", "A1_", "do_x"]
GUARD_POOL = ["g1", "g2", "g3", "ok", "is_ready", "frozen"]
VALUE_POOL = [0, 1, 2, 3, 7, -1, "", "x", "y", "long value", "i", 10, 11, [1, 2], [], ["a"]]
FILLS = [None, "red", "#ff00ff", "white smoke", "turquoise"]
PENS = [None, 3, "4", 1.5]


def allowed_id(x: str) -> bool:
    return x not in EXCLUDED_IDS and x.lower() not in EXCLUDED_IDS_CI


# ids that are not identifiers (only possible through a `States({...})` mapping), in pairs that differ only in the
# character an "identifier-safe" rewriting would touch
WEIRD_IDS = ["in-progress", "in_progress", "to do", "to_do", "a.b", "a_b", "x+y", "x_y", "9lives", "_9lives",
             "done!", "done_", "ünï-code", "ünï_code", "50%", "50_"]


def gen_scenario(rng: random.Random, name: str, ids=None) -> DScn:
    s = DScn(name=name)
    n = rng.choice([1, 2, 2, 3, 3, 3, 4, 4, 5, 6])
    if not ids and rng.random() < 0.15:
        s.states_dict = True
        k = rng.randrange(0, len(WEIRD_IDS) - 1, 2)
        pool = WEIRD_IDS[k:k + 2] + rng.sample([x for x in WEIRD_IDS + ["s0", "s1", "idle"] if x not in WEIRD_IDS[k:k + 2]], 4)
        ids = pool[:max(2, n)]
    ids = list(ids) if ids else rng.sample([x for x in ID_POOL if allowed_id(x)], n)
    n = len(ids)
    plain_vals = rng.random() < 0.5
    vals = rng.sample(range(len(VALUE_POOL)), n)
    init = rng.randrange(n)
    for k in range(n):
        st = DState(id=ids[k], initial=(k == init))
        if rng.random() < 0.4:
            st.name = rng.choice(NAME_POOL)
        if not plain_vals and rng.random() < 0.7:
            st.value = VALUE_POOL[vals[k]]
        s.states.append(st)
    # explicit values must not collide with the implicit value (= id) of another state
    for k in range(n):
        if n > 1 and k != init and rng.random() < 0.3:
            s.states[k].final = True
    evs = rng.sample(EVENT_POOL, rng.randint(1, 4))
    if rng.random() < 0.15:
        # an event named like a state (`open.to(closed, event="closed")`): legal — the class attribute of that
        # name is then the event, not the state — and irrelevant for the picture
        evs.append(rng.choice([i for i in ids if " " not in i] or ["go2"]))     # (a blank separates event names)
    attr_evs = [e for e in evs if e not in ids]
    nonfinal = [k for k in range(n) if not s.states[k].final]

    def rand_events():
        k = 1
        if rng.random() < 0.3 and len(evs) >= 2:
            k = rng.randint(2, min(3, len(evs)))
        return rng.sample(evs, k)

    def new_trans(src, tgt, internal=False):
        t = DTrans(src=src, tgt=tgt, internal=internal)
        r = rng.random()
        if r < 0.45 or not attr_evs:
            t.events = rand_events()
        elif r < 0.75:
            t.attr = rng.choice(attr_evs)
        else:
            t.events = rand_events()
            t.attr = rng.choice(attr_evs)
        t.event_as_list = rng.random() < 0.6
        return t

    reach = [init]
    others = [k for k in range(n) if k != init]
    rng.shuffle(others)
    for k in others:
        pred = rng.choice([r for r in reach if not s.states[r].final])
        s.trans.append(new_trans(pred, k))
        reach.append(k)
    for _ in range(rng.randint(0, 6)):
        src = rng.choice(nonfinal)
        r = rng.random()
        if r < 0.25:
            s.trans.append(new_trans(src, src, internal=True))
        elif r < 0.4:
            s.trans.append(new_trans(src, src))
        elif r < 0.6 and s.trans:
            # another transition between an already connected pair (possibly an exact twin)
            o = rng.choice([t for t in s.trans if not t.internal] or s.trans)
            t = new_trans(o.src, o.tgt, internal=o.internal)
            if rng.random() < 0.5:
                t.events, t.attr, t.event_as_list = list(o.events), o.attr, o.event_as_list
            s.trans.append(t)
        else:
            s.trans.append(new_trans(src, rng.randrange(n)))
    for k in nonfinal:
        if not any(t.src == k for t in s.trans):
            s.trans.append(new_trans(k, rng.choice([k, init]), internal=False))
    rng.shuffle(s.trans)
    # callbacks
    mm, md, gv = [], [], {}

    def provide(nm, allow_both=True):
        r = rng.random()
        if r < 0.6:
            mm.append(nm)
        elif r < 0.85 or not allow_both:
            md.append(nm)
        else:
            mm.append(nm)
            md.append(nm)

    def inline(pool, kmax, p, prop_ok=False):
        out = []
        if rng.random() < p:
            for nm in rng.sample(pool, rng.randint(1, kmax)):
                r = rng.random()
                # "prop": the guard is given as the `property` object of its provider's class (D37)
                style = "callable" if r < 0.2 else ("prop" if prop_ok and r < 0.35 else "name")
                out.append([nm, style])
        return out

    for st in s.states:
        st.enter = inline(ACTION_POOL, 2, 0.3)
        if not st.final:
            st.exit = inline(ACTION_POOL, 2, 0.25)
        for nm in (f"on_enter_{st.id}", f"on_exit_{st.id}"):
            if rng.random() < 0.15 and not (st.final and "exit" in nm):
                provide(nm)
    for nm in ("on_enter_state", "on_exit_state", "on_transition"):
        if rng.random() < 0.15:
            provide(nm)
    for t in s.trans:
        t.cond = inline(GUARD_POOL, 2, 0.35, prop_ok=True)
        t.unless = inline([g for g in GUARD_POOL if g not in [c[0] for c in t.cond]], 2, 0.25, prop_ok=True)
        if t.cond and rng.random() < 0.15:
            expr = rng.choice(["{} and {}", "{} or not {}", "not {} and {}"]).format(
                *rng.sample(GUARD_POOL, 2))
            t.cond.append([expr, "name"])
        t.on = inline(ACTION_POOL, 2, 0.6 if t.internal else 0.2)
    spare = [e for e in EVENT_POOL if e not in evs and e not in ids]
    if spare and rng.random() < 0.3:
        # one event declared with `from_.any()`: the same transition out of every non-final state, guards included
        ev = rng.choice(spare)
        tgt = rng.randrange(n)
        proto = DTrans(src=0, tgt=tgt, attr=ev)
        proto.cond = inline(GUARD_POOL, 2, 0.6, prop_ok=True)
        proto.unless = inline([g for g in GUARD_POOL if g not in [c[0] for c in proto.cond]], 2, 0.4, prop_ok=True)
        proto.on = inline(ACTION_POOL, 2, 0.3)
        for k in nonfinal:
            s.trans.append(DTrans(src=k, tgt=tgt, attr=ev, cond=[list(c) for c in proto.cond],
                                  unless=[list(c) for c in proto.unless], on=[list(c) for c in proto.on], any_group=1))
        evs.append(ev)
    for e in evs:
        if rng.random() < 0.2:
            provide(f"on_{e}")
    used = set()
    for st in s.states:
        used |= {c[0] for c in st.enter + st.exit if c[1] == "name"}
    for t in s.trans:
        used |= {c[0] for c in t.on if c[1] == "name"}
    for nm in sorted(used):
        provide(nm)
    for g in GUARD_POOL:
        gv[g] = rng.random() < 0.7
        provide(g, allow_both=False)
    s.machine_methods, s.model_methods, s.guard_vals = sorted(set(mm)), sorted(set(md)), gv
    s.coro = rng.random() < 0.2
    if s.coro:
        s.rtc = True
    named_guards = sorted({c[0] for t in s.trans for c in t.cond + t.unless if c[1] == "name" and c[0] in GUARD_POOL})
    if named_guards and rng.random() < 0.3:
        s.late_guards = rng.sample(named_guards, rng.randint(1, len(named_guards)))
    if rng.random() < 0.35:      # a DotGraphMachine subclass with its own active-state style
        s.fill = rng.choice(FILLS)
        s.pen = rng.choice(PENS)
    all_events = sorted({e for t in s.trans for e in trans_events(t)})
    for _ in range(rng.randint(1, 3)):
        s.walks.append([rng.choice(all_events) for _ in range(rng.randint(1, 6))])
    s.sets = list(range(n))
    rng.shuffle(s.sets)
    s.via = rng.choice(["graph", "dot"])
    s.rtc = rng.random() < 0.8
    s.subclass = rng.random() < 0.15
    s.placeholders = rng.random() < 0.25
    if rng.random() < 0.2 and not s.subclass and not s.states_dict:
        s.override = rng.randrange(n)
    return s
