"""C08: grammar-directed generation of guard expressions, values and scenarios; conversion of
CPython's parse tree to the Lean driver's prefix form.

A scenario (a JSON-able dict, also the replay format):
  names    {name: [[provider, kind], ...]}   providers in provider order machine < model < L0 < L1;
                                              kind: attr | prop | method | coro
  entries  [{group: cond|unless, kind: expr|callable|prop|method, text, canon, name}]
           expr: `text` is what is handed to the library, `canon` the same token sequence with the
           alternate spellings written as keywords (what Python itself is asked to evaluate);
           callable/prop/method: `name` is a single name with exactly one provider
  rounds   [{slot: value token}]   slot = "provider.name"
  force_async  bool   (an async on_enter callback: the async engine decides the guards)
"""
from __future__ import annotations

import ast
import json

PROVIDERS = ["machine", "model", "L0", "L1"]
NAMES = ["x", "y", "z", "w", "vx", "xv", "v1", "nota", "band", "oral", "is_v", "avb", "p_and_q",
         "ornot", "v_v", "notv", "andy", "vv"]
CMP_TEXT = {"eq": "==", "ne": "!=", "lt": "<", "le": "<=", "gt": ">", "ge": ">="}
AST_CMP = {ast.Eq: "eq", ast.NotEq: "ne", ast.Lt: "lt", ast.LtE: "le", ast.Gt: "gt", ast.GtE: "ge"}

# ----------------------------------------------------------------------------- values


class ObjB:
    """plain object whose truth value comes from __bool__"""

    def __init__(self, i, t):
        self.i, self.t = i, t

    def __bool__(self):
        return self.t

    def __repr__(self):
        return f"ObjB({self.i},{self.t})"


class ObjL:
    """plain object whose truth value comes from __len__"""

    def __init__(self, i, t):
        self.i, self.t = i, t

    def __len__(self):
        return 2 if self.t else 0

    def __repr__(self):
        return f"ObjL({self.i},{self.t})"


_OBJS = {}
_NAN = float("nan")      # not ordered with anything: `not a < b` is not `a >= b`


def hexs(s: str) -> str:
    return "".join(f"{ord(c):02x}" for c in s)


def unhexs(h: str) -> str:
    return "".join(chr(int(h[i:i + 2], 16)) for i in range(0, len(h), 2))


def pyval(tok: str):
    """value token -> Python object (objects are cached: identity is per token)"""
    k, body = tok[0], tok[1:]
    if k == "N":
        return None
    if k == "T":
        return True
    if k == "F":
        return False
    if k == "i":
        return int(body)
    if k == "f":
        return int(body) / 2
    if k == "n":
        return _NAN
    if k == "s":
        return unhexs(body)
    if k == "l":
        return [None] * int(body)
    if k == "o":
        if tok not in _OBJS:
            i, t = body.split(":")
            _OBJS[tok] = (ObjB if int(i) % 2 == 0 else ObjL)(int(i), t == "1")
        return _OBJS[tok]
    raise ValueError(tok)


def tok_of_const(v):
    """Python constant (from ast.Constant) -> value token, or None if the model has no such value"""
    if v is None:
        return "N"
    if v is True:
        return "T"
    if v is False:
        return "F"
    if isinstance(v, int):
        return f"i{v}"
    if isinstance(v, float):
        t = v * 2
        if t == int(t) and abs(t) < 10 ** 9:
            return f"f{int(t)}"
        return None
    if isinstance(v, str):
        if all(ord(c) < 128 for c in v):
            return "s" + hexs(v)
        return None
    return None


STR_POOL = ["", "a", "v", "!", "^", "a v b", "not", "x^y", "!=", "it's", 'say "v"', "b\\s", "v!^", "ab"]
VALUE_POOL = (["N", "T", "F", "i0", "i1", "i2", "i7", "i-1", "f0", "f1", "f3", "f-4", "f2", "l0", "l1", "l2",
               "o0:1", "o1:1", "o2:0", "o3:0"] + ["s" + hexs(s) for s in STR_POOL[:6]])
FALSY = [t for t in VALUE_POOL if not bool(pyval(t))]
TRUTHY = [t for t in VALUE_POOL if bool(pyval(t))]

# ----------------------------------------------------------------------------- expression trees
# ("name", n) ("const", tok, text) ("not", e) ("and", [e..]) ("or", [e..]) ("cmp", first, [(op, e)..])

LEVEL = {"or": 1, "and": 2, "not": 3, "cmp": 4, "name": 5, "const": 5}


def quote(s: str, rng) -> str:
    q = rng.choice("'\"")
    out = []
    for c in s:
        if c == "\\" or c == q:
            out.append("\\" + c)
        else:
            out.append(c)
    return q + "".join(out) + q


def gen_const(rng):
    r = rng.random()
    if r < 0.35:
        i = rng.choice([0, 1, 2, 10, 7])
        return ("const", f"i{i}", str(i))
    if r < 0.5:
        t = rng.choice([0, 1, 3, 4])
        return ("const", f"f{t}", repr(t / 2))
    if r < 0.65:
        k = rng.choice(["T", "F", "N"])
        return ("const", k, {"T": "True", "F": "False", "N": "None"}[k])
    s = rng.choice(STR_POOL)
    return ("const", "s" + hexs(s), quote(s, rng))


def gen_expr(rng, names, depth, p_leaf=0.25):
    if depth <= 0 or rng.random() < p_leaf:
        if rng.random() < 0.8:
            return ("name", rng.choice(names))
        return gen_const(rng)
    r = rng.random()
    if r < 0.2:
        return ("not", gen_expr(rng, names, depth - 1, p_leaf))
    if r < 0.45:
        n = 2 if rng.random() < 0.75 else 3
        return ("and", [gen_expr(rng, names, depth - 1, p_leaf) for _ in range(n)])
    if r < 0.7:
        n = 2 if rng.random() < 0.75 else 3
        return ("or", [gen_expr(rng, names, depth - 1, p_leaf) for _ in range(n)])
    k = rng.choice([1, 1, 1, 2, 2, 3])
    first = gen_expr(rng, names, depth - 1, 0.6)
    links = [(rng.choice(list(CMP_TEXT)), gen_expr(rng, names, depth - 1, 0.6)) for _ in range(k)]
    return ("cmp", first, links)


def n_ops(e):
    k = e[0]
    if k in ("name", "const"):
        return 0, set()
    if k == "not":
        n, s = n_ops(e[1])
        return n + 1, s | {"not"}
    if k in ("and", "or"):
        n, s = 0, {k}
        for x in e[1]:
            a, b = n_ops(x)
            n += a
            s |= b
        return n + len(e[1]) - 1, s
    n, s = n_ops(e[1])
    s = s | {"cmp"}
    for _, x in e[2]:
        a, b = n_ops(x)
        n += a
        s |= b
    return n + len(e[2]), s


def has_chain(e):
    k = e[0]
    if k in ("name", "const"):
        return False
    if k == "not":
        return has_chain(e[1])
    if k in ("and", "or"):
        return any(has_chain(x) for x in e[1])
    return len(e[2]) > 1 or has_chain(e[1]) or any(has_chain(x) for _, x in e[2])


def tokens(e, rng, min_level=1, alt=0.5, extra_parens=0.12):
    """token list [(kind, text, canonical text)]; kinds: w (word-like) o (operator) p (paren) s (string)"""
    k = e[0]
    paren = LEVEL[k] < min_level or (rng is not None and rng.random() < extra_parens)
    if k == "name":
        t = [("w", e[1], e[1])]
    elif k == "const":
        t = [("s" if e[1][0] == "s" else "w", e[2], e[2])]
    elif k == "not":
        sp = ("o", "!", "not") if (rng is not None and rng.random() < alt) else ("w", "not", "not")
        t = [sp] + tokens(e[1], rng, 3, alt, extra_parens)
    elif k in ("and", "or"):
        t = []
        for i, x in enumerate(e[1]):
            if i:
                if rng is not None and rng.random() < alt:
                    t.append(("o", "^", "and") if k == "and" else ("w", "v", "or"))
                else:
                    t.append(("w", k, k))
            t += tokens(x, rng, LEVEL[k] + 1, alt, extra_parens)
    else:
        t = tokens(e[1], rng, 5, alt, extra_parens)
        for op, x in e[2]:
            t.append(("o", CMP_TEXT[op], CMP_TEXT[op]))
            t += tokens(x, rng, 5, alt, extra_parens)
    if paren:
        t = [("p", "(", "(")] + t + [("p", ")", ")")]
    return t


def _cw(kind, canon_text):
    """word-like in the canonical text"""
    return kind == "w" or canon_text in ("not", "and", "or")


def render(toks, rng, p_space=0.5):
    """-> (text, canon, tight): the same blanks in both, except that the canonical text gets one blank
    where the original relied on `!`/`^` being punctuation; `tight` = some alternate spelling or
    comparison operator was written without a blank on one side"""
    text, canon, tight = [], [], False
    for i, (k, t, c) in enumerate(toks):
        text.append(t)
        canon.append(c)
        if i + 1 < len(toks):
            k2, t2, c2 = toks[i + 1]
            need = k == "w" and k2 == "w"
            # a name glued in front of a quote would read as a string prefix
            if k2 == "s" and k == "w" and t[-1:] in "rbufRBUF":
                need = True
            if need or (rng is not None and rng.random() < p_space):
                r = rng.random() if rng is not None else 0.0
                ws = " " if r < 0.8 else ("  " if r < 0.93 else "\t")
            else:
                ws = ""
                if t != c or t2 != c2 or t in CMP_TEXT.values() or t2 in CMP_TEXT.values():
                    tight = True
            text.append(ws)
            canon.append(" " if (not ws and _cw(k, c) and (_cw(k2, c2) or k2 == "s")) else ws)
    if rng is not None and rng.random() < 0.1:
        text.append(" ")
        canon.append(" ")
    return "".join(text), "".join(canon), tight


# ----------------------------------------------------------------------------- CPython tree -> prefix


class Unsupported(Exception):
    pass


def prefix_of(node, name_id):
    """ast node (CPython's parse of the canonical text) -> the Lean driver's prefix tokens.
    n-ary BoolOp is folded to the left, as `build_expression` does (theorem C08_boolop_fold)."""
    if isinstance(node, ast.BoolOp):
        sym = "&" if isinstance(node.op, ast.And) else "|"
        parts = [prefix_of(v, name_id) for v in node.values]
        acc = parts[0]
        for p in parts[1:]:
            acc = [sym] + acc + p
        return acc
    if isinstance(node, ast.UnaryOp) and isinstance(node.op, ast.Not):
        return ["!"] + prefix_of(node.operand, name_id)
    if isinstance(node, ast.Compare):
        out = [f"c{len(node.ops)}"] + prefix_of(node.left, name_id)
        for op, c in zip(node.ops, node.comparators):
            if type(op) not in AST_CMP:
                raise Unsupported(type(op).__name__)
            out += [AST_CMP[type(op)]] + prefix_of(c, name_id)
        return out
    if isinstance(node, ast.Name):
        return [f"n{name_id(node.id)}"]
    if isinstance(node, ast.Constant):
        t = tok_of_const(node.value)
        if t is None:
            raise Unsupported("constant")
        return ["k" + t]
    raise Unsupported(type(node).__name__)


def classify(canon: str):
    """-> ("unparsable", None) | ("unsupported", None) | ("ok", ast node)"""
    try:
        tree = ast.parse(canon, mode="eval")
    except SyntaxError:
        return "unparsable", None
    except (ValueError, RecursionError, MemoryError):
        return "unparsable", None
    try:
        prefix_of(tree.body, lambda n: 0)
    except Unsupported:
        return "unsupported", None
    return "ok", tree.body


def names_of(node):
    return [n.id for n in ast.walk(node) if isinstance(n, ast.Name)]


def unique_key(node):
    """identity of an expression entry modulo blanks, operator spelling and redundant parentheses (the
    library's de-duplication key `unique_key` with provider ids dropped). The same entry twice in one
    transition's `cond` list (or twice in its `unless` list) is one guard (or, when the texts differ only in
    blanks, rejected); such lists are not generated. The same entry once as `cond` and once as `unless` is two
    guards (D20, repaired in 299f196) and is generated."""
    if isinstance(node, ast.BoolOp):
        op = "and" if isinstance(node.op, ast.And) else "or"
        acc = unique_key(node.values[0])
        for v in node.values[1:]:
            acc = f"({acc} {op} {unique_key(v)})"
        return acc
    if isinstance(node, ast.UnaryOp):
        return f"not({unique_key(node.operand)})"
    if isinstance(node, ast.Compare):
        keys, left = [], unique_key(node.left)
        for op, c in zip(node.ops, node.comparators):
            r = unique_key(c)
            keys.append(f"({left} {CMP_TEXT[AST_CMP[type(op)]]} {r})")
            left = r
        acc = keys[0]
        for k in keys[1:]:
            acc = f"({acc} and {k})"
        return acc
    if isinstance(node, ast.Name):
        return node.id + "@"
    return repr(node.value)


# ----------------------------------------------------------------------------- scenarios

UNSUPPORTED_TEXTS = ["x + 1", "-x", "x > -1", "x is None", "x in y", "[x]", "x if y else z", "x.real",
                     "len(x)", "x == (1, 2)", "lambda: x", "x < y + 1", "f'{x}'", "x or y + 1", "~x",
                     "(x := 1)", "x and y.z", "not x is y", "x not in y"]


def break_text(text, canon, rng):
    """make an expression unparsable (same edit on both texts)"""
    r = rng.randrange(9)
    if r == 0:
        return text + " and", canon + " and"
    if r == 1:
        return text + " ^", canon + " and"
    if r == 2:
        return "(" + text, "(" + canon
    if r == 3:
        return text + ")", canon + ")"
    if r == 4:
        return text + " ==", canon + " =="
    if r == 5:
        return text + " y", canon + " y"
    if r == 6:
        return "v " + text, "or " + canon
    if r == 7:
        return text + " !", canon + " not"
    return text + " === 1", canon + " === 1"


def gen_scenario(rng, sid, p_malformed=0.15, max_depth=5, p_multi=0.3, allow_async=True):
    n_names = rng.choice([1, 2, 3, 3, 4, 5])
    pool = rng.sample(NAMES, n_names)
    n_cond = rng.choice([0, 1, 1, 1, 2, 2, 3])
    n_unless = rng.choice([0, 0, 0, 1, 1, 2])
    if n_cond + n_unless == 0:
        n_cond = 1
    entries, keys, used = [], set(), []
    ref_names = [n for n in NAMES if n not in pool]
    rng.shuffle(ref_names)
    for gi in range(n_cond + n_unless):
        group = "cond" if gi < n_cond else "unless"
        r = rng.random()
        twin = [en for en in entries if en["group"] == "cond"]
        if group == "unless" and twin and rng.random() < 0.15 \
                and not any(en["group"] == "unless" for en in entries):
            # an `unless` entry that repeats a `cond` entry of the same transition: never enabled (D20)
            en = dict(rng.choice(twin))
            en["group"] = "unless"
            entries.append(en)
            if en["kind"] == "expr":
                keys.add(("unless", unique_key(classify(en["canon"])[1])))
            continue
        if r < 0.22 and ref_names:
            kind = rng.choice(["callable", "prop", "method"])
            nm = ref_names.pop()
            entries.append(dict(group=group, kind=kind, name=nm))
            continue
        for _ in range(50):
            depth = rng.choice([0, 1, 1, 2, 2, 3, 3, 4, 5][: max_depth + 4])
            e = gen_expr(rng, pool, min(depth, max_depth))
            toks = tokens(e, rng, alt=rng.choice([0.0, 0.5, 0.5, 1.0]))
            text, canon, tight = render(toks, rng, p_space=rng.choice([0.0, 0.5, 0.9]))
            cls, node = classify(canon)
            if cls != "ok":
                continue
            k = (group, unique_key(node))
            if k in keys or any(x.get("text") == text and x["group"] == group for x in entries):
                continue
            keys.add(k)
            entries.append(dict(group=group, kind="expr", text=text, canon=canon, tight=tight))
            used += names_of(node)
            break
    if not entries:
        entries.append(dict(group="cond", kind="expr", text=pool[0], canon=pool[0], tight=False))
        used.append(pool[0])
    names = {}
    for nm in dict.fromkeys(used):
        if rng.random() < p_multi:
            provs = sorted(rng.sample(PROVIDERS, rng.choice([2, 2, 3])), key=PROVIDERS.index)
        else:
            provs = [rng.choice(PROVIDERS)]
        # (class and static methods are looked up on the instance like any other callable attribute)
        names[nm] = [[p, rng.choice(["attr", "prop", "method", "method", "classmethod", "staticmethod"])] for p in provs]
    for en in entries:
        if en["kind"] != "expr":
            where = "machine" if en["kind"] != "callable" and rng.random() < 0.6 else "model"
            if en["kind"] == "callable":
                where = "free"
            names[en["name"]] = [[where, en["kind"]]]
            if en["kind"] == "prop" and where == "model" and rng.random() < 0.6:
                # the machine (an earlier provider) has an unrelated property of the same name: the guard is the
                # *model's* property object, the machine's must never be read
                en["decoy"] = True
    malformed = None
    if rng.random() < p_malformed:
        exprs = [i for i, en in enumerate(entries) if en["kind"] == "expr"]
        m = rng.random()
        if m < 0.4 and any(names_of(ast.parse(entries[i]["canon"], mode="eval")) for i in exprs):
            cand = [n for n in names if names[n][0][1] in ("attr", "prop", "method", "classmethod", "staticmethod") and names[n][0][0] != "free"
                    and any(n in names_of(ast.parse(entries[i]["canon"], mode="eval")) for i in exprs)]
            if cand:
                victim = rng.choice(cand)
                names[victim] = []
                malformed = "unknown-name"
        elif m < 0.8 and exprs:
            i = rng.choice(exprs)
            if rng.random() < 0.12:
                entries[i]["text"], entries[i]["canon"] = rng.choice([("", ""), (" ", " "), ("  ", "  ")])
            else:
                entries[i]["text"], entries[i]["canon"] = break_text(entries[i]["text"], entries[i]["canon"], rng)
            if classify(entries[i]["canon"])[0] == "unparsable":
                malformed = "unparsable"
            else:   # the edit happened to stay valid: keep it only if still within the grammar
                malformed = None
        elif exprs:
            i = rng.choice(exprs)
            t = rng.choice(UNSUPPORTED_TEXTS)
            entries[i]["text"] = entries[i]["canon"] = t
            malformed = "unsupported"
    # names appearing after edits must be declared (possibly with no provider) so that slots exist
    for en in entries:
        if en["kind"] == "expr":
            cls, node = classify(en["canon"])
            if cls == "ok":
                for n in names_of(node):
                    names.setdefault(n, [[rng.choice(PROVIDERS), "attr"]] if malformed is None else [])
    # a coroutine guard only where the library awaits it: a bare name with one provider (D10 recorded)
    force_async = False
    if allow_async and malformed is None:
        r = rng.random()
        if r < 0.08:
            force_async = True
        elif r < 0.2:
            for en in entries:
                if en["kind"] == "expr":
                    cls, node = classify(en["canon"])
                    if isinstance(node, ast.Name) and len(names[node.id]) == 1 and names[node.id][0][0] != "machine":
                        others = [e2 for e2 in entries if e2 is not en and e2["kind"] == "expr"
                                  and node.id in names_of(classify(e2["canon"])[1])]
                        if not others:
                            names[node.id][0][1] = "coro"
                            break
    # listeners attached after construction, each `add_listener` call a pass of its own: a guard given by name whose
    # names a late pass provides is built again over that pass's providers and must hold there as well
    late = []
    ctor_also = []
    has_coro = any(k == "coro" for ps in names.values() for _, k in ps)
    on_l = [p for p in ("L0", "L1") if any(q == p for ps in names.values() for q, _ in ps)]
    if malformed is None and not force_async and not has_coro and on_l and rng.random() < 0.3:
        late = rng.choice([[["L1"]], [["L0"]], [["L0"], ["L1"]], [["L0", "L1"]], [["L1"], ["L0"]],
                           [["L0"], ["L0", "L1"]], [["L1"], ["L1", "L0"]], [["L0", "L1"], ["L1"]]])
        late = [[p for p in ps if p in on_l] for ps in late]
        late = [ps for ps in late if ps]
        # a listener of a late pass may also have been given to the constructor (attached again, alone or together
        # with a newcomer in one call)
        if late and rng.random() < 0.35:
            ctor_also = [rng.choice(sorted({p for ps in late for p in ps}))]
        late_set = {p for ps in late for p in ps} - set(ctor_also)
        for nm, ps in names.items():
            if ps and all(p in late_set for p, _ in ps) and rng.random() < 0.85:
                # (otherwise nothing provides the name at construction: InvalidDefinition, as the Spec says)
                ps.insert(0, [rng.choice(["machine", "model"]), rng.choice(["attr", "prop", "method"])])
                ps.sort(key=lambda x: PROVIDERS.index(x[0]))
    slots = [f"{p}.{n}" for n, ps in names.items() for p, _ in ps]
    lits = []
    for en in entries:
        if en["kind"] == "expr":
            cls, node = classify(en["canon"])
            if cls == "ok":
                lits += [tok_of_const(c.value) for c in ast.walk(node) if isinstance(c, ast.Constant)]
    lits = [t for t in lits if t]
    flavour = rng.choice(["mixed", "mixed", "numeric", "numeric", "str"])
    if flavour == "numeric":
        tpool, fpool = [t for t in TRUTHY if t[0] in "Tif"] + ["n", "n"], [t for t in FALSY if t[0] in "Fif"]
    elif flavour == "str":
        tpool, fpool = [t for t in TRUTHY if t[0] == "s"], [t for t in FALSY if t[0] in "sN"]
    else:
        tpool, fpool = TRUTHY, FALSY
    rounds = []
    for _ in range(rng.choice([2, 3, 4, 5, 6])):
        rho = {}
        for s in slots:
            r = rng.random()
            if lits and r < 0.3:
                rho[s] = rng.choice(lits)
            elif r < 0.65:
                rho[s] = rng.choice(tpool)
            else:
                rho[s] = rng.choice(fpool)
        rounds.append(rho)
    # declared as `go = b.from_.any(cond=.., unless=..)`: the guards live on per-state copies of the transition
    via_any = rng.random() < 0.2
    same_free_names = rng.random() < 0.3
    falsy_callables = rng.random() < 0.25
    event_deco = rng.random() < 0.5
    # model and listeners whose truth value is False (an empty collection that also provides names): they are
    # providers like any other
    falsy_providers = rng.random() < 0.3
    return dict(id=sid, falsy_providers=falsy_providers, names=names, entries=entries, rounds=rounds, force_async=force_async,
                malformed=malformed, via_any=via_any, same_free_names=same_free_names, falsy_callables=falsy_callables,
                event_deco=event_deco, late=late, ctor_also=ctor_also)


# ----------------------------------------------------------------------------- small-scope enumeration


def enum_trees(k, leaves, memo):
    """all trees with exactly k operators from {not, and, or} over the given leaves"""
    if k in memo:
        return memo[k]
    if k == 0:
        res = [("name", n) for n in leaves]
    else:
        res = [("not", t) for t in enum_trees(k - 1, leaves, memo)]
        for i in range(k):
            for a in enum_trees(i, leaves, memo):
                for b in enum_trees(k - 1 - i, leaves, memo):
                    res.append(("and", [a, b]))
                    res.append(("or", [a, b]))
    memo[k] = res
    return res


def enum_chains(max_links):
    """all comparisons `o0 op1 o1 … opk ok`, 1 <= k <= max_links, operands from {x, y, 1}, all six operators"""
    import itertools
    operands = [("name", "x"), ("name", "y"), ("const", "i1", "1")]
    out = []
    for k in range(1, max_links + 1):
        for os_ in itertools.product(operands, repeat=k + 1):
            for ops in itertools.product(list(CMP_TEXT), repeat=k):
                out.append(("cmp", os_[0], list(zip(ops, os_[1:]))))
    return out


def render_plain(e, idx):
    """deterministic rendering: minimal parentheses, spelling and blanks chosen by `idx`"""
    import random
    rng = random.Random(idx)
    toks = tokens(e, rng, alt=(0.0, 0.5, 1.0)[idx % 3], extra_parens=0.0)
    return render(toks, rng, p_space=(0.0, 0.6)[idx // 3 % 2])


def dump(scn) -> str:
    return json.dumps(scn, indent=1, sort_keys=True)
