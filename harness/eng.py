"""Engine scenarios: abstract description, generator, model serialiser, implementation runner.

A scenario is generated from one PRNG; it is rendered (a) as lines for the Lean driver and (b) as
real classes/objects built from /repo's working tree and driven through the public API.
Both sides print the same observation language (see lean/Driver.lean).
"""
from __future__ import annotations

import zlib
import asyncio
import os
import random
import sys
import warnings
from dataclasses import dataclass, field

# ----------------------------------------------------------------------------- pools

EVENTS = ["__initial__", "go", "go_back", "g", "e", "e1", "e10", "stop", "tick", "reset", "go_b"]

# value tokens -> python values (built lazily to keep enum identity stable)
POOL = {
    0: None, 1: "a", 2: "b", 3: "c", 4: "d", 5: "e_", 6: "f",
    7: 0, 8: "", 9: [], 10: [1, 2], 11: (), 12: {}, 13: 1, 14: "x", 15: (1, 2), 16: -1,
    17: "res", 18: 3.5, 19: ["k"],
}
POOL[40] = ValueError("returned, not raised")      # an exception instance is a value like any other
POOL[41] = KeyError                                 # so is a class
for _i in range(12):
    POOL[20 + _i] = f"s{_i}"
STATE_VALUE_TOKS = [1, 2, 3, 4, 5, 6, 7, 8, 13, 15, 16]
RET_TOKS = [0, 1, 7, 8, 9, 10, 11, 12, 13, 14, 17, 18, 19, 40, 41]
TRUTHY_TOKS = [1, 13, 14, 10, 15]
FALSY_TOKS = [0, 7, 8, 9, 11, 12]

PRIO = {"generic": 0, "inline": 10, "decorator": 30, "naming": 30, "after": 40}
PHASES = ["validators", "cond", "before", "exit", "on", "enter", "after"]


def rp(v):
    return repr(v).replace(" ", "")


def tok_of(v):
    for k, pv in POOL.items():
        if type(pv) is type(v) and pv == v:
            return k
    return None


class UserExc(Exception):
    def __init__(self, tag):
        super().__init__(tag)
        self.tag = tag


class _Tagged:
    """user exceptions of several builtin families (a callback may raise anything)"""
    def __init__(self, tag):
        super().__init__(tag)
        self.tag = tag


class UserKeyError(_Tagged, KeyError):
    pass


class UserValueError(_Tagged, ValueError):
    pass


class UserRuntimeError(_Tagged, RuntimeError):
    pass


class UserNotImplemented(_Tagged, NotImplementedError):
    pass


class UserAttributeError(_Tagged, AttributeError):
    pass


class UserLookupError(_Tagged, LookupError):
    pass


class UserBaseExc(_Tagged, BaseException):
    """not an `Exception`: stands for KeyboardInterrupt / SystemExit / asyncio.CancelledError raised in a callback"""


class UserTypeError(_Tagged, TypeError):
    pass


class UserAssertionError(_Tagged, AssertionError):
    pass


class UserOSError(_Tagged, OSError):
    pass


class UserTimeout(_Tagged, TimeoutError):
    pass


def _lib_exc(kind):
    """a callback may raise the *library's own* exceptions too (a parent machine delegating to a child machine
    that refuses the event, a callback constructing another machine, ...): they must reach the caller like any
    other exception"""
    import statemachine.exceptions as X
    base = {"tna": X.TransitionNotAllowed, "invdef": X.InvalidDefinition, "invstate": X.InvalidStateValue}[kind]
    cache = _lib_exc.__dict__.setdefault("cache", {})
    if base not in cache:
        def __init__(self, tag):
            Exception.__init__(self, tag)
            self.tag = tag
            self.event = None
            self.state = None
        cache[base] = type("User" + base.__name__, (base,), {"__init__": __init__})
    return cache[base]


class UserStopIteration(_Tagged, StopIteration):
    """e.g. a guard calling `next()` on an exhausted iterator: an exception like any other for the engine (iteration
    helpers that swallow it — `all(map(...))`, `next(gen)` — must not sit between the callback and the caller)"""


class UserKeyboardInterrupt(_Tagged, KeyboardInterrupt):
    """asyncio treats KeyboardInterrupt and SystemExit (and their subclasses) specially: a task that raises one makes
    the event loop itself stop with it (D34). Raised only where the caller of `send()` can catch it: plain callbacks
    of a sync machine, any callback of an async machine driven from synchronous code."""


class UserSystemExit(_Tagged, SystemExit):
    pass


EXC_KINDS = [UserExc, UserKeyError, UserValueError, UserRuntimeError, UserExc, UserNotImplemented, UserAttributeError,
             UserLookupError, UserBaseExc, UserExc, "tna", UserTypeError, "invdef", UserAssertionError, "invstate",
             UserOSError, UserTimeout, "tna", UserStopIteration, UserStopIteration,
             UserKeyboardInterrupt, UserSystemExit]
MAX_EXC_TAG = 21


ARMED = [0]


def user_exc(tag, in_coroutine=False, driver="sync"):
    """the exception class is a function of the tag (1..21), so a scenario replays exactly"""
    k = EXC_KINDS[tag % len(EXC_KINDS)]
    if k in (UserKeyboardInterrupt, UserSystemExit):
        # inside a running loop asyncio stops the loop itself with these two: no caller of `await sm.send()` is left
        # to observe anything. (A world may run a "sync"/"facade" scenario inside its own loop: what counts is the
        # loop that is running *now* — none, or the library's own cached loop of the synchronous facade.)
        try:
            loop = asyncio.get_running_loop()
        except RuntimeError:
            loop = None
        import statemachine.utils as _u
        own = getattr(_u._cached_loop, "loop", None) if hasattr(_u, "_cached_loop") else None
        if driver not in ("sync", "facade") or (loop is not None and loop is not own) or ARMED[0] <= 0:
            # (ARMED: only while an operation runs under `Runtime.step*`, which catches them; anywhere else in the
            # harness a stray SystemExit would end the process or silently kill a pool worker)
            return UserBaseExc(tag)
    if isinstance(k, str):
        return _lib_exc(k)(tag)
    if in_coroutine and k is UserStopIteration:
        # (Python itself turns a StopIteration that leaves a coroutine frame into RuntimeError; on the async engine
        # every callback, plain functions included, is called from inside one)
        return UserExc(tag)
    return k(tag)


class ListenerProxy:
    """a listener that delegates everything to an inner object"""

    def __init__(self, inner):
        self.__dict__["_inner"] = inner

    def __dir__(self):
        return sorted(set(dir(self.__dict__["_inner"])))

    def __getattr__(self, name):
        if name.startswith("__") or "_inner" not in self.__dict__:
            raise AttributeError(name)
        return getattr(self.__dict__["_inner"], name)


class EqTag:
    """carries the harness's trigger number through `**kwargs` while comparing (and hashing) equal to
    every other tag: two sends of one event stay *value-equal* — they are still two events"""
    __slots__ = ("n",)

    def __init__(self, n):
        self.n = n

    def __eq__(self, other):
        return isinstance(other, EqTag)

    def __hash__(self):
        return 1

    def __repr__(self):
        return "EqTag"


def tid_of(v):
    return v.n if isinstance(v, EqTag) else v


# ----------------------------------------------------------------------------- scenario

@dataclass
class Cb:
    id: int
    group: str            # validators cond unless before on after enter exit
    style: str            # name | callable | decorator | conv
    provider: str         # machine | model | L0.. (listeners) ; callable: '-'
    name: str             # attribute name (conv / name styles) or function name
    at: tuple             # ('t', idx) | ('s', idx) | ('ev', evid) | ('all',)
    coro: bool = False
    sig: str = "ed"       # ed | named | kwargs | bare
    named: tuple = ()     # subset of event source target state
    yields: int = 0
    wrap: str = ""        # "" | "wraps" (functools.wraps decorator) | "sig" (… that also sets __signature__)
    alias_of: int = 0     # >0: shares the function (same name, same provider) of that callback, in another group
    same_as: int = 0      # >0: the very same function (name, provider) as that callback, referred to by name from
                          # *another transition* in the same group (`cond="ok"` on several transitions): one callback id
                          # per place of use, told apart at run time by the transition the library passes
    ref: int = -1         # style "evref": the *event* (id) whose name is given as the callback (`before="go"`): the
                          # library calls that event with the parent's arguments (`dispatcher.event_method`)


@dataclass
class Tr:
    src: int
    tgt: int
    events: list
    internal: bool = False
    any: bool = False     # declared as `<event> = target.from_.any(...)`: one copy per non-final state (src unused)


@dataclass
class St:
    val: int
    initial: bool = False
    final: bool = False


@dataclass
class Scn:
    name: str
    states: list = field(default_factory=list)
    trans: list = field(default_factory=list)
    cbs: list = field(default_factory=list)
    acts: list = field(default_factory=list)      # (cb, lo, hi, ret, raise|None, sends)
    rtc: bool = True
    allow: bool = False
    start: int | None = None
    cur0: int | None = None
    driver: str = "sync"                          # sync | facade | loop
    listeners_ctor: list = field(default_factory=list)   # listener names attached at construction
    ops: list = field(default_factory=list)       # ('construct',) ('send', ev) ('activate',) ('reconstruct',)
    strict: bool = False
    state_field: str = "state"
    extra_events: dict = field(default_factory=dict)   # event id >= 100 -> arbitrary name (never declared)
    model_shape: str = "plain"                    # plain | len0 | boolF  (falsy model objects)
    sids: list = field(default_factory=list)      # state ids (attribute names) when they are not s0, s1, ...
    bind_model: bool = False                      # `sm.bind_events_to(model)` right after construction
    alias_sub: list = field(default_factory=list) # [e1, e2]: event e1 is a class attribute of a base class and the
                                                  # machine is `class Sub(Base): <e2> = Base.<e1>`: the transitions
                                                  # declared for e1 carry e2 (only) in the subclass
    decl_style: str = "list"                      # how `event=` is written: list of names | placeholder Event() objects | "a b"
                                                  # | eventobj: also `name = Event(<transitions>)` class attributes
    listener_kind: str = "class"                  # class | eq (all listeners compare equal) | hooks (one generic
                                                  # class, callbacks stored as instance attributes)

    # -- derived
    def is_async(self):
        return any(c.coro and c.wrap != "lazy" and c.style not in ("attr", "evref")
                   for c in self.cbs if self._cb_live_at_ctor(c) and self._cb_bound(c))

    def is_chain(self):
        """some callback is an event reference: trigger identity is then taken from the TriggerData object (the
        chained event inherits the parent's keyword arguments, `_tid` included) and both observations are
        renumbered by first appearance"""
        return any(c.style == "evref" for c in self.cbs)

    def _cb_bound(self, c):
        """an event-named convention callback exists for the library only if some transition carries the event"""
        if c.style == "conv" and c.at[0] == "ev":
            if self.alias_sub and c.at[1] == self.alias_sub[0]:
                return True     # registered by the base class's _setup, guarded by is_same_event
            return any(c.at[1] in t.events for t in self.trans)
        return True

    def _cb_live_at_ctor(self, c):
        return c.provider in ("machine", "model", "-") or c.provider in self.listeners_ctor

    def providers(self):
        return ["machine", "model"] + list(self.listeners_ctor)

    def sid(self, i):
        return self.sids[i] if self.sids else f"s{i}"


def _prio(cb: Cb):
    if cb.style in ("name", "callable", "attr", "evref"):
        return PRIO["inline"]
    if cb.style == "decorator":
        return PRIO["decorator"]
    if cb.name in ("before_transition", "on_transition", "on_enter_state", "on_exit_state"):
        return PRIO["generic"]
    if cb.name == "after_transition":
        return PRIO["after"]
    return PRIO["naming"]


def flatten(scn: Scn, live=None):
    """Per transition / state the callback lists the library's executors hold, in executor order.

    Returns (tlists, slists): tlists[i][group] = [(cbid, only)], slists[i][group] = [cbid].
    `live`: set of provider names currently attached (default: constructor-time providers)."""
    live_list = list(scn.providers()) if live is None else list(live)
    prov_rank = {p: i for i, p in enumerate(live_list)}   # provider order = attachment order
    live = set(live_list)

    def alive(c):
        return c.provider == "-" or c.provider in live

    tlists = []
    for ti, tr in enumerate(scn.trans):
        groups = {g: [] for g in ("validators", "cond", "before", "on", "after")}
        seq = 0
        entries = []  # (group, prio, order key, cbid, only, expected)
        # spec items order: inline validators, before, on, after, cond, unless; then decorators; then conv
        inline_order = ["validators", "before", "on", "after", "cond", "unless"]
        for g in inline_order:
            seen_names = {}
            for c in scn.cbs:
                if c.at == ("t", ti) and c.group == g and c.style in ("name", "callable", "attr"):
                    # one spec per distinct name: all its providers share the spec's position
                    key = c.name if c.style in ("name", "attr") else ("callable", c.id)
                    if key not in seen_names:
                        seen_names[key] = seq
                        seq += 1
                    if alive(c):
                        entries.append((g, _prio(c), seen_names[key], prov_rank.get(c.provider, -1), c.id, None))
        for c in scn.cbs:
            if c.at == ("t", ti) and c.style == "decorator" and alive(c):
                entries.append((c.group, _prio(c), seq, 0, c.id, None)); seq += 1
        conv_names = ["before_transition", "on_transition"]
        for g, nm in (("before", "before_transition"), ("on", "on_transition")):
            for c in scn.cbs:
                if c.style == "conv" and c.name == nm and alive(c):
                    entries.append((g, _prio(c), seq, prov_rank[c.provider], c.id, None))
            seq += 1
        for ev in tr.events:
            for g in ("before", "on", "after"):
                nm = f"{g}_{EVENTS[ev]}"
                for c in scn.cbs:
                    if c.style == "conv" and c.name == nm and alive(c):
                        entries.append((g, _prio(c), seq, prov_rank[c.provider], c.id, ev))
                seq += 1
        for c in scn.cbs:
            if c.style == "conv" and c.name == "after_transition" and alive(c):
                entries.append(("after", _prio(c), seq, prov_rank[c.provider], c.id, None))
        for g in ("validators", "before", "on", "after"):
            es = sorted((e for e in entries if e[0] == g), key=lambda e: (e[1], e[2], e[3]))
            groups[g] = [(e[4], e[5]) for e in es]
        es = sorted((e for e in entries if e[0] in ("cond", "unless")), key=lambda e: (e[1], e[2], e[3]))
        groups["cond"] = [(e[4], 1 if e[0] == "cond" else 0) for e in es]
        tlists.append(groups)
    slists = []
    for si, st in enumerate(scn.states):
        groups = {}
        for g in ("enter", "exit"):
            entries = []
            seq = 0
            seen_names = {}
            for c in scn.cbs:
                if c.at == ("s", si) and c.group == g and c.style in ("name", "callable", "attr"):
                    key = c.name if c.style in ("name", "attr") else ("callable", c.id)
                    if key not in seen_names:
                        seen_names[key] = seq
                        seq += 1
                    if alive(c):
                        entries.append((_prio(c), seen_names[key], prov_rank.get(c.provider, -1), c.id))
            for c in scn.cbs:
                if c.at == ("s", si) and c.group == g and c.style == "decorator" and alive(c):
                    entries.append((_prio(c), seq, 0, c.id)); seq += 1
            for nm in (f"on_{g}_state", f"on_{g}_{scn.sid(si)}"):
                for c in scn.cbs:
                    if c.style == "conv" and c.name == nm and alive(c):
                        entries.append((_prio(c), seq, prov_rank[c.provider], c.id))
                seq += 1
            groups[g] = [e[3] for e in sorted(entries)]
        slists.append(groups)
    return tlists, slists


def normalize(scn: Scn):
    """A plain function that returns an awaitable is only meaningful on the async engine, which the library
    selects from the *coroutine functions* it resolved at construction: without one, such callbacks become
    ordinary coroutine functions (keeps generated, mutated and shrunk scenarios within legal usage)."""
    shared = {c.same_as for c in scn.cbs if c.same_as}
    prim = {c.id: c for c in scn.cbs}
    for c in scn.cbs:      # one function, several places: one signature (with event_data), one kind
        if c.id in shared and c.sig not in ("ed", "kwargs"):
            c.sig, c.named = "ed", ()
    for c in scn.cbs:
        if c.same_as and c.same_as in prim:
            q = prim[c.same_as]
            c.sig, c.named, c.coro, c.yields, c.wrap = q.sig, q.named, q.coro, q.yields, q.wrap
    for c in scn.cbs:      # a plain attribute / an event used as a callback is never a coroutine function
        if c.style in ("attr", "evref") and (c.coro or c.yields or c.wrap):
            c.coro, c.yields, c.wrap = False, 0, ""
    if not scn.is_async():
        for c in scn.cbs:
            if c.wrap == "lazy":
                c.wrap = ""
    return scn


def legal(scn: Scn):
    """Shapes the generators never produce because they are recorded findings or outside the properties:
    a coroutine callback on a listener that is attached late to a machine running the sync engine (D12)."""
    if not scn.is_async():
        late = {o[1] for o in scn.ops if o[0] == "add_listener"} - set(scn.listeners_ctor) - {"machine", "model"}
        if any(c.coro for c in scn.cbs if c.provider in late):
            return False
    return True


def expanded_trans(scn: Scn):
    """The transitions as the class holds them: explicit ones in declaration order, then one copy of
    every `from_.any()` template per non-final state."""
    out = [t for t in scn.trans if not t.any]
    for t in scn.trans:
        if t.any:
            for si, st in enumerate(scn.states):
                if not st.final:
                    out.append(Tr(si, t.tgt, list(t.events), internal=t.internal))
    return out


def used_toks(scn: Scn):
    t = {0}
    for s in scn.states:
        t.add(s.val)
    for a in scn.acts:
        t.add(a[3])
    if scn.start is not None:
        t.add(scn.start)
    if scn.cur0 is not None:
        t.add(scn.cur0)
    for o in scn.ops:
        if o[0] == "write" or (o[0] == "fresh" and o[1] is not None):
            t.add(o[1])
    return sorted(t)


def held_events(scn: Scn, tr: Tr):
    """the transition's events in the order the class ends up holding them. Written as id-less `Event()` objects
    they are re-bound one by one, in the order `add_state` met them, each removed from and appended to the
    transition's list (`factory._update_event_references`): the list ends up in that order"""
    if scn.decl_style == "placeholder" and not scn.alias_sub and not any(t.any for t in scn.trans):
        first = {}      # `add_state` meets the placeholders state by state, transition by transition
        for si in range(len(scn.states)):
            for t in scn.trans:
                if t.src == si:
                    for e in t.events:
                        first.setdefault(e, len(first))
        return sorted(tr.events, key=lambda e: first[e])
    return list(tr.events)


def attr_value(scn: Scn, c: Cb):
    """the (constant) value token of a plain-attribute callback in this scenario"""
    for a in scn.acts:
        if a[0] == c.id:
            return a[3]
    return 0


def lst(xs):
    return ",".join(str(x) for x in xs) if xs else "-"


def _machine_lines(scn: Scn, live):
    tl, sl = flatten(scn, live)
    out = []
    for i, s in enumerate(scn.states):
        out.append(
            f"state val={s.val} init={int(s.initial)} final={int(s.final)} "
            f"enter={lst(sl[i]['enter'])} exit={lst(sl[i]['exit'])}"
        )
    def line(i, tr, src):
        g = tl[i]
        sp = lambda l: ",".join(f"{c}@{o}" if o is not None else str(c) for c, o in l) if l else "-"
        cd = ",".join(f"{c}:{e}" for c, e in g["cond"]) if g["cond"] else "-"
        return (
            f"trans src={src} tgt={tr.tgt} int={int(tr.internal)} ev={lst(held_events(scn, tr))} "
            f"val={lst([c for c, _ in g['validators']])} cond={cd} before={sp(g['before'])} "
            f"on={sp(g['on'])} after={sp(g['after'])}"
        )
    for i, tr in enumerate(scn.trans):
        if not tr.any:
            out.append(line(i, tr, tr.src))
    # `from_.any()`: expanded when the event attribute is processed by the metaclass, i.e. after every
    # explicit transition exists; one copy per non-final state, appended to that state's list
    for i, tr in enumerate(scn.trans):
        if tr.any:
            for si, st in enumerate(scn.states):
                if not st.final:
                    out.append(line(i, tr, si))
    return out


REAL_PRIO = {"generic": 0, "inline": 10, "decorator": 20, "naming": 30, "after": 40}


def _name_key(c: Cb):
    """attribute name as the registry model sees it; a name attached to several groups is one attribute for the
    library but one callback id per group for the harness, so every alias gets its own pseudo-name"""
    if c.style == "evref":      # one callback id per place of use; the machine offers the event under its name
        return f"{c.name}#ev{c.id}"
    if c.same_as:               # one callback id per transition that refers to the name
        return f"{c.name}#at{c.at[1]}"
    return f"{c.name}#{c.group}" if c.alias_of else c.name


def registry_lines(scn: Scn):
    """The declaration the library sees, for `SMV.Reg.buildStates`: per owner the specs in the order the class
    adds them (inline kwargs, decorators, convention names of `_setup`) with their priority, and per provider
    the attributes it offers. The callback lists themselves are computed by the Lean model."""
    names = {}

    def nid(k):
        return names.setdefault(k, len(names) + 1)

    def tok(g, ref, prio, only=None, expected=True):
        return f"{'cond' if g == 'unless' else g}/{ref}/{prio}/{'-' if only is None else only}/{int(expected)}"

    def inline_specs(at, groups):
        out = []
        for g in groups:
            seen = set()
            for c in scn.cbs:
                if c.at == at and c.group == g and c.style in ("name", "callable", "evref", "attr"):
                    key = _name_key(c) if c.style in ("name", "evref", "attr") else ("callable", c.id)
                    if key in seen:
                        continue
                    seen.add(key)
                    ref = f"n{nid(key)}" if c.style in ("name", "evref", "attr") else f"c{c.id}"
                    out.append(tok(g, ref, REAL_PRIO["inline"], expected=(g != "unless")))
        return out

    def deco_specs(at):
        return [tok(c.group, f"c{c.id}", REAL_PRIO["decorator"], expected=(c.group != "unless"))
                for c in scn.cbs if c.at == at and c.style == "decorator"]

    out = []
    for si, st in enumerate(scn.states):
        sp = inline_specs(("s", si), ("enter", "exit")) + deco_specs(("s", si))
        for g in ("enter", "exit"):
            sp.append(tok(g, f"n{nid(f'on_{g}_state')}", REAL_PRIO["generic"]))
            sp.append(tok(g, f"n{nid(f'on_{g}_{scn.sid(si)}')}", REAL_PRIO["naming"]))
        out.append(f"sdecl val={st.val} init={int(st.initial)} final={int(st.final)} specs={';'.join(sp)}")

    def tdecl(ti, tr, src):
        sp = inline_specs(("t", ti), ("validators", "before", "on", "after", "cond", "unless")) + deco_specs(("t", ti))
        sp.append(tok("before", f"n{nid('before_transition')}", REAL_PRIO["generic"]))
        sp.append(tok("on", f"n{nid('on_transition')}", REAL_PRIO["generic"]))
        for ev in tr.events:
            for g in ("before", "on", "after"):
                sp.append(tok(g, f"n{nid(f'{g}_{EVENTS[ev]}')}", REAL_PRIO["naming"], only=ev))
        sp.append(tok("after", f"n{nid('after_transition')}", REAL_PRIO["after"]))
        return (f"tdecl src={src} tgt={tr.tgt} int={int(tr.internal)} ev={lst(held_events(scn, tr))} specs={';'.join(sp)}")

    for ti, tr in enumerate(scn.trans):
        if not tr.any:
            out.append(tdecl(ti, tr, tr.src))
    for ti, tr in enumerate(scn.trans):
        if tr.any:
            for si, st in enumerate(scn.states):
                if not st.final:
                    out.append(tdecl(ti, tr, si))
    # providers: machine, model, listeners; what each offers
    provs = ["machine", "model"] + sorted(({c.provider for c in scn.cbs if c.provider.startswith("L")}
                                           | set(scn.listeners_ctor)
                                           | {o[1] for o in scn.ops if o[0] == "add_listener"}) - {"machine", "model"})
    pid = {p: i for i, p in enumerate(provs)}
    for p in provs:
        attrs = []
        for c in scn.cbs:
            if c.provider == p and c.style in ("conv", "name", "evref", "attr"):
                attrs.append(f"{nid(_name_key(c))}:{c.id}")
        out.append(f"prov {pid[p]} {','.join(attrs) if attrs else '-'}")
    out.append("ctor " + ",".join(str(pid[p]) for p in scn.providers()))
    attached = list(scn.providers())
    for o in scn.ops:
        if o[0] == "add_listener":
            # (attaching a provider again resolves nothing new: every key was already seen)
            out.append(f"late {pid[o[1]]}")
    return out


def model_lines(scn: Scn, live=None, kind="engine"):
    out = [f"scn {kind} {scn.name}"]
    out.append(
        f"opt rtc={int(scn.rtc)} allow={int(scn.allow)} async={int(scn.is_async())} "
        f"start={'-' if scn.start is None else scn.start} cur={'-' if scn.cur0 is None else scn.cur0}"
        + (" actkey=state" if scn.is_chain() else "")
    )
    for t in used_toks(scn):
        out.append(f"tok {t} {int(not bool(POOL[t]))} {rp(POOL[t])}")
    registry = os.environ.get("VERIF_FLAT_MODEL", "") != "1"
    cur_live = list(scn.providers()) if live is None else list(live)
    if registry:
        # the Lean registry model computes the callback lists from the declared specs and the providers
        out += registry_lines(scn)
    else:
        out += _machine_lines(scn, cur_live)
    # one machine variant per late attachment: the callback lists grow
    ops_out, k = [], 0
    for op in scn.ops:
        if op[0] == "add_listener":
            if not registry:
                if op[1] not in cur_live:
                    cur_live = cur_live + [op[1]]
                out.append("variant")
                out += _machine_lines(scn, cur_live)
            k += 1
            ops_out.append(f"op swap {k}")
        elif op[0] == "send":
            ops_out.append(f"op send {op[1]}")
        elif op[0] == "fresh":
            ops_out.append(f"op fresh {'-' if op[1] is None else op[1]}")
        elif op[0] == "set_allow":
            ops_out.append(f"op set_allow {int(bool(op[1]))}")
        else:
            ops_out.append("op " + " ".join(str(x) for x in op))
    for (cb, lo, hi, ret, rz, sends) in scn.acts:
        out.append(
            f"act cb={cb} lo={lo} hi={hi} ret={ret} raise={'-' if rz is None else rz} sends={lst(sends)}"
        )
    for c in scn.cbs:
        if c.style == "evref":     # sends the event, hands back what the event returned
            out.append(f"act cb={c.id} lo=0 hi=1000000000 ret=0 raise=- sends={c.ref} retsend=1")
    out += ops_out
    out.append("end")
    return out


# ----------------------------------------------------------------------------- implementation side

class Runtime:
    """Shared by all callbacks of one scenario run."""

    def __init__(self, scn: Scn):
        self.scn = scn
        self.lines = []
        self.next_tid = 0
        self.initial_tid = 0
        self.sm = None
        self.model = None
        self.depths = {}
        self.in_loop = False
        self.cbmap = {c.id: c for c in scn.cbs}
        order = {g: i for i, g in enumerate(PHASES)}
        self.aliases = {}
        for c in scn.cbs:
            if c.alias_of:
                self.aliases.setdefault(c.alias_of, [self.cbmap[c.alias_of]]).append(c)
        for k in self.aliases:
            self.aliases[k].sort(key=lambda x: order[x.group])
        self.alias_count = {}
        self.sharers = {}         # primary callback id -> [primary, the callbacks that share its function]
        for c in scn.cbs:
            if c.same_as and c.same_as in self.cbmap:
                self.sharers.setdefault(c.same_as, [self.cbmap[c.same_as]]).append(c)
        self.chain = scn.is_chain()
        self.tds = []             # chain scenarios: (TriggerData object, label) in order of first appearance
        self.cross_hook = None    # worlds: called after a callback's nested sends (cross-machine nesting)
        self.owner_ids = None     # ids of the objects that may provide this instance's callbacks (C17)

    def pick_place(self, c, kw):
        """one function referred to by name from several transitions: the invocation belongs to the callback id of the
        transition the library is activating (`event_data.transition`)"""
        group = self.sharers.get(c.id)
        if not group:
            return c
        ed = kw.get("event_data")
        tr = getattr(ed, "transition", None)
        if tr is None:
            self.lines.append(f"X shared callback {c.id} invoked without event_data.transition")
            return c
        try:
            evs = sorted({int(self.ev_id(e)) for e in tr.events})
        except ValueError:
            evs = None
        for x in group:
            t = self.scn.trans[x.at[1]]
            if (self.state_idx(tr.source) == str(t.src) and self.state_idx(tr.target) == str(t.tgt)
                    and bool(tr.internal) == bool(t.internal) and evs == sorted(set(t.events))):
                return x
        self.lines.append(f"X shared callback {c.id} ({c.name}) invoked for a transition that does not refer to it: "
                          f"{self.state_idx(tr.source)}->{self.state_idx(tr.target)} events {evs}")
        return c

    def alias_pick(self, c, kw):
        """A name attached to several groups of one transition is one function: its k-th invocation
        inside one trigger is attributed to the k-th of those groups in phase order."""
        al = self.aliases.get(c.id)
        if not al:
            return c
        got = extract(c, (), kw)
        tid = got.get("_tid")
        if tid is None:
            tid = self.initial_tid
        k = self.alias_count.get((c.id, tid), 0)
        self.alias_count[(c.id, tid)] = k + 1
        return al[min(k, len(al) - 1)]

    def relabel(self, got, kw):
        """chain scenarios (an event used as a callback): the chained event is called with the parent's keyword
        arguments, so `_tid` does not identify the trigger; the TriggerData object does"""
        if not self.chain:
            return got
        ed = kw.get("event_data")
        td = getattr(ed, "trigger_data", None)
        if td is None:
            self.lines.append("X chain scenario: callback without event_data")
            return got
        for k, (obj, label) in enumerate(self.tds):
            if obj is td:
                got["_tid"] = label
                return got
        label = 5000 + len(self.tds)
        self.tds.append((td, label))
        got["_tid"] = label
        return got

    def act(self, cb, tid):
        if self.chain:     # chain scenarios: behaviour rows are keyed by the state value the callback sees
            v = getattr(self.model, self.scn.state_field, None)
            tid = 999 if v is None else (tok_of(v) if tok_of(v) is not None else 998)
        for (c, lo, hi, ret, rz, sends) in self.scn.acts:
            if c == cb and lo <= tid <= hi:
                return ret, rz, sends
        return 0, None, []

    def seen(self):
        m = self.model
        if self.scn.model_shape == "default" and getattr(self.sm, "model", None) is not None:
            m = self.sm.model       # (the library's own Model object, created inside the constructor)
        v = getattr(m, self.scn.state_field, None)
        return "-" if v is None else rp(v)

    def state_idx(self, st):
        if st is None:
            return "?"
        sid = getattr(st, "id", "")
        if not sid:
            return "-"
        if self.scn.sids and sid in self.scn.sids:
            return str(self.scn.sids.index(sid))
        return str(int(sid[1:])) if sid[0] == "s" and sid[1:].isdigit() else sid

    def ev_id(self, ev):
        s = str(ev)
        if s in EVENTS:
            return str(EVENTS.index(s))
        for k, v in self.scn.extra_events.items():
            if v == s:
                return str(k)
        return f"?{s}"

    def fmt_res(self, r):
        return rp(r)

    # what the callback got -> B line
    def begin(self, c: Cb, got):
        tid = got.get("_tid")
        if tid is None:
            tid = self.initial_tid
        ph = "cond" if c.group == "unless" else c.group
        ev = self.ev_id(got["event"]) if "event" in got else "?"
        src = self.state_idx(got["source"]) if "source" in got else "?"
        tgt = self.state_idx(got["target"]) if "target" in got else "?"
        if "state" in got:
            sv = got["state"].value if getattr(got["state"], "id", "") else None
            st = "-" if sv is None else rp(sv)
        else:
            st = "?"
        self.lines.append(f"B {tid} {ph} {c.id} seen={self.seen()} st={st} ev={ev} src={src} tgt={tgt}")
        d = 0
        f = sys._getframe()
        while f is not None:
            d += 1
            f = f.f_back
        self.depths.setdefault(c.id, []).append((tid, d, getattr(self, 'cur_op', -1)))
        return tid, ph

    def exc_s(self, e):
        from statemachine.exceptions import InvalidDefinition, InvalidStateValue, TransitionNotAllowed
        if isinstance(e, (UserExc, _Tagged)) or type(e).__name__.startswith("User") and hasattr(e, "tag"):
            return f"user:{e.tag}"
        if isinstance(e, TransitionNotAllowed):
            return f"notallowed:{self.ev_id(e.event)}:{self.state_idx(e.state)}"
        if isinstance(e, InvalidStateValue):
            return "invalidstate"
        if isinstance(e, InvalidDefinition):
            return "invaliddef"
        return f"other:{type(e).__name__}"


def extract(c: Cb, args, kw):
    """Normalise what a callback received into a dict with keys _tid,event,source,target,state."""
    got = {}
    if c.sig == "ed":
        ed = kw["event_data"]
        got = {"event": ed.event, "source": ed.source, "target": ed.target, "state": ed.state,
               "_tid": tid_of(ed.trigger_data.kwargs.get("_tid"))}
    elif c.sig == "kwargs":
        got = {k: kw[k] for k in ("event", "source", "target", "state") if k in kw}
        got["_tid"] = tid_of(kw.get("_tid"))
    else:
        got = {k: kw[k] for k in c.named if k in kw}
        got["_tid"] = tid_of(kw.get("_tid"))
    return got


def make_fn(rt: Runtime, c: Cb, with_self: bool):
    """Build the real Python callable for callback `c` with the signature its `sig` kind declares."""
    params = []
    if c.sig == "ed":
        params = ["event_data"]
    elif c.sig == "kwargs":
        params = ["**kw"]
    elif c.sig == "named":
        params = list(c.named) + ["_tid=None"]
    else:
        params = ["_tid=None"]
    head = (["self"] if with_self else []) + params
    if c.sig == "kwargs":
        collect = "kw"
    else:
        names = [p.split("=")[0] for p in params]
        collect = "dict(" + ", ".join(f"{n}={n}" for n in names) + ")"
    me = ", self" if with_self else ""
    if c.coro and c.wrap == "lazy":
        # a plain function that hands back an awaitable (e.g. delegates to a coroutine function): the async
        # engine awaits whatever a callback returns
        src = f"def {c.name}({', '.join(head)}):\n    return _abody({collect}{me})\n"
    elif c.coro:
        src = (
            f"async def {c.name}({', '.join(head)}):\n"
            f"    return await _abody({collect}{me})\n"
        )
    else:
        src = f"def {c.name}({', '.join(head)}):\n    return _body({collect}{me})\n"

    def _owner(me):
        ids = getattr(rt, "owner_ids", None)
        if me is not None and ids is not None and id(me) not in ids:
            rt.lines.append(f"X callback {c.id} ran on an object that does not belong to this instance")

    c0 = c

    def _body(kw, me=None):
        c = rt.alias_pick(rt.pick_place(c0, kw), kw)
        _owner(me)
        got = rt.relabel(extract(c0, (), kw), kw)
        tid, ph = rt.begin(c, got)
        ret, rz, sends = rt.act(c.id, tid)
        for e in sends:
            r = nested_send(rt, e)
            if asyncio.iscoroutine(r):  # sync callback inside a running loop: cannot await
                r.close()
                r = None
            rt.lines.append(f"S {tid} {ph} {c.id} {rt.fmt_res(r)}")
        hook = getattr(rt, "cross_hook", None)
        if hook is not None:
            hook(c.id, tid)
        if rz is not None:
            raise user_exc(rz, in_coroutine=rt.scn.is_async(), driver=rt.scn.driver)
        rt.lines.append(f"E {tid} {ph} {c.id} {rp(POOL[ret])}")
        return POOL[ret]

    async def _abody(kw, me=None):
        c = rt.alias_pick(rt.pick_place(c0, kw), kw)
        _owner(me)
        got = rt.relabel(extract(c0, (), kw), kw)
        tid, ph = rt.begin(c, got)
        ret, rz, sends = rt.act(c.id, tid)
        for _ in range(c.yields):
            await asyncio.sleep(0)
        for e in sends:
            r = nested_send(rt, e)
            if asyncio.iscoroutine(r):
                r = await r
            rt.lines.append(f"S {tid} {ph} {c.id} {rt.fmt_res(r)}")
        for _ in range(c.yields):
            await asyncio.sleep(0)
        if rz is not None:
            raise user_exc(rz, in_coroutine=True, driver=rt.scn.driver)
        rt.lines.append(f"E {tid} {ph} {c.id} {rp(POOL[ret])}")
        return POOL[ret]

    ns = {"_body": _body, "_abody": _abody}
    exec(src, ns)
    fn = ns[c.name]
    if c.wrap in ("wraps", "sig"):
        fn = (_deco_async if c.coro else _deco_sync)(fn)
        if c.wrap == "sig":
            import inspect
            fn.__signature__ = inspect.signature(fn.__wrapped__)
    return fn


def _deco_sync(f):
    """one signature-preserving decorator for every wrapped callback: all wrappers share one code object"""
    import functools

    @functools.wraps(f)
    def wrapper(*a, **k):
        return f(*a, **k)
    return wrapper


def _deco_async(f):
    import functools

    @functools.wraps(f)
    async def wrapper(*a, **k):
        return await f(*a, **k)
    return wrapper


def nested_send(rt: Runtime, e):
    tid = rt.next_tid
    rt.next_tid += 1
    return rt.sm.send(EVENTS[e] if e < len(EVENTS) else f"unk{e}", _tid=EqTag(tid))


def build(scn: Scn, rt: Runtime, cls_name=None, picklable=False):
    """Build the StateMachine subclass, model class and listener objects for the scenario."""
    from statemachine import State, StateMachine

    states = []
    cbs_at = lambda at, g, styles: [c for c in scn.cbs if c.at == at and c.group == g and c.style in styles]

    def inline(at, g):
        out = []
        for c in cbs_at(at, g, ("name", "callable", "evref", "attr")):
            if c.style in ("name", "evref", "attr"):      # evref: the name of a declared event; attr: of a plain attribute
                if c.name not in out:
                    out.append(c.name)
            else:
                out.append(make_fn(rt, c, with_self=False))
        return out or None

    for i, s in enumerate(scn.states):
        states.append(
            State(value=POOL[s.val], initial=s.initial, final=s.final,
                  enter=inline(("s", i), "enter"), exit=inline(("s", i), "exit"))
        )
    ns = {}
    for i, s in enumerate(states):
        ns[scn.sid(i)] = s
    tls = []

    def arrow(ti, tr, **kw):
        """the transition written in one of the equivalent builder forms: `src.to(tgt)`, `tgt.from_(src)`,
        `s.to.itself()`, `s.from_.itself()`"""
        form = (ti * 7 + len(scn.states) + len(scn.trans)) % 4
        a, b = states[tr.src], states[tr.tgt]
        if tr.src == tr.tgt and form == 1:
            return a.to.itself(**kw)
        if tr.src == tr.tgt and form == 2:
            return a.from_.itself(**kw)
        if form == 3:
            return b.from_(a, **kw)
        return a.to(b, **kw)

    for ti, tr in enumerate(scn.trans):
        kw = {g: inline(("t", ti), g) for g in ("validators", "cond", "unless", "before", "on", "after")}
        kw = {k: v for k, v in kw.items() if v is not None}
        if tr.internal:
            kw["internal"] = True
        if tr.any:
            tl = states[tr.tgt].from_.any(**kw)
            ns[EVENTS[tr.events[0]]] = tl
        elif scn.alias_sub and tr.events == [scn.alias_sub[1]]:
            tl = arrow(ti, tr, **kw)
            e1 = EVENTS[scn.alias_sub[0]]
            ns[e1] = (ns[e1] | tl) if e1 in ns else tl
        elif scn.decl_style == "placeholder" and not scn.alias_sub and not any(t.any for t in scn.trans):
            # events declared as id-less `Event()` objects that get their id from the class attribute they are bound to
            from statemachine import Event
            for e in tr.events:
                if EVENTS[e] not in ns:
                    ns[EVENTS[e]] = Event() if e % 2 else Event(name=f"Display {e}")
            tl = arrow(ti, tr, event=[ns[EVENTS[e]] for e in tr.events], **kw)
        elif scn.decl_style == "eventobj2" and not scn.alias_sub and all(len(t.events) == 1 and not t.any for t in scn.trans):
            # one `Event` object in both roles: `go = Event(a.to(b), name=...)` wraps the first transition of the
            # event, the others are declared with `event=go`
            from statemachine import Event
            e = tr.events[0]
            if EVENTS[e] in ns:
                tl = arrow(ti, tr, event=ns[EVENTS[e]], **kw)
            else:
                tl = arrow(ti, tr, **kw)
                ns[EVENTS[e]] = Event(tl, name=f"Ev {e}")
        elif scn.decl_style == "spaced":
            tl = arrow(ti, tr, event=" ".join(EVENTS[e] for e in tr.events), **kw)
        else:
            tl = arrow(ti, tr, event=[EVENTS[e] for e in tr.events], **kw)
        tls.append(tl)
    # events declared as explicit `Event(<transitions>, name=...)` objects; the decorators of a transition that is
    # the only one of its (only) event go through the Event object: `@go.cond`, `@go.unless`, `@go.on` ...
    ev_obj = {}
    if scn.decl_style == "eventobj" and not scn.alias_sub and not any(t.any for t in scn.trans):
        from statemachine import Event
        for e in sorted({e for t in scn.trans for e in t.events}):
            carriers = [ti for ti, t in enumerate(scn.trans) if e in t.events]
            union = tls[carriers[0]]
            for ti in carriers[1:]:
                union = union | tls[ti]
            ns[EVENTS[e]] = Event(union, name=f"Ev {e}")
            if len(carriers) == 1 and scn.trans[carriers[0]].events == [e]:
                ev_obj[carriers[0]] = ns[EVENTS[e]]
    # decorators
    for c in scn.cbs:
        if c.style != "decorator":
            continue
        fn = make_fn(rt, c, with_self=True)
        if c.at[0] == "t":
            deco = getattr(ev_obj.get(c.at[1], tls[c.at[1]]), c.group)
        else:
            deco = getattr(states[c.at[1]], c.group)
        ns[c.name] = deco(fn)
    # machine-provided methods (conv + name)
    model_ns, listener_ns = {}, {}
    hooks = scn.listener_kind in ("hooks", "shared")
    # "shared": the listeners are plain objects whose callbacks are instance attributes, each of them a *bound method
    # of one helper object* that all listeners delegate to (`self.on_enter_state = bus.publish`): the callables of two
    # providers then share `__self__` (and, under one name, `__name__`) — they are still one callback per provider
    shared_helper = type("Helper_" + scn.name.replace("-", "_").replace(":", "_"), (), {})()
    for c in scn.cbs:
        if c.style not in ("conv", "name", "attr") or c.alias_of or c.same_as:
            continue
        if c.style == "attr":     # a plain (non-callable) attribute used as a callback: its value is the callback's value
            fn = POOL[attr_value(scn, c)]
        else:
            fn = make_fn(rt, c, with_self=not (scn.listener_kind == "hooks" and c.provider.startswith("L")))
            if scn.listener_kind == "shared" and c.provider.startswith("L"):
                import types as _types
                fn = _types.MethodType(fn, shared_helper)
        if c.wrap == "prop" and c.style in ("conv", "name") and not (hooks and c.provider.startswith("L")):
            # a delegation facade: the provider exposes the callback through a property that returns the callable
            import types
            fn = property(lambda me, _f=fn: types.MethodType(_f, me))
        if c.provider == "machine":
            ns[c.name] = fn
        elif c.provider == "model":
            model_ns[c.name] = fn
        else:
            listener_ns.setdefault(c.provider, {})[c.name] = fn
    def __init__(self, *a, **k):  # lets callbacks that run during construction reach the machine
        rt.sm = self
        StateMachine.__init__(self, *a, **k)

    ns["__init__"] = __init__
    with warnings.catch_warnings():
        warnings.simplefilter("ignore")
        cls = type(StateMachine)(cls_name or "M_" + scn.name.replace("-", "_").replace(":", "_"),
                                 (StateMachine,), ns, strict_states=scn.strict)
    if scn.alias_sub:     # the parent's event re-declared under another name in a subclass
        with warnings.catch_warnings():
            warnings.simplefilter("ignore")
            cls = type(cls)(cls.__name__ + "Sub", (cls,), {EVENTS[scn.alias_sub[1]]: getattr(cls, EVENTS[scn.alias_sub[0]])})
    # the model field is a logging property: every write by the engine is observed ("T <value>")
    def _get(self):
        return self.__dict__.get("_st")

    def _set(self, v):
        if v is None and "_st" not in self.__dict__:   # `statemachine.model.Model.__init__` presets None
            self.__dict__["_st"] = v
            return
        self.__dict__["_st"] = v
        rt.lines.append(f"T {rp(v)}")

    model_ns[scn.state_field] = property(_get, _set)
    if scn.model_shape == "len0":          # a falsy, perfectly valid model object
        model_ns["__len__"] = lambda self: 0
    elif scn.model_shape == "boolF":
        model_ns["__bool__"] = lambda self: False
    elif scn.model_shape == "eq":          # records compared by key: all model objects are equal and hash alike
        model_ns["__eq__"] = lambda a, b: getattr(b, "_verif_model", False)
        model_ns["__hash__"] = lambda a: 11
        model_ns["_verif_model"] = True
    suffix = "_" + cls.__name__ if picklable else ""
    mbase = ()
    if scn.model_shape == "lib":           # a user model that extends the library's own Model class
        from statemachine.model import Model as _LibModel
        mbase = (_LibModel,)
    model_cls = type("Mdl" + suffix, mbase, model_ns)
    listeners = {}
    lclasses = []
    factories = {}
    lbase = ()
    if scn.listener_kind == "eq":          # distinct listener objects that compare (and hash) equal
        lbase = (type("EqBase" + suffix, (), {"__eq__": lambda a, b: hasattr(b, "_verif_eq"), "__hash__": lambda a: 7,
                                               "_verif_eq": True}),)
        lclasses.append(lbase[0])
    if scn.listener_kind == "singleton":   # stateless listeners that survive copying as the very same object
        lbase = (type("SingletonBase" + suffix, (), {"__deepcopy__": lambda a, memo: a, "__copy__": lambda a: a}),)
        lclasses.append(lbase[0])
    if scn.listener_kind == "falsy":       # listeners that are falsy objects (empty containers)
        lbase = (type("FalsyBase" + suffix, (), {"__len__": lambda a: 0}),)
        lclasses.append(lbase[0])
    hooks_cls = type("Hooks" + suffix, (), {"__init__": lambda self, **k: self.__dict__.update(k)})
    if hooks:
        lclasses.append(hooks_cls)
    for p in sorted(({c.provider for c in scn.cbs if c.provider.startswith("L")} | set(scn.listeners_ctor)
                     | {o[1] for o in scn.ops if o[0] == "add_listener"}) - {"machine", "model"}):
        if hooks:
            factories[p] = (lambda d: (lambda: hooks_cls(**d)))(dict(listener_ns.get(p, {})))
        elif scn.listener_kind == "proxy":
            # a delegating facade: the callbacks live on an inner object, the listener answers `dir()` and attribute
            # lookups on its behalf (`__dir__` / `__getattr__`): its attribute set is not "instance dict + classes"
            lc = type("Lst_" + p + suffix, lbase, listener_ns.get(p, {}))
            lclasses.append(lc)
            factories[p] = (lambda k: (lambda: ListenerProxy(k())))(lc)
        elif scn.listener_kind == "inherit":
            # the callbacks are inherited: defined on a base class of the listener's class
            lb = type("LstBase_" + p + suffix, lbase, listener_ns.get(p, {}))
            lc = type("Lst_" + p + suffix, (lb,), {})
            lclasses += [lb, lc]
            factories[p] = lc
        else:
            lc = type("Lst_" + p + suffix, lbase, listener_ns.get(p, {}))
            lclasses.append(lc)
            factories[p] = lc
        listeners[p] = factories[p]()
    cls._verif_listener_factories = factories
    if picklable:    # pickle stores classes by module and name
        g = sys.modules[cls.__module__].__dict__
        for k in [cls, model_cls] + lclasses:
            k.__module__ = cls.__module__
            g[k.__name__] = k
    return cls, model_cls, listeners


class RtSwitch:
    """Stands in for a `Runtime` inside callbacks of a class shared by several instances: every
    attribute access is forwarded to the runtime of the instance whose operation is in progress."""

    def __init__(self):
        object.__setattr__(self, "cur", None)

    def __getattr__(self, k):
        return getattr(object.__getattribute__(self, "cur"), k)

    def __setattr__(self, k, v):
        if k == "cur":
            object.__setattr__(self, k, v)
        else:
            setattr(object.__getattribute__(self, "cur"), k, v)


class Session:
    """One machine instance driven operation by operation (the body of `run_impl`, re-entrant so
    that several instances can be interleaved in one process)."""

    def __init__(self, scn: Scn, rt: Runtime = None, built=None, cls_name=None):
        self.scn = scn
        self.rt = rt or Runtime(scn)
        self.dead = False
        self.cur_tid = "-"
        self.ok = True
        rt = self.rt
        if built is None:
            try:
                built = build(scn, rt, cls_name=cls_name)
            except Exception as e:  # class-definition error: the scenario is not a valid machine
                rt.lines.append(f"DEFERR {type(e).__name__}")
                self.ok = False
                return
        cls, model_cls, listeners = built
        rt.cls, rt.model_cls = cls, model_cls
        rt.model = model_cls()
        self.set_model_attrs()
        if scn.cur0 is not None:
            rt.model.__dict__["_st"] = POOL[scn.cur0]
        rt.listeners = listeners
        self.cls, self.listeners = cls, listeners
        for p, obj in listeners.items():      # plain-attribute callbacks of a listener: this instance's values
            for c in scn.cbs:
                if c.style == "attr" and c.provider == p and hasattr(obj, "__dict__"):
                    obj.__dict__[c.name] = POOL[attr_value(scn, c)]

    def set_model_attrs(self):
        """plain-attribute callbacks provided by the model hold *this instance's* values"""
        for c in self.scn.cbs:
            if c.style == "attr" and c.provider == "model":
                self.rt.model.__dict__[c.name] = POOL[attr_value(self.scn, c)]

    def op_construct(self, start="scn"):
        rt, scn = self.rt, self.scn
        if getattr(rt.model, scn.state_field, None) is None:
            rt.initial_tid = rt.next_tid
            rt.next_tid += 1
        kw = {}
        if start == "scn":      # the start_value in force: the scenario's, or the last `fresh` operation's
            start = getattr(self, "cur_start", scn.start)
        self.cur_start = start
        if start is not None:
            kw["start_value"] = POOL[start]
        if scn.state_field != "state":
            kw["state_field"] = scn.state_field
        self.ctor_list = [self.listeners[p] for p in scn.listeners_ctor]
        self.ctor_len = len(self.ctor_list)
        if scn.model_shape == "default":
            # no model given: the library's own `Model()` holds the state (and whatever the application hangs on it)
            self.cls(rtc=scn.rtc, allow_event_without_transition=scn.allow, listeners=self.ctor_list, **kw)
            rt.model = rt.sm.model
        else:
            self.cls(rt.model, rtc=scn.rtc, allow_event_without_transition=scn.allow,
                     listeners=self.ctor_list, **kw)
        rt.bound = type("Bound", (), {})()
        # a first target that already has an attribute named like an event: skipped (with a warning) for that
        # event only; every event must still be bound onto the second target
        names = sorted(str(e) for e in type(rt.sm)._events)
        rt.bound0 = type("Bound0", (), {names[0]: "taken"} if names else {})()
        with warnings.catch_warnings():
            warnings.simplefilter("ignore")
            rt.sm.bind_events_to(rt.bound0, rt.bound)
        if scn.bind_model:
            with warnings.catch_warnings():
                warnings.simplefilter("ignore")
                rt.sm.bind_events_to(rt.model)
        return None

    def op_copy(self):
        """the machine is replaced by a `copy.deepcopy` of itself (with its model and listeners): for the engine
        that is a re-construction over the stored state (`__setstate__` builds and starts a fresh engine)"""
        import copy
        rt, scn = self.rt, self.scn
        if getattr(rt.model, scn.state_field, None) is None:
            rt.initial_tid = rt.next_tid
            rt.next_tid += 1
        memo = {}
        old = rt.sm
        clone = copy.deepcopy(old, memo)
        rt.sm = clone
        rt.model = clone.model
        for p, obj in list(self.listeners.items()):
            if id(obj) in memo:
                self.listeners[p] = memo[id(obj)]
        rt.bound = type("Bound", (), {})()
        with warnings.catch_warnings():
            warnings.simplefilter("ignore")
            clone.bind_events_to(rt.bound)
        return None

    def foreign_machine(self):
        """a machine of an unrelated class (no callbacks) that declares events of the same names: every event is a
        transition from its first state to its second"""
        if getattr(self, "_foreign", None) is None:
            from statemachine import State, StateMachine
            names = sorted(str(e) for e in type(self.rt.sm)._events)
            if not names:
                return None
            a, b = State(initial=True), State()
            ns = {"fa": a, "fb": b}
            for n in names:
                if n.isidentifier() and n not in ("fa", "fb"):
                    ns[n] = a.to(b) | b.to(b)
            with warnings.catch_warnings():
                warnings.simplefilter("ignore")
                self._foreign = type(StateMachine)("ForeignTriggers", (StateMachine,), ns)()
        return self._foreign

    def ev_name(self, e):
        if e < len(EVENTS):
            return EVENTS[e]
        return self.scn.extra_events.get(e, f"unk{e}")

    def op_send(self, e, style="send"):
        rt = self.rt
        tid = rt.next_tid
        rt.next_tid += 1
        self.cur_tid = str(tid)
        name = self.ev_name(e)
        sm = rt.sm
        declared = name in type(sm)._events
        # one scenario in three: the caller also passes keyword arguments named like the ones the library provides
        # (`sm.pay(amount=10, event="checkout-4711")`): they are dropped, every callback sees the library's values
        junk, junk_call = {}, {}
        if zlib.crc32(self.scn.name.encode()) % 3 == 0:
            junk = {k: "JUNK" for k in ("state", "source", "target", "model", "machine", "transition", "event_data")}
            junk_call = dict(junk, event="JUNK")     # (`send(name, event=…)` is Python's own collision: D24)
        foreign = getattr(self, "foreign_from", None)
        if foreign is not None and name in type(foreign)._events:
            # the caller hands over the *bound event object of another machine* (e.g. the `event` it received in a
            # callback): `send` takes the name from it and triggers this machine's own event of that name
            return sm.send(getattr(foreign, name), _tid=EqTag(tid), **junk)
        if style == "foreign" and declared:
            # the caller hands over the trigger object of *another* machine that happens to have an event of that name
            # (an item of its `events`, its `sm.<event>`): `send` takes the name from it and triggers this machine
            other = self.foreign_machine()
            if other is not None and hasattr(other, name):
                before = other.current_state.id
                r = sm.send(getattr(other, name), _tid=EqTag(tid), **junk)
                if other.current_state.id != before:
                    rt.lines.append("X sending another machine's trigger object moved that other machine")
                return r
        if style == "method" and declared:
            return getattr(sm, name)(_tid=EqTag(tid), **junk_call)
        if style == "events" and declared:
            return next(x for x in sm.events if x == name)(_tid=EqTag(tid), **junk_call)
        if style == "allowed":
            try:
                cands = [x for x in sm.allowed_events if x == name]
            except Exception:
                cands = []
            if cands:
                return cands[0](_tid=EqTag(tid), **junk_call)
        if style == "modelbound" and declared and name in getattr(rt.model, "__dict__", {}):
            return getattr(rt.model, name)(_tid=EqTag(tid), **junk_call)
        if style == "bound" and declared:
            if not hasattr(rt.bound, name):
                rt.lines.append(f"X event {name} was not bound onto the target object by bind_events_to")
            else:
                return getattr(rt.bound, name)(_tid=EqTag(tid), **junk_call)
        return sm.send(name, _tid=EqTag(tid), **junk)

    def do_op(self, i, op):
        """returns ('R', value-or-coroutine) or ('L', line)"""
        rt = self.rt
        self.cur_tid = "-"
        rt.cur_op = i
        if op[0] == "reconstruct" and len(op) > 1 and op[1] == "copy" and getattr(rt, "sm", None) is not None:
            return "R", self.op_copy()
        if op[0] in ("construct", "reconstruct"):
            return "R", self.op_construct()
        if op[0] == "send":
            return "R", self.op_send(op[1], op[2] if len(op) > 2 else "send")
        if op[0] == "fresh":        # another instance of the same class over a fresh model
            rt.model = type(rt.model)()
            self.set_model_attrs()
            return "R", self.op_construct(start=op[1])
        if op[0] == "set_allow":    # the public option is a plain attribute
            rt.sm.allow_event_without_transition = bool(op[1])
            return "R", None
        if op[0] == "write":        # somebody else assigns the model field
            setattr(rt.model, self.scn.state_field, POOL[op[1]])
            return "R", None
        if op[0] == "noop":
            # stands for "a clone was taken here" in a reference run without cloning: a machine that is
            # not activated yet gets a fresh activation trigger (numbered like the model numbers it)
            if getattr(rt.model, self.scn.state_field, None) is None:
                rt.initial_tid = rt.next_tid
                rt.next_tid += 1
            return "R", None
        if op[0] == "activate":
            return "R", rt.sm.activate_initial_state()
        if op[0] == "add_listener":
            # (the model, or the machine itself, may be attached as a listener too: it is a provider already, nothing
            # of it is registered twice)
            rt.sm.add_listener(rt.model if op[1] == "model" else rt.sm if op[1] == "machine" else self.listeners[op[1]])
            if len(getattr(self, "ctor_list", [])) != getattr(self, "ctor_len", 0):
                rt.lines.append("X the list passed as listeners= to the constructor was modified by add_listener")
                self.ctor_len = len(self.ctor_list)
            return "R", None
        if op[0] == "allowed":
            try:
                ids = [rt.ev_id(e) for e in rt.sm.allowed_events]
                return "L", f"A {i} " + (",".join(ids) if ids else "-")
            except Exception as e:
                return "L", f"A {i} err {rt.exc_s(e)}"
        if op[0] == "events":
            ids = sorted(int(rt.ev_id(e)) for e in rt.sm.events)
            if self.scn.alias_sub:      # the renamed event stays declared (inherited), without transitions
                ids = [x for x in ids if x != self.scn.alias_sub[0]]
            return "L", f"V {i} " + ",".join(str(x) for x in ids)
        raise ValueError(op)

    async def step(self, i, op):
        rt = self.rt
        if self.dead:
            rt.lines.append(f"R {i} skipped")
            return
        ARMED[0] += 1
        try:
            k, r = self.do_op(i, op)
            if k == "L":
                rt.lines.append(r)
                return
            if asyncio.iscoroutine(r) or asyncio.isfuture(r):
                r = await r
            elif op[0] in ("send", "activate") and self.scn.driver == "loop" and self.scn.is_async() \
                    and getattr(rt, "sm", None) is not None:
                # inside a running loop the documented use is `await sm.send(...)` / `await sm.activate_initial_state()`
                rt.lines.append(f"X {op[0]} on a machine with coroutine callbacks, called inside a running loop, "
                                f"returned {type(r).__name__} instead of an awaitable (`await` on it raises TypeError)")
            rt.lines.append(f"R {i} ok {rt.fmt_res(r)} cur={rt.seen()} tid={self.cur_tid}")
        except BaseException as e:
            if not isinstance(e, (Exception, _Tagged)):
                raise
            rt.lines.append(f"R {i} err {rt.exc_s(e)} cur={rt.seen()} tid={self.cur_tid}")
            if op[0] in ("construct", "reconstruct", "fresh"):
                self.dead = True
        finally:
            ARMED[0] -= 1

    def step_sync(self, i, op):
        rt = self.rt
        if self.dead:
            rt.lines.append(f"R {i} skipped")
            return
        ARMED[0] += 1
        try:
            k, r = self.do_op(i, op)
            if k == "L":
                rt.lines.append(r)
                return
            rt.lines.append(f"R {i} ok {rt.fmt_res(r)} cur={rt.seen()} tid={self.cur_tid}")
        except BaseException as e:
            if not isinstance(e, (Exception, _Tagged)):
                raise
            rt.lines.append(f"R {i} err {rt.exc_s(e)} cur={rt.seen()} tid={self.cur_tid}")
            if op[0] in ("construct", "reconstruct", "fresh"):
                self.dead = True
        finally:
            ARMED[0] -= 1


def run_impl(scn: Scn):
    """Drive the real library; returns (observation lines, runtime)."""
    ses = Session(scn)
    rt = ses.rt
    if not ses.ok:
        return rt.lines, rt

    async def run_all_async():
        for i, op in enumerate(scn.ops):
            await ses.step(i, op)

    with warnings.catch_warnings(record=True) as w:
        warnings.simplefilter("always")
        if scn.driver == "loop":
            asyncio.run(run_all_async())
        else:
            # sync code, no running loop: coroutine callbacks run on the library's per-thread loop,
            # inside which nested sends return coroutines that the coroutine callback awaits
            for i, op in enumerate(scn.ops):
                ses.step_sync(i, op)
        rt.warnings = [str(x.message) for x in w if "never awaited" in str(x.message)]
    return rt.lines, rt


def _loop_running():
    try:
        asyncio.get_running_loop()
        return True
    except RuntimeError:
        return False


# ----------------------------------------------------------------------------- canonical form

def mask_model_line(line: str, scn: Scn, cbmap):
    """Model B lines carry every field; keep only what the callback's signature lets it observe."""
    if line.startswith("T "):
        return "T " + line.split(" ", 2)[2]
    if not line.startswith("B "):
        return line
    parts = line.split(" ")
    cb = cbmap.get(int(parts[3]))
    fields = dict(p.split("=", 1) for p in parts[4:])
    seen = fields["seen"]
    have = set()
    if cb is not None:
        if cb.sig in ("ed", "kwargs"):
            have = {"event", "source", "target", "state"}
        elif cb.sig == "named":
            have = set(cb.named)
    st = fields["st"] if "state" in have else "?"
    ev = fields["ev"] if "event" in have else "?"
    src = fields["src"] if "source" in have else "?"
    tgt = fields["tgt"] if "target" in have else "?"
    return " ".join(parts[:4]) + f" seen={seen} st={st} ev={ev} src={src} tgt={tgt}"


def canon(lines, sort_groups=True):
    """Sort entries inside one maximal run of the same (tid, phase): order inside a group is
    unconstrained. A run in which a callback raised (B without E) keeps only that callback."""
    out, run, key = [], [], None

    def flush():
        nonlocal run
        if not run:
            return
        begun = {}
        for l in run:
            p = l.split(" ")
            if p[0] == "B":
                begun[p[3]] = begun.get(p[3], 0) + 1
            elif p[0] == "E":
                begun[p[3]] = begun.get(p[3], 0) - 1
        raised = [cb for cb, n in begun.items() if n > 0]
        if raised:
            run = [l for l in run if l.split(" ")[3] in raised]
        keyed = [((int(l.split(" ")[3]), n), l) for n, l in enumerate(run)]
        if sort_groups:
            keyed.sort(key=lambda kl: kl[0])
        out.extend(l for _, l in keyed)
        run = []

    for l in lines:
        p = l.split(" ")
        if p[0] in ("B", "S", "E"):
            k = (p[1], p[2])
            if k != key:
                flush()
                key = k
            run.append(l)
        else:
            flush()
            key = None
            out.append(l)
    flush()
    return out


def renumber(lines):
    """chain scenarios: trigger ids in B/S/E lines replaced by their rank of first appearance; the `tid=` of R lines
    (the id allocated for the caller's own event, which may never reach a callback) dropped"""
    rank = {}
    out = []
    for l in lines:
        p = l.split(" ")
        if p[0] in ("B", "S", "E"):
            p[1] = "c" + str(rank.setdefault(p[1], len(rank)))
            out.append(" ".join(p))
        elif p[0] == "R":
            out.append(" ".join(x for x in p if not x.startswith("tid=")))
        else:
            out.append(l)
    return out


def impl_obs(scn: Scn, impl_lines):
    a = canon(impl_lines)
    return renumber(a) if scn.is_chain() else a


def model_obs(scn: Scn, raw_lines):
    cbmap = {c.id: c for c in scn.cbs}
    if scn.model_shape == "default":      # (writes of the library's default model cannot be observed)
        raw_lines = [l for l in raw_lines if not l.startswith("T ")]
    silent = {str(c.id) for c in scn.cbs if c.style == "attr"}
    if silent:      # reading a plain attribute runs no user code: nothing of it is observed
        raw_lines = [l for l in raw_lines if not (l[:2] in ("B ", "S ", "E ") and l.split(" ")[3] in silent)]
    if scn.is_chain():
        # the library's own wrapper for an event used as a callback runs no user code: nothing of it is observed
        evrefs = {str(c.id) for c in scn.cbs if c.style == "evref"}
        raw_lines = [l for l in raw_lines if not (l[:2] in ("B ", "S ", "E ") and l.split(" ")[3] in evrefs)]
        return renumber(canon([mask_model_line(l, scn, cbmap) for l in raw_lines]))
    return canon([mask_model_line(l, scn, cbmap) for l in raw_lines])
