"""C07: the Spec, written from the English statement, independent of the library and of the Lean model.

"Every callback is called with exactly the parameters it declares: named parameters receive the
same-named event keyword argument or built-in value, remaining positional parameters receive the
event's positional arguments in order, *args/**kwargs receive the leftovers, and undeclared data
never causes a TypeError."  (The suite pins: a same-named keyword wins over, and uses up, the
positional slot of a positional-or-keyword parameter.)

`spec_call` is the closed form; `cpython_oracle` reaches the same answer by a different route: it
removes what the callee does not declare and lets CPython's own call protocol do the binding.
The one corner where only CPython's behaviour is demanded (a positional-only parameter that no
positional argument reaches while a keyword bears its name; the suite pins `TypeError`) is flagged:
there the implementation may raise `TypeError` or deliver the closed form.
"""
from bind_gen import DFLT, RESERVED, canon_frame

_MISSING = object()


def spec_call(sig, args, kw):
    """-> (canonical outcome, corner?)"""
    kwd = dict(kw)
    consumed = {n for n, k, _ in sig if k in ("pk", "ko")}
    rec, missing, corner = [], False, False
    for i, (n, k, d) in enumerate(sig):
        if k == "po":
            if i < len(args):
                v = args[i]
            else:
                corner = corner or n in kwd
                v = DFLT if d else _MISSING
        elif k == "pk":
            if n in kwd:
                v = kwd[n]
            elif i < len(args):
                v = args[i]
            else:
                v = DFLT if d else _MISSING
        elif k == "vp":
            v = tuple(args[i:])
        elif k == "ko":
            v = kwd[n] if n in kwd else (DFLT if d else _MISSING)
        else:
            v = {a: b for a, b in kw if a not in consumed}
        missing = missing or v is _MISSING
        rec.append((n, v))
    return ("TypeError" if missing else canon_frame(rec)), corner


def cpython_oracle(f, sig, args, kw):
    """drop undeclared data, let the same-named keyword take the positional slot, then call `f`
    with CPython's own binding"""
    kinds = [k for _, k, _ in sig]
    pos = [(i, n) for i, (n, k, _) in enumerate(sig) if k in ("po", "pk")]
    a2 = list(args)
    if "vp" not in kinds:
        a2 = a2[:len(pos)]
    kw2 = dict(kw)
    for i, n in pos:
        if sig[i][1] == "pk" and n in kw2 and i < len(a2):
            a2[i] = kw2.pop(n)
    if "vk" not in kinds:
        named = {n for n, k, _ in sig if k in ("pk", "ko")}
        kw2 = {k: v for k, v in kw2.items() if k in named}
    try:
        return canon_frame(f(*a2, **kw2))
    except TypeError:
        return "TypeError"


def satisfies(impl, spec, corner):
    return impl == spec or (corner and impl == "TypeError")


def event_kwargs(user_kw, builtins):
    """keywords a callback is offered: the user's keywords without the reserved names, and the eight
    built-in values of the event being processed"""
    kw = [(k, v) for k, v in user_kw if k not in RESERVED]
    return tuple(kw) + tuple((r, builtins[r]) for r in RESERVED)
