"""Entry point: ./check <Cxx> [--tier quick|thorough] [--replay file]"""
import argparse
import importlib
import os
import sys
import traceback

sys.path.insert(0, os.path.dirname(os.path.abspath(__file__)))

from common import assert_repo  # noqa: E402
from framework import Ctx, finish  # noqa: E402


def main():
    ap = argparse.ArgumentParser()
    ap.add_argument("prop")
    ap.add_argument("--tier", default=os.environ.get("VERIF_TIER", "quick"))
    ap.add_argument("--replay", default=None)
    a = ap.parse_args()
    seed = int(os.environ.get("VERIF_SEED", "0") or 0)
    assert_repo()
    ctx = Ctx(a.prop, a.tier, seed, a.replay)
    # hard stop (exit 2 = the check itself did not finish; never a verdict): a quick check that has not finished
    # after several times its time budget is wedged (a lost worker, a deadlocked scheduler thread)
    import threading

    hard = float(os.environ.get("VERIF_HARD_STOP_S", "0") or 0) or (ctx.budget_s * 4 + 120)

    def _stop():
        print(f"[{a.prop}] TIMEOUT: the check did not finish within {hard:.0f}s (budget {ctx.budget_s:.0f}s); exit 2",
              file=sys.stderr, flush=True)
        try:
            import multiprocessing
            for ch in multiprocessing.active_children():
                ch.terminate()
        finally:
            os._exit(2)

    watchdog = threading.Timer(hard, _stop)
    watchdog.daemon = True
    watchdog.start()
    try:
        mod = importlib.import_module("props." + a.prop.lower())
        mod.run(ctx)
    except BaseException as exc:
        if isinstance(exc, (KeyboardInterrupt, SystemExit)) and not hasattr(exc, "tag"):
            raise
        # (BaseException: an `asyncio.CancelledError` that leaks out of the library is not an `Exception`)
        # The harness drives the library through its public API; an exception that escapes here means the
        # library (or the harness) did something the correspondence cannot even evaluate. That is reported as
        # an obligation that no longer checks (a harness bug would show up on the unchanged tree the same way).
        tb = traceback.format_exc()
        print(tb, file=sys.stderr)
        rp = ctx.write_replay("harness_crash.txt", "the check could not be evaluated: an exception escaped the harness\n" + tb)
        ctx.violation(rp, "harness crash", no_input=True)
    sys.exit(finish(ctx))


if __name__ == "__main__":
    main()
