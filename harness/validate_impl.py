"""C09: build the real class for a definition and observe; the independent Spec oracle; the batch
runner shared by the in-process (quick) and multi-process (thorough) paths."""
from __future__ import annotations

import re
import subprocess
import time
import warnings

from common import LEAN, run_driver
from validate_defs import Defn, canon, n_specs, scn_lines

_ID = re.compile(r"'s(\d+)'")


# ----------------------------------------------------------------------------- real code

def render_source(d: Defn) -> str:
    """The definition as a real `class` statement (mode 'exec')."""
    n = len(d.states)
    lines = [f"class M(StateMachine, strict_states={d.strict}):"]
    styles = iter(d.styles)

    def tr(sp):
        if sp[0] == "a":
            return f"s{sp[1]}.from_.any({'internal=True' if sp[2] else ''})"
        st = next(styles)
        kw = "internal=True" if sp[3] else ""
        if st == "i":
            return f"s{sp[1]}.to.itself({kw})"
        if st == "f":
            return f"s{sp[2]}.from_(s{sp[1]}{', ' + kw if kw else ''})"
        return f"s{sp[1]}.to(s{sp[2]}{', ' + kw if kw else ''})"

    ev = list(d.events)
    k = 0
    for j in range(n + 1):
        while k < len(ev) and ev[k][0] <= j:
            specs = ev[k][1]
            lines.append(f"    ev{k} = " + (" | ".join(tr(s) for s in specs) if specs else "TransitionList()"))
            k += 1
        if j < n:
            i, f = d.states[j]
            vals = _values(d)
            lines.append(f"    s{j} = State(initial={i}, final={f})" if vals is None else
                         f"    s{j} = State(value={vals[j]!r}, initial={i}, final={f})")
    for s in d.loose:
        lines.append("    " + tr(s))
    if len(lines) == 1:
        lines.append("    pass")
    return "\n".join(lines) + "\n"


def _values(d: Defn):
    """explicit state values for this definition, or None: in a quarter of the classes several states share one
    value (legal; validation is about the graph of State objects, not about their values)"""
    import zlib
    h = zlib.crc32(repr((d.states, d.events, d.loose)).encode())
    if h % 4:
        return None
    return [("v", "w")[(h >> 3 >> j) & 1] if (h >> 8) & 1 else "v" for j in range(len(d.states))]


def _build_meta(d: Defn):
    from statemachine import State, StateMachine
    from statemachine.factory import StateMachineMetaclass
    from statemachine.transition_list import TransitionList

    n = len(d.states)
    vals = _values(d)
    S = [State(initial=i, final=f) if vals is None else State(value=vals[j], initial=i, final=f)
         for j, (i, f) in enumerate(d.states)]
    # index n = a State object that exists but is not declared in the class (`a.to(some_other_state)`): the class's
    # own states must still all be reachable, whatever else the transitions point at
    S.append(State("not declared"))
    styles = iter(d.styles)

    def tr(sp):
        if sp[0] == "a":
            return S[sp[1]].from_.any(internal=True) if sp[2] else S[sp[1]].from_.any()
        st = next(styles)
        kw = {"internal": True} if sp[3] else {}
        if st == "i":
            return S[sp[1]].to.itself(**kw)
        if st == "f":
            return S[sp[2]].from_(S[sp[1]], **kw)
        return S[sp[1]].to(S[sp[2]], **kw)

    evs = []
    import zlib
    kwstyle = zlib.crc32(repr((d.events, d.states, "kw")).encode()) % 3 == 1
    for k, (pos, specs) in enumerate(d.events):
        tl = None
        kw_done = False
        for sp in specs:
            t = tr(sp)
            if kwstyle and not kw_done and sp[0] == "e" and len(specs) > 1:
                # the same event, written partly as `event="ev<k>"` on a transition of its own (registered when its
                # source state is) and partly as the class attribute `ev<k>`
                t.add_event(f"ev{k}")
                kw_done = True
                continue
            tl = t if tl is None else (tl | t)
        evs.append((pos, tl if tl is not None else TransitionList()))
    for sp in d.loose:
        tr(sp)
    ns = {}
    k = 0
    for j in range(n + 1):
        while k < len(evs) and evs[k][0] <= j:
            ns[f"ev{k}"] = evs[k][1]
            k += 1
        if j < n:
            ns[f"s{j}"] = S[j]
    import zlib
    if not d.strict and zlib.crc32(repr((d.states, d.events)).encode()) % 8 == 1:
        # strictness is a property of the class statement, not inherited: a non-strict class derived from an
        # (abstract) strict base, declared without the keyword
        base = StateMachineMetaclass("StrictBase", (StateMachine,), {}, strict_states=True)
        return StateMachineMetaclass("M", (base,), ns)
    if d.strict and zlib.crc32(repr((d.states, d.events, "sub")).encode()) % 8 == 2:
        # a strict subclass that adds nothing to a concrete, lenient base class: the definition is validated again,
        # under the subclass's own strictness
        import warnings as _w
        with _w.catch_warnings():
            _w.simplefilter("ignore")
            base = StateMachineMetaclass("LenientBase", (StateMachine,), ns)
        return StateMachineMetaclass("M", (base,), {}, strict_states=True)
    hs = zlib.crc32(repr((d.states, d.events, d.loose, "split")).encode())
    items = list(ns.items())
    if hs % 4 == 3 and len(items) >= 2:
        # the same class body split between a concrete base class and a subclass (the rest of the attributes, in the
        # same order): the subclass is the machine under test. Used only when the first part is a machine of its own.
        cut = 1 + (hs >> 4) % (len(items) - 1)
        import warnings as _w
        from statemachine.exceptions import InvalidDefinition
        try:
            with _w.catch_warnings():
                _w.simplefilter("ignore")
                base = StateMachineMetaclass("SplitBase", (StateMachine,), dict(items[:cut]))
        except InvalidDefinition:
            base = None
        if base is not None and not getattr(base, "_abstract", False):
            return StateMachineMetaclass("M", (base,), dict(items[cut:]), strict_states=d.strict)
    return StateMachineMetaclass("M", (StateMachine,), ns, strict_states=d.strict)


def _build_exec(d: Defn):
    from statemachine import State, StateMachine
    from statemachine.transition_list import TransitionList

    g = {"State": State, "StateMachine": StateMachine, "TransitionList": TransitionList, "__name__": "c09"}
    exec(compile(render_source(d), "<c09>", "exec"), g)
    return g["M"]


def observe(d: Defn):
    """Observation lines in the driver's format, from the real library (public behaviour only:
    exception type of the class statement, warnings and the state ids they name, whether the
    accepted class can be instantiated)."""
    from statemachine.exceptions import InvalidDefinition

    out = []
    with warnings.catch_warnings(record=True) as rec:
        warnings.simplefilter("always")
        try:
            cls = _build_exec(d) if d.mode == "exec" else _build_meta(d)
            err = None
        except InvalidDefinition:
            err = "invalid"
        except Exception as e:  # noqa: BLE001
            err = f"other {type(e).__name__}"
    if err is not None:
        out.append("verdict " + err)
    else:
        try:
            cls()
            ab = "0"
        except InvalidDefinition:
            ab = "1"
        except Exception as e:  # noqa: BLE001
            ab = f"?{type(e).__name__}"
        out.append(f"verdict ok abstract={ab}")
    for w in rec:
        if w.category is UserWarning:
            ids = sorted({int(x) for x in _ID.findall(str(w.message))})
            out.append("warn " + (",".join(map(str, ids)) or "-"))
        else:
            out.append(f"warnother {w.category.__name__}")
    return out


# ----------------------------------------------------------------------------- Spec oracle

def oracle(d: Defn):
    """Written from the English statement, independently of the library and of the Lean model:
    reachability is the reflexive-transitive closure computed by Warshall's algorithm on a
    boolean matrix (no worklist, no visiting order)."""
    n = len(d.states)
    bound = [(s, pos) for pos, specs in d.events for s in specs]
    every = [s for s, _ in bound] + list(d.loose)
    # internal transitions only as self-transitions (a from_.any() placeholder is not one)
    for s in every:
        if s[-1] and not (s[0] == "e" and s[1] == s[2]):
            return ["verdict invalid"]
    if n == 0 and not d.events:
        return ["verdict ok abstract=1"]
    if n == 0 or not d.events:
        return ["verdict invalid"]
    initial = [i for i, _ in d.states]
    final = [f for _, f in d.states]
    if sum(initial) != 1:
        return ["verdict invalid"]
    adj = [[False] * n for _ in range(n)]
    leaves = [False] * n          # has an outgoing transition, possibly to a State that is not declared in the class
    for s in every:
        if s[0] == "e":
            leaves[s[1]] = True
            if s[2] < n:
                adj[s[1]][s[2]] = True
    for s, pos in bound:
        if s[0] == "a":
            for a in range(min(pos, n)):
                if not final[a]:
                    adj[a][s[1]] = True
    for a in range(n):
        if final[a] and (any(adj[a]) or leaves[a]):
            return ["verdict invalid"]
    reach = [[adj[a][b] or a == b for b in range(n)] for a in range(n)]
    for k in range(n):
        rk = reach[k]
        for a in range(n):
            if reach[a][k]:
                ra = reach[a]
                for b in range(n):
                    if rk[b]:
                        ra[b] = True
    i0 = initial.index(True)
    if not all(reach[i0]):
        return ["verdict invalid"]
    trap = [a for a in range(n) if not final[a] and not any(adj[a]) and not leaves[a]]
    nopath = []
    if any(final):
        nopath = [a for a in range(n) if not final[a] and not any(reach[a][f] and final[f] for f in range(n))]
    if d.strict and (trap or nopath):
        return ["verdict invalid"]
    out = ["verdict ok abstract=0"]
    for w in (trap, nopath):
        if w:
            out.append("warn " + ",".join(map(str, w)))
    return out


def project(model_lines):
    """Model observation -> what the property determines (the exception's reason and named states
    are informational: the statement only fixes the exception type)."""
    out = []
    for l in model_lines:
        if l.startswith("verdict invalid"):
            out.append("verdict invalid")
        else:
            out.append(l)
    return out


# ----------------------------------------------------------------------------- batch runner

def run_batch(defs, want_samples=0):
    """Evaluate real code, model and oracle on `defs`.
    Returns (stats dict, problems list[(kind, defn, impl, model, oracle)])."""
    lines = []
    for i, d in enumerate(defs):
        lines += scn_lines(d, f"d{i}")
    model = run_driver(lines, exe="drv_validate", root="DrvValidate.lean")
    stats = dict(evaluations=0, nontrivial=0, by_n={}, by_specs={}, by_outcome={}, mode={}, strict={},
                 with_any=0, with_internal=0, with_loose=0, early_event=0, warned=0, samples=[])
    problems = []
    for i, d in enumerate(defs):
        impl = observe(d)
        mod_raw = model.get(f"d{i}")
        if mod_raw is None:
            raise RuntimeError("driver returned no answer for a scenario")
        mod = project(mod_raw)
        orc = oracle(d)
        n = len(d.states)
        k = n_specs(d)
        stats["evaluations"] += 1
        if n >= 2 and k >= 1:
            stats["nontrivial"] += 1
        stats["by_n"][n] = stats["by_n"].get(n, 0) + 1
        stats["by_specs"][k] = stats["by_specs"].get(k, 0) + 1
        oc = mod_raw[0].split(" ")[2] if mod_raw[0].startswith("verdict invalid") else (
            "ok+warn" if len(mod_raw) > 1 else mod_raw[0][8:])
        stats["by_outcome"][oc] = stats["by_outcome"].get(oc, 0) + 1
        stats["mode"][d.mode] = stats["mode"].get(d.mode, 0) + 1
        stats["strict"][int(d.strict)] = stats["strict"].get(int(d.strict), 0) + 1
        specs = [s for _, ss in d.events for s in ss] + list(d.loose)
        stats["with_any"] += any(s[0] == "a" for s in specs)
        stats["with_internal"] += any(s[-1] for s in specs)
        stats["with_loose"] += bool(d.loose)
        stats["early_event"] += any(p < n for p, _ in d.events)
        stats["warned"] += len(mod_raw) > 1
        if impl != orc:
            problems.append(("spec", d, impl, mod_raw, orc))
        elif impl != mod:
            problems.append(("corr", d, impl, mod_raw, orc))
        if len(stats["samples"]) < want_samples and n >= 3 and k >= 2 and mod_raw[0].startswith("verdict ok") and (i % 7 == 0 or len(mod_raw) > 1):
            stats["samples"].append(dict(scenario=scn_lines(d, "sample")[1:-1], implementation=impl, model=mod_raw))
    return stats, problems


def merge(a, b):
    for k, v in b.items():
        if isinstance(v, dict):
            t = a.setdefault(k, {})
            for kk, vv in v.items():
                t[kk] = t.get(kk, 0) + vv
        elif isinstance(v, list):
            a.setdefault(k, [])
            a[k] += v
        else:
            a[k] = a.get(k, 0) + v
    return a


def build_driver():
    b = subprocess.run(["lake", "build", "drv_validate"], cwd=LEAN, capture_output=True, text=True)
    if b.returncode != 0:
        raise RuntimeError("lake build drv_validate failed: " + (b.stdout + b.stderr)[-1500:])


# ----------------------------------------------------------------------------- worker (thorough tier)

def work(args):
    """One exhaustive core task or one block of samples, in a worker process."""
    import validate_defs as vd

    kind, seed, payload, deadline = args
    if time.time() > deadline:
        return dict(skipped=1), [], kind, payload
    if kind == "core":
        it = vd.core_defs(seed, payload)
    else:
        tag, lo, hi = payload
        it = (vd.sample(seed, tag, i) for i in range(lo, hi))
    stats, problems = {}, []
    chunk = []
    complete = True

    def flush():
        s, p = run_batch(chunk, want_samples=1)
        merge(stats, s)
        problems.extend(p[:5])
        chunk.clear()

    for d in it:
        chunk.append(d)
        if len(chunk) >= 1500:
            flush()
            if time.time() > deadline:
                complete = False
                break
    if chunk and complete:
        flush()
    stats["incomplete_tasks"] = 0 if complete else 1
    stats["samples"] = stats.get("samples", [])[:1]
    return stats, problems, kind, payload
