"""C18 — implementation side: build the real classes from a scenario, produce the graphs through the
public API, and read them (a) as pydot objects and (b) as the DOT text they are written to.

Observation language (one block per subject, same as the Lean driver prints):

    sub cls | sub inst <value>
    N <id> shape=<..> label=<..|-> per=<..|-> fill=<..> pen=<..|->
    E <src> <dst> label=<..>
    ERR <what>
"""
from __future__ import annotations

import re
import zlib
import warnings

from diagram_gen import DScn, enc, pyvalue, trans_events, value_text


# ----------------------------------------------------------------------------- building

def _fn(name, ret=None):
    def f(*a, **k):
        return ret
    f.__name__ = name
    f.__qualname__ = name
    return f


def _method(name, ret=None):
    def f(self, *a, **k):
        return ret
    f.__name__ = name
    f.__qualname__ = name
    return f


def build(s: DScn):
    """returns (machine class, model class)"""
    from statemachine import State, StateMachine

    gv = lambda n: s.guard_vals.get(n, True)
    # guards given as property objects: one property per name, living on the class of the provider of that name
    props = {nm: property(_method(nm, gv(nm))) for t in s.trans for nm, style in t.cond + t.unless if style == "prop"}

    def inline(lst, ret_of=lambda n: None):
        out = []
        for nm, style in lst:
            out.append(nm if style == "name" else props[nm] if style == "prop" else _fn(nm, ret_of(nm)))
        return out or None

    states = []
    for st in s.states:
        kw = {}
        if st.value is not None:
            kw["value"] = pyvalue(st.value)
        states.append(State(st.name if st.name else None, initial=st.initial, final=st.final,
                            enter=inline(st.enter), exit=inline(st.exit), **kw))
    ns = {}
    # the class written as base + subclass overriding state k (same id, a new State object) when that leaves the base
    # class a valid machine: every state reachable from the initial one without k's outgoing transitions, k not final,
    # no from_.any() groups
    k_over = getattr(s, "override", -1)
    sub_ns = None
    if k_over >= 0:
        reach, todo = set(), [next(i for i, st in enumerate(s.states) if st.initial)]
        while todo:
            x = todo.pop()
            if x in reach:
                continue
            reach.add(x)
            todo += [t.tgt for t in s.trans if t.src == x and x != k_over]
        ok = (len(reach) == len(s.states) and not s.states[k_over].final and not getattr(s, "states_dict", False)
              and not any(getattr(t, "any_group", 0) for t in s.trans) and any(t.src == k_over for t in s.trans))
        if ok:
            st = s.states[k_over]
            kw = {"value": pyvalue(st.value)} if st.value is not None else {}
            new_k = State(st.name if st.name else None, initial=st.initial, final=st.final,
                          enter=inline(st.enter), exit=inline(st.exit), **kw)
            sub_ns = {st.id: new_k}
        else:
            k_over = -1
    if getattr(s, "states_dict", False):
        from statemachine.states import States
        ns["states_"] = States({st.id: obj for st, obj in zip(s.states, states)})
    else:
        for st, obj in zip(s.states, states):
            ns[st.id] = obj
    by_attr = {}
    by_attr_sub = {}
    any_done = set()
    # events given as id-less Event objects: only names that are valid attribute names, are not the attribute a
    # transition list is assigned to, and do not clash with a state id or a method
    ph = {}
    if getattr(s, "placeholders", False):
        from statemachine.event import Event
        taken = {t.attr for t in s.trans if t.attr} | {st.id for st in s.states} | set(s.machine_methods) | {"states_"}
        for t in s.trans:
            # (one event per such transition, and no attribute assignment: the library re-binds placeholders one by one
            # — remove, append — so the order of *several* events of a transition is not the written one; 11.5)
            if len(t.events) == 1 and not t.attr and not getattr(t, "any_group", 0) and t.src != k_over:
                n = t.events[0]
                if n.isidentifier() and n.isascii() and n not in taken and n not in ph:
                    ph[n] = Event(name="Shown as " + n)
    for t in s.trans:
        if getattr(t, "any_group", 0):
            if t.any_group in any_done:
                continue
            any_done.add(t.any_group)
        kw = {}
        if len(t.events) == 1 and t.events[0] in ph and not t.attr and not getattr(t, "any_group", 0) and t.src != k_over:
            kw["event"] = [ph[t.events[0]]] if t.event_as_list else ph[t.events[0]]
        elif t.events:
            kw["event"] = list(t.events) if t.event_as_list else " ".join(t.events)
        if t.internal:
            kw["internal"] = True
        for g, lst in (("cond", t.cond), ("unless", t.unless)):
            v = inline(lst, gv)
            if v:
                kw[g] = v if len(v) > 1 else v[0]
        v = inline(t.on)
        if v:
            kw["on"] = v
        if getattr(t, "any_group", 0):
            tl = states[t.tgt].from_.any(**kw)
        elif sub_ns is not None and t.src == k_over:
            tl = new_k.to(new_k if t.tgt == k_over else states[t.tgt], **kw)
            if t.attr:
                by_attr_sub[t.attr] = (by_attr_sub[t.attr] | tl) if t.attr in by_attr_sub else tl
            continue
        else:
            tl = states[t.src].to(states[t.tgt], **kw)
        if t.attr:
            by_attr[t.attr] = (by_attr[t.attr] | tl) if t.attr in by_attr else tl
    for a, tl in by_attr.items():
        ns[a] = tl
    used = {t.events[0] for t in s.trans
            if len(t.events) == 1 and t.events[0] in ph and not t.attr and not getattr(t, "any_group", 0)
            and t.src != k_over}
    for n in sorted(used):
        ns[n] = ph[n]
    if getattr(s, "coro", False):
        async def after_transition(self):
            return None
        ns["after_transition"] = after_transition
    for nm in s.machine_methods:
        ns[nm] = props.get(nm) or _method(nm, gv(nm))
    model_ns = {nm: (props[nm] if nm in props and nm not in s.machine_methods else _method(nm, gv(nm)))
                for nm in s.model_methods}
    with warnings.catch_warnings():
        warnings.simplefilter("ignore")
        cls = type(StateMachine)("M_" + re.sub(r"\W", "_", s.name), (StateMachine,), ns)
        if sub_ns is not None:
            sub_ns.update(by_attr_sub)
            cls = type(StateMachine)("Over_" + cls.__name__, (cls,), sub_ns)
        if s.subclass:
            cls = type(StateMachine)("Sub_" + cls.__name__, (cls,), {})
    model_cls = type("Mdl", (), model_ns)
    return cls, model_cls


def grapher(s: DScn):
    """the DotGraphMachine class used (customised colours when the scenario asks for it)"""
    from statemachine.contrib.diagram import DotGraphMachine
    attrs = {}
    if s.fill is not None:
        attrs["state_active_fillcolor"] = s.fill
    if s.pen is not None:
        attrs["state_active_penwidth"] = s.pen
    return type("G", (DotGraphMachine,), attrs) if attrs else DotGraphMachine


# ----------------------------------------------------------------------------- reading a graph

def unq(x):
    x = str(x)
    if len(x) >= 2 and x[0] == '"' and x[-1] == '"':
        return x[1:-1].replace('\\"', '"')
    return x


def _opt(attrs, k):
    return enc(str(attrs[k])) if k in attrs else "-"


def read_objects(g):
    """pydot object model -> items in the order of the add_node/add_edge calls"""
    import pydot
    items = sorted(g.get_nodes() + g.get_edges(), key=lambda x: x.get_sequence())
    out = []
    for it in items:
        a = it.get_attributes()
        if isinstance(it, pydot.Node):
            out.append(dict(kind="N", id=unq(it.get_name()), attrs=dict(a)))
        else:
            out.append(dict(kind="E", src=unq(it.get_source()), dst=unq(it.get_destination()), attrs=dict(a)))
    return out


def item_line(it):
    a = it["attrs"]
    if it["kind"] == "N":
        return (f"N {enc(it['id'])} shape={_opt(a, 'shape')} label={_opt(a, 'label')} "
                f"per={_opt(a, 'peripheries')} fill={_opt(a, 'fillcolor')} pen={_opt(a, 'penwidth')}")
    return f"E {enc(it['src'])} {enc(it['dst'])} label={enc(str(a.get('label', '')))}"


# ----------------------------------------------------------------------------- DOT text semantics

_ID = r'"(?:[^"\\]|\\.)*"|[^\s\[\]=,;{}"]+'
_TOK = re.compile(r"\s*(->|[\[\]=,;{}]|" + _ID + r")")


def _tokens(text):
    pos, out = 0, []
    while pos < len(text):
        m = _TOK.match(text, pos)
        if not m:
            if text[pos:].strip() == "":
                break
            raise ValueError(f"DOT lexer stuck at {text[pos:pos + 30]!r}")
        out.append(m.group(1))
        pos = m.end()
    return out


def _idval(tok):
    """DOT ID -> its string; in a quoted ID only `\\"` is an escape (the DOT language definition)"""
    if tok.startswith('"'):
        return True, tok[1:-1].replace('\\"', '"')
    return False, tok


def _esc_string(v):
    """label escString: `\\n` is a line break, `\\\\` a backslash"""
    return v.replace("\\\\", "\0").replace("\\n", "\n").replace("\0", "\\")


def read_dot(text):
    """A reader of the DOT subset pydot writes, with the *semantics of the DOT language*: `node`,
    `edge`, `graph` (any letter case, unquoted) followed by an attribute list set defaults; a node
    statement for an id that already exists updates that node; edge endpoints create missing nodes.
    Returns (items, graph_attrs): nodes in order of creation, then edges in order."""
    toks = _tokens(text)
    i = 0
    assert toks[i].lower() in ("digraph", "graph", "strict"), toks[:3]
    while toks[i] != "{":
        i += 1
    i += 1
    nodes, order, edges = {}, [], []
    defaults = {"node": {}, "edge": {}, "graph": {}}
    gattrs = {}

    def attr_list(j):
        out = {}
        assert toks[j] == "["
        j += 1
        while toks[j] != "]":
            if toks[j] == ",":
                j += 1
                continue
            k = _idval(toks[j])[1]
            if toks[j + 1] == "=":
                out[k] = _idval(toks[j + 2])[1]
                j += 3
            else:
                out[k] = "true"
                j += 1
        return out, j + 1

    def touch(nid):
        if nid not in nodes:
            nodes[nid] = dict(defaults["node"])
            order.append(nid)
        return nodes[nid]

    while toks[i] != "}":
        if toks[i] == ";":
            i += 1
            continue
        quoted, first = _idval(toks[i])
        if toks[i + 1] == "=":                       # graph attribute
            gattrs[first] = _idval(toks[i + 2])[1]
            i += 3
        elif toks[i + 1] == "->":
            _, second = _idval(toks[i + 2])
            i += 3
            a = {}
            if toks[i] == "[":
                a, i = attr_list(i)
            touch(first)
            touch(second)
            edges.append(dict(kind="E", src=first, dst=second, attrs={**defaults["edge"], **a}))
        else:
            a = {}
            i += 1
            if toks[i] == "[":
                a, i = attr_list(i)
            if not quoted and first.lower() in defaults:
                defaults[first.lower()].update(a)
                if first.lower() == "graph":
                    gattrs.update(a)
            else:
                touch(first).update(a)
    items = [dict(kind="N", id=n, attrs=_interp(nodes[n])) for n in order] + \
            [dict(e, attrs=_interp(e["attrs"])) for e in edges]
    return items, gattrs


def _interp(attrs):
    a = dict(attrs)
    if "label" in a:
        a["label"] = _esc_string(a["label"])
    return a


# ----------------------------------------------------------------------------- running one scenario

class Observed:
    def __init__(self):
        self.subjects = []       # [(subject tuple, object items | None, dot items | None, error | None, dot text)]
        self.deferr = None
        self.fill = "turquoise"
        self.pen = "2"
        self.walk_steps = 0


def observe(s: DScn) -> Observed:
    from statemachine.exceptions import InvalidStateValue
    ob = Observed()
    try:
        cls, model_cls = build(s)
    except Exception as e:       # not a valid machine definition
        ob.deferr = f"{type(e).__name__}: {e}"
        return ob
    G = grapher(s)
    ob.fill, ob.pen = str(G.state_active_fillcolor), str(G.state_active_penwidth)

    keep = {}

    def snap(subject, x, direct):
        try:
            if direct:
                g = x._graph()
            elif subject[0] == "inst" and zlib.crc32(s.name.encode()) % 3 == 0:
                # one renderer object, built when the instance was created and used again after every event
                # (the usage shown in the documentation)
                if "r" not in keep:
                    keep["r"] = G(x)
                g = keep["r"]()
            else:
                g = G(x)()
            text = g.to_string()
            objs = read_objects(g)
        except InvalidStateValue:
            ob.subjects.append((subject, None, None, "invalidstate", ""))
            return
        except Exception as e:   # the library failed to draw: an observation, not a crash of the check
            ob.subjects.append((subject, None, None, f"raised:{type(e).__name__}", ""))
            return
        ob.subjects.append((subject, objs, read_dot(text)[0], None, text))

    snap(("cls",), cls, False)
    default_style = s.fill is None and s.pen is None
    try:
        with warnings.catch_warnings():
            warnings.simplefilter("ignore")
            sm = cls(model_cls(), rtc=s.rtc)
    except Exception as e:
        ob.deferr = f"instantiation {type(e).__name__}: {e}"
        return ob
    if getattr(s, "late_guards", None):
        # an object attached later that offers some of the guard names too (one more provider of those guards: the
        # declaration, which is what the diagram shows, is unchanged)
        gvl = lambda n: s.guard_vals.get(n, True)
        sm.add_listener(type("LateGuards", (), {n: _method(n, gvl(n)) for n in s.late_guards})())
    direct = default_style and s.via == "graph"
    cur = lambda: repr(sm.current_state_value)
    if sm.current_state_value is None:
        snap(("unset",), sm, direct)
    else:
        snap(("inst", cur()), sm, direct)
    for w in s.walks:
        for ev in w:
            try:
                sm.send(ev)
            except Exception:
                pass
            ob.walk_steps += 1
            snap(("inst", cur()), sm, direct)
    for k in s.sets:
        st = s.states[k]
        sm.current_state_value = st.id if st.value is None else pyvalue(st.value)
        snap(("inst", cur()), sm, direct)
    # a value that is no state's value, stored by the model behind the machine's back
    sm.model.state = "no such state"
    snap(("inst", cur()), sm, direct)
    return ob
