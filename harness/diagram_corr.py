"""C18 — evaluation of scenarios: implementation vs model (Lean driver) vs Spec; shrinking; replay text."""
from __future__ import annotations

import copy
import random
import time

import diagram_gen as dg
import diagram_impl as di
import diagram_spec as dspec
from common import first_diff, run_driver
from framework import scn_hash


def machine_text(s: dg.DScn) -> str:
    """canonical text of the machine definition (what `distinct` hashes)"""
    return "\n".join(dg.model_lines(s, [("cls",), ("inst", "")])[1:])


def nontrivial(s: dg.DScn) -> bool:
    """the machine has an internal transition, a final state, a guard or a multi-event transition"""
    return (any(t.internal for t in s.trans) or any(st.final for st in s.states)
            or any(t.cond or t.unless for t in s.trans)
            or any(len(dg.trans_events(t)) > 1 for t in s.trans))


def _blocks(lines):
    out, cur = {}, None
    for l in lines:
        if l.startswith("sub "):
            cur = out.setdefault(l, [])
        elif cur is not None:
            cur.append(l)
    return out


def _sub_line(subject):
    return "sub cls" if subject[0] == "cls" else "sub unset" if subject[0] == "unset" else f"sub inst {dg.enc(subject[1])}"


class Result:
    """outcome of one scenario"""

    def __init__(self, s):
        self.s = s
        self.deferr = None
        self.graphs = 0
        self.subjects = set()
        self.spec_fails = []     # (view, subject, message)
        self.diffs = []          # (view, subject, (index, impl line, model line))
        self.ob = None
        self.model = {}
        self.walk_steps = 0


def evaluate(scns, views=("objects", "dot")):
    """Run implementation, model and Spec on a batch of scenarios; one driver call for the batch."""
    res, lines = [], []
    for s in scns:
        r = Result(s)
        ob = di.observe(s)
        r.ob = ob
        r.deferr = ob.deferr
        r.walk_steps = ob.walk_steps
        uniq = []
        for (subject, *_rest) in ob.subjects:
            if subject not in uniq:
                uniq.append(subject)
        r.subjects = set(uniq)
        lines += dg.model_lines(s, uniq, fill=ob.fill, pen=ob.pen)
        res.append(r)
    mod = run_driver(lines, exe="drv_diagram", root="DrvDiagram.lean") if lines else {}
    for r in res:
        s = r.s
        blocks = {}
        for kind in ("cls", "inst"):
            blocks.update(_blocks(mod.get(f"{s.name}#{kind}", [])))
        r.model = blocks
        for (subject, obj_items, dot_items, err, _text) in r.ob.subjects:
            r.graphs += 1
            m = blocks.get(_sub_line(subject), ["<no model output>"])
            if err is not None:
                a = [f"ERR {err}"]
                d = first_diff(a, m)
                if d:
                    r.diffs.append(("objects", subject, d))
                if subject[0] in ("cls", "unset") or any(dg.value_text(st) == subject[1] for st in s.states):
                    r.spec_fails.append(("objects", subject, f"no graph for the class / an instance in a valid state: {err}"))
                continue
            if "objects" in views:
                a = [di.item_line(it) for it in obj_items]
                d = first_diff(a, m)
                if d:
                    r.diffs.append(("objects", subject, d))
                for f in dspec.check(s, subject, obj_items):
                    r.spec_fails.append(("objects", subject, f))
            if "dot" in views:
                # the text denotes a set of nodes (created at first mention) and a list of edges
                a = [di.item_line(it) for it in dot_items]
                a = sorted(l for l in a if l.startswith("N ")) + [l for l in a if l.startswith("E ")]
                mm = sorted(l for l in m if l.startswith("N ")) + [l for l in m if l.startswith("E ")]
                d = first_diff(a, mm)
                if d:
                    r.diffs.append(("dot", subject, d))
                for f in dspec.check(s, subject, dot_items):
                    r.spec_fails.append(("dot", subject, f))
    return res


def evaluate_one(s, views=("objects", "dot")):
    (r,) = evaluate([s], views)
    return r


# ----------------------------------------------------------------------------- shrinking

def _valid(s):
    try:
        return di.observe(s).deferr is None
    except Exception:
        return False


def _drop_state(s, k):
    c = copy.deepcopy(s)
    if c.states[k].initial or len(c.states) <= 1:
        return None
    del c.states[k]
    c.trans = [t for t in c.trans if t.src != k and t.tgt != k]
    for t in c.trans:
        t.src -= int(t.src > k)
        t.tgt -= int(t.tgt > k)
    c.sets = [x - int(x > k) for x in c.sets if x != k]
    return c


def shrink(s, bad, budget_s=15.0):
    """greedy: keep a simplification whenever `bad(candidate)` still holds"""
    t0 = time.time()
    cur = copy.deepcopy(s)
    changed = True

    def attempt(c):
        nonlocal cur, changed
        if c is None or time.time() - t0 > budget_s:
            return False
        try:
            if _valid(c) and bad(c):
                cur, changed = c, True
                return True
        except Exception:
            pass
        return False

    while changed and time.time() - t0 < budget_s:
        changed = False
        if cur.walks:
            c = copy.deepcopy(cur); c.walks = []; attempt(c)
        for k in range(len(cur.sets) - 1, -1, -1):
            c = copy.deepcopy(cur); del c.sets[k]; attempt(c)
        for k in range(len(cur.states) - 1, -1, -1):
            if k < len(cur.states):
                attempt(_drop_state(cur, k))
        for k in range(len(cur.trans) - 1, -1, -1):
            c = copy.deepcopy(cur); del c.trans[k]; attempt(c)
        for k in range(len(cur.trans)):
            for fld in ("cond", "unless", "on"):
                if getattr(cur.trans[k], fld):
                    c = copy.deepcopy(cur); setattr(c.trans[k], fld, []); attempt(c)
            if len(cur.trans[k].events) > 1 or (cur.trans[k].events and cur.trans[k].attr):
                c = copy.deepcopy(cur); c.trans[k].events = c.trans[k].events[:1]; c.trans[k].attr = None; attempt(c)
        for k in range(len(cur.states)):
            st = cur.states[k]
            for fld, empty in (("enter", []), ("exit", []), ("name", None), ("value", None)):
                if getattr(st, fld):
                    c = copy.deepcopy(cur); setattr(c.states[k], fld, empty); attempt(c)
            if st.final:
                c = copy.deepcopy(cur); c.states[k].final = False; attempt(c)
        if cur.fill is not None or cur.pen is not None:
            c = copy.deepcopy(cur); c.fill = c.pen = None; attempt(c)
        used = {x[0] for st in cur.states for x in st.enter + st.exit} | \
               {x[0] for t in cur.trans for x in t.on + t.cond + t.unless}
        used |= {g for x in list(used) for g in cur.guard_vals if g in x.split()}
        for fld in ("machine_methods", "model_methods"):
            keep = [m for m in getattr(cur, fld) if m in used]
            if keep != getattr(cur, fld):
                c = copy.deepcopy(cur); setattr(c, fld, keep); attempt(c)
    return cur


def perturb(rng: random.Random, s: dg.DScn):
    """a neighbour of `s` (same shape, one or two features changed)"""
    c = copy.deepcopy(s)
    for _ in range(rng.randint(1, 2)):
        r = rng.random()
        if r < 0.2 and c.trans:
            o = rng.choice(c.trans)
            c.trans.append(copy.deepcopy(o))
        elif r < 0.4:
            selfs = [t for t in c.trans if t.src == t.tgt]
            if selfs:
                t = rng.choice(selfs)
                t.internal = not t.internal
        elif r < 0.55:
            k = rng.randrange(len(c.states))
            if not c.states[k].initial and not any(t.src == k for t in c.trans):
                c.states[k].final = not c.states[k].final
        elif r < 0.7:
            k = rng.randrange(len(c.states))
            c.states[k].name = rng.choice(dg.NAME_POOL + [None])
        elif r < 0.85 and c.trans:
            t = rng.choice(c.trans)
            g = rng.choice(dg.GUARD_POOL)
            if g not in [x[0] for x in t.cond + t.unless]:
                (t.cond if rng.random() < 0.5 else t.unless).append([g, "name"])
        else:
            nf = [k for k in range(len(c.states)) if not c.states[k].final]
            src = rng.choice(nf)
            t = dg.DTrans(src=src, tgt=rng.randrange(len(c.states)),
                          events=[rng.choice(dg.EVENT_POOL)])
            c.trans.append(t)
    return c


# ----------------------------------------------------------------------------- replay text

def python_source(s: dg.DScn):
    """the machine as a user would write it (for the reader of a replay file)"""
    def cbs(lst):
        xs = [repr(n) if st == "name" else f"<property {n}>" if st == "prop" else f"<function {n}>" for n, st in lst]
        return xs[0] if len(xs) == 1 else "[" + ", ".join(xs) + "]"

    out = ["class M(StateMachine):"]
    for st in s.states:
        a = [repr(st.name)] if st.name else []
        if st.value is not None:
            a.append(f"value={dg.pyvalue(st.value)!r}")
        a += [f"{k}=True" for k in ("initial", "final") if getattr(st, k)]
        a += [f"{k}={cbs(getattr(st, k))}" for k in ("enter", "exit") if getattr(st, k)]
        out.append(f"    {st.id} = State({', '.join(a)})")
    attrs = {}
    for t in s.trans:
        a = [s.states[t.tgt].id]
        if t.events:
            a.append("event=" + (repr(t.events) if t.event_as_list else repr(" ".join(t.events))))
        if t.internal:
            a.append("internal=True")
        a += [f"{k}={cbs(getattr(t, k))}" for k in ("cond", "unless", "on") if getattr(t, k)]
        expr = f"{s.states[t.src].id}.to({', '.join(a)})"
        if t.attr:
            attrs.setdefault(t.attr, []).append(expr)
        else:
            out.append(f"    {expr}")
    for a, exprs in attrs.items():
        out.append(f"    {a} = " + " | ".join(exprs))
    for m in s.machine_methods:
        out.append(f"    def {m}(self): ...")
    if s.model_methods:
        out.append("class Model:  # M(Model())")
        out += [f"    def {m}(self): ..." for m in s.model_methods]
    if getattr(s, "override", -1) >= 0:
        out.append(f"# written (when that leaves the base class valid) as a base class without the outgoing transitions "
                   f"of `{s.states[s.override].id}` plus a subclass that declares `{s.states[s.override].id} = State(...)` "
                   f"again and those transitions from the new object (harness/diagram_impl.py build)")
    if getattr(s, "placeholders", False):
        out.append("# single events given through event= on transitions not assigned to an attribute are id-less "
                   "`Event(name=...)` objects assigned to class attributes of their names")
    if s.subclass:
        out.append("class Sub(M): pass  # the diagrams are drawn for Sub")
    if s.fill is not None or s.pen is not None:
        out.append(f"class G(DotGraphMachine): state_active_fillcolor = {s.fill!r}; state_active_penwidth = {s.pen!r}")
    return out


def replay_text(r: Result, kind, why, extra=()):
    s = r.s
    out = [f"# C18 replay — kind: {kind}", "# why: " + " | ".join(why)]
    out += [f"# {x}" for x in extra]
    out += ["# the machine:"] + ["#   " + l for l in python_source(s)]
    out += ["# rerun: ./check C18 --replay <this file>",
            "# machine and subjects (input lines of the Lean driver drv_diagram):"]
    subs = []
    for (subject, *_r) in (r.ob.subjects if r.ob else []):
        if subject not in subs:
            subs.append(subject)
    out += ["#   " + l for l in dg.model_lines(s, subs, fill=r.ob.fill if r.ob else "turquoise",
                                              pen=r.ob.pen if r.ob else "2")]
    shown = set()
    lines = []
    for view, subject, msg in r.spec_fails:
        lines.append(f"# SPEC FAILS [{view}] {_sub_line(subject)}: {msg}")
    for view, subject, d in r.diffs:
        lines.append(f"# MODEL DIFFERS [{view}] {_sub_line(subject)}: item {d[0]}: implementation {d[1]!r} model {d[2]!r}")
    out += list(dict.fromkeys(lines))[:16]
    for (subject, obj_items, dot_items, err, text) in (r.ob.subjects if r.ob else []):
        bad = any(sj == subject for _, sj, _ in r.spec_fails) or any(sj == subject for _, sj, _ in r.diffs)
        if bad and subject not in shown and len(shown) < 2:
            shown.add(subject)
            out.append(f"# --- {_sub_line(subject)}: implementation (pydot objects):")
            out += ["#   " + (di.item_line(it)) for it in (obj_items or [])] or ["#   ERR " + str(err)]
            out.append("# --- model:")
            out += ["#   " + l for l in r.model.get(_sub_line(subject), ["<none>"])]
            out.append("# --- DOT text written by the implementation:")
            out += ["#   " + l for l in text.split("\n")]
    out += ["# scenario json:", dg.to_json(s)]
    return "\n".join(out) + "\n"


def load_replay(path):
    txt = open(path).read()
    for l in reversed(txt.split("\n")):
        if l.startswith("{"):
            return dg.from_json(l)
    raise ValueError(f"no scenario json in {path}")
